import QmiModel.Model.RpcClass
import QmiModel.Gen.RpcClasses
import Drv.Common
/-!
Line-protocol driver for C05 (state = the current class).

  cls <key>                     select a generated class table (`genClasses`)          → ok | unknown-class
  syn inst=<I> sigs=<L> consts=<L> ga=<b> mro=<T>|<T>|…   select a synthetic class given on the line → ok
        L = `-` | name,name,…     ga = some class overrides __getattribute__
        I = `-` | name:<b>,name:<b>,…       T = `-` | name:<kind>,name:<kind>,…
        kind = f<m><d> | s<m><d> | c<m><d> | p | n | d | o<m> | k        (<m>,<d>,<b> ∈ {0,1})
  q <name>                      → adv=<b> inv=<b> eff=<none|called> reply=<unknown|result> decl=<b>
  ctor                          → ok <k> | exc:QMI_UsageException | exc:AssertionError
  h <lock> <tok> <name>         whole request handler; lock/tok = `-` | token id  → reply=<unknown|result|locked> eff=<none|called|attr>
  proxy                         → ok <stub names sorted> | exc:AttributeError | noctor
  adv                           → advertised names, sorted by code points, space separated (`-` if none)
  wf                            → wf=1 | wf=0 bad=<names>

names: code points in decimal joined by `.`, the empty string is `-`.
-/
open QmiModel.RpcClass

namespace DrvC05

def parseBit (s : String) : Option Bool :=
  if s == "0" then some false else if s == "1" then some true else none

def parseName (s : String) : Option Name :=
  if s == "-" then some (encodeName []) else
  let parts := s.splitOn "."
  let cps := parts.map String.toNat?
  if cps.all Option.isSome then
    let l := cps.filterMap id
    if l.all (· < 0x110000) then some (encodeName l) else none
  else none

def decodeAux : Nat → Nat → List Nat
  | 0, _ => []
  | fuel + 1, n =>
    if n = 0 then [] else
    let d := if n % nameBase = 0 then nameBase else n % nameBase
    (d - 1) :: decodeAux fuel ((n - d) / nameBase)

def decodeName (n : Name) : List Nat := decodeAux (n + 1) n

def showName (n : Name) : String :=
  match decodeName n with
  | [] => "-"
  | l => ".".intercalate (l.map toString)

def lexLt : List Nat → List Nat → Bool
  | [], [] => false
  | [], _ :: _ => true
  | _ :: _, [] => false
  | a :: as, b :: bs => if a < b then true else if b < a then false else lexLt as bs

def insertSorted (x : List Nat) : List (List Nat) → List (List Nat)
  | [] => [x]
  | y :: ys => if lexLt y x then y :: insertSorted x ys else x :: y :: ys

def sortNames (ns : List Name) : List (List Nat) :=
  (ns.map decodeName).foldl (fun acc x => insertSorted x acc) []

def showCps (l : List Nat) : String :=
  match l with
  | [] => "-"
  | l => ".".intercalate (l.map toString)

def showNames (ns : List Name) : String :=
  match sortNames ns with
  | [] => "-"
  | l => " ".intercalate (l.map showCps)

def parseKind (s : String) : Option Kind :=
  match s.toList with
  | ['f', m, d] => do let m ← parseBit (String.ofList [m]); let d ← parseBit (String.ofList [d]); pure (.func m d)
  | ['s', m, d] => do let m ← parseBit (String.ofList [m]); let d ← parseBit (String.ofList [d]); pure (.staticfn m d)
  | ['c', m, d] => do let m ← parseBit (String.ofList [m]); let d ← parseBit (String.ofList [d]); pure (.classfn m d)
  | ['p'] => some .prop
  | ['n'] => some .ndprop
  | ['d'] => some .data
  | ['o', m] => do let m ← parseBit (String.ofList [m]); pure (.callableObj m)
  | ['k'] => some .classRef
  | _ => none

def parseEntries {β : Type} (pv : String → Option β) (s : String) : Option (List (Name × β)) :=
  if s == "-" then some [] else
  (s.splitOn ",").mapM (fun e =>
    match e.splitOn ":" with
    | [n, v] => do let n ← parseName n; let v ← pv v; pure (n, v)
    | _ => none)

def stripPrefix (p s : String) : Option String :=
  if s.startsWith p then some (String.ofList (s.toList.drop p.length)) else none

def parseNames (s : String) : Option (List Name) :=
  if s == "-" then some [] else (s.splitOn ",").mapM parseName

def parseSyn (toks : List String) : Option RpcClass :=
  match toks with
  | [i, sg, cs, ga, m] => do
    let i ← (stripPrefix "inst=" i) >>= parseEntries parseBit
    let sg ← (stripPrefix "sigs=" sg) >>= parseNames
    let cs ← (stripPrefix "consts=" cs) >>= parseNames
    let ga ← (stripPrefix "ga=" ga) >>= parseBit
    let m ← stripPrefix "mro=" m
    let ts ← (m.splitOn "|").mapM (parseEntries parseKind)
    pure { mro := ts, inst := i, sigs := sg, consts := cs, getattributeOverride := ga }
  | _ => none

def parseTok (s : String) : Option (Option Token) :=
  if s == "-" then some none else s.toNat?.map some

def b2s (b : Bool) : String := if b then "1" else "0"

def query (C : RpcClass) (n : Name) : String :=
  let eff := match effects C n with
    | [] => "none"
    | [.called _] => "called"
    | _ => "multi"
  let rep := match reply C n with
    | .unknownRpc => "unknown"
    | .methodResult => "result"
    | .objectLocked => "locked"
  s!"adv={b2s (decide (n ∈ advertised C))} inv={b2s (invokable C n)} eff={eff} reply={rep} decl={b2s (declared C n)}"

def stepLine (cur : Option RpcClass) (line : String) : Option RpcClass × String :=
  match line.splitOn " " with
  | ["cls", key] =>
    match QmiModel.Gen.genClasses.find? (fun p => p.1 == key) with
    | some p => (some p.2, "ok")
    | none => (cur, "unknown-class")
  | "syn" :: rest =>
    match parseSyn rest with
    | some C => (some C, "ok")
    | none => (cur, "bad-op")
  | ["q", name] =>
    match cur, parseName name with
    | some C, some n => (cur, query C n)
    | _, _ => (cur, "bad-op")
  | ["ctor"] =>
    match cur with
    | some C =>
      match construct C with
      | .ok ms => (cur, s!"ok {ms.length}")
      | .error .usage => (cur, "exc:QMI_UsageException")
      | .error .assertion => (cur, "exc:AssertionError")
      | .error .attributeError => (cur, "exc:AttributeError")
    | none => (cur, "bad-op")
  | ["h", l, t, name] =>
    match cur, parseTok l, parseTok t, parseName name with
    | some C, some lock, some tok, some n =>
      let (r, e) := handle C lock tok n
      let rs := match r with | .unknownRpc => "unknown" | .methodResult => "result" | .objectLocked => "locked"
      let es := match e with
        | [] => "none"
        | [.called _] => "called"
        | [.attrCodeRan _] => "attr"
        | _ => "multi"
      (cur, s!"reply={rs} eff={es}")
    | _, _, _, _ => (cur, "bad-op")
  | ["proxy"] =>
    match cur with
    | some C =>
      match construct C with
      | .ok ms =>
        match proxyBuild ms C.consts C.sigs with
        | .ok fs => (cur, s!"ok {showNames fs}")
        | .error _ => (cur, "exc:AttributeError")
      | .error _ => (cur, "noctor")
    | none => (cur, "bad-op")
  | ["adv"] =>
    match cur with
    | some C => (cur, showNames (advertised C))
    | none => (cur, "bad-op")
  | ["wf"] =>
    match cur with
    | some C =>
      if wfExceptB C [] then (cur, "wf=1")
      else (cur, s!"wf=0 bad={showNames (badNames C)}")
    | none => (cur, "bad-op")
  | _ => (cur, "bad-op")

end DrvC05

def main : IO Unit := Drv.main' DrvC05.stepLine none
