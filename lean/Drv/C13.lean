import QmiModel.Model.Transport
import Drv.Common
/-!
Line protocol for C13 (one output line per input line):

  init tcp|udp|serial <MIN_PACKET_SIZE> <MAX_PACKET_SIZE>        -> ok
  feed <ev> <ev> ...     ev = d<elapsed>:<hex> | t<elapsed> | e<elapsed>    -> ok
  planopen ok|to|early|late                                      -> ok   (outcome of a coming open())
  write <hex>
  open | close | discard
  read <n> <t> | until <hex> <t> | rut <n> <t>                   t = none | <int ticks>

op output:  <out> io=<trace> clk=<clock> left=<script entries left> buf=<hex>
  out = ret:<hex> | none | exc:<PyType>
-/
open QmiModel.Transport

def parseT (s : String) : Option (Option Int) :=
  if s == "none" then some none else (s.toInt?).map some

def parseEv (s : String) : Option Ev :=
  match s.toList with
  | 't' :: r => (String.ofList r).toNat?.map (fun e => ⟨e, .timeout⟩)
  | 'e' :: r => (String.ofList r).toNat?.map (fun e => ⟨e, .eof⟩)
  | 'd' :: r =>
    match (String.ofList r).splitOn ":" with
    | [e, h] =>
      match e.toNat?, Drv.unhex h with
      | some e, some bs => some ⟨e, .data bs⟩
      | _, _ => none
    | _ => none
  | _ => none

def parseEvs : List String → Option Script
  | [] => some []
  | x :: xs =>
    match parseEv x, parseEvs xs with
    | some e, some r => some (e :: r)
    | _, _ => none

def excName : Exc → String
  | .invalidOp => "QMI_InvalidOperationException"
  | .timeout => "QMI_TimeoutException"
  | .eof => "QMI_EndOfInputException"
  | .runtime => "QMI_RuntimeException"
  | .valueError => "ValueError"
  | .assertion => "AssertionError"
  | .osError => "OSError"
  | .exhausted => "ScriptExhausted"

def outStr : Out → String
  | .ret bs => "ret:" ++ Drv.hex bs
  | .unit => "none"
  | .exc e => "exc:" ++ excName e

def tStr : Option Int → String
  | none => "none"
  | some v => toString v

def ioStr : Io → String
  | .mk => "mk"
  | .st v => "st:" ++ tStr v
  | .rf n => "rf:" ++ toString n
  | .rv n => "rv:" ++ toString n
  | .cl => "cl"
  | .iw => "iw"
  | .rd n => "rd:" ++ toString n
  | .rs => "rs"
  | .gh => "gh"
  | .cn => "cn"
  | .bd => "bd"
  | .sa n => "sa:" ++ toString n
  | .sd n => "sd:" ++ toString n
  | .wr n => "wr:" ++ toString n

def ioTrace (l : List Io) : String :=
  if l.isEmpty then "-" else ",".intercalate (l.map ioStr)

/-- run one op; the io trace and the ghost log are cleared before each op (the driver prints only the delta) -/
def doOp (s : St) (op : Op) : St × String :=
  let r := step { s with io := [], log := [], wlog := [] } op
  (r.1, s!"{outStr r.2} io={ioTrace r.1.io} clk={r.1.clock} left={r.1.dev.length} buf={Drv.hex r.1.buf} open={r.1.isOpen}")

def stepLine (s : St) (line : String) : St × String :=
  match line.splitOn " " with
  | ["init", k, a, b] =>
    match a.toNat?, b.toNat? with
    | some mn, some mx =>
      match k with
      | "tcp" => (init .tcp mn mx, "ok")
      | "udp" => (init .udp mn mx, "ok")
      | "serial" => (init .serial mn mx, "ok")
      | _ => (s, "bad-op")
    | _, _ => (s, "bad-op")
  | "feed" :: evs =>
    match parseEvs evs with
    | some sc => ((step s (.feed sc)).1, "ok")
    | none => (s, "bad-op")
  | ["planopen", r] =>
    match r with
    | "ok" => ((step s (.planOpen .ok)).1, "ok")
    | "to" => ((step s (.planOpen .timeout)).1, "ok")
    | "early" => ((step s (.planOpen .early)).1, "ok")
    | "late" => ((step s (.planOpen .late)).1, "ok")
    | _ => (s, "bad-op")
  | ["write", h] =>
    match Drv.unhex h with
    | some d => doOp s (.write d)
    | none => (s, "bad-op")
  | ["open"] => doOp s .open
  | ["close"] => doOp s .close
  | ["discard"] => doOp s .discardRead
  | ["read", n, t] =>
    match n.toNat?, parseT t with
    | some n, some t => doOp s (.read n t)
    | _, _ => (s, "bad-op")
  | ["until", h, t] =>
    match Drv.unhex h, parseT t with
    | some term, some t => doOp s (.readUntil term t)
    | _, _ => (s, "bad-op")
  | ["rut", n, t] =>
    match n.toNat?, parseT t with
    | some n, some t => doOp s (.readUntilTimeout n t)
    | _, _ => (s, "bad-op")
  | _ => (s, "bad-op")

def main : IO Unit := Drv.main' stepLine (init .tcp 0 512)
