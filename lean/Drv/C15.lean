import QmiModel.Model.Scpi
import QmiModel.Model.Usbtmc
import Drv.Common
/-!
Line-protocol driver for C15 part A (SCPI + USBTMC).  Stateless: every line carries the whole
configuration and state.  Tokens are separated by one blank.

  bytes      : hex, `-` for the empty string
  list       : items joined by `,`; `-` is the empty list; inside a list the empty byte string is `z`
  code points: decimal numbers joined by `,`; `-` is the empty string
  option nat : decimal or `-`
-/
open QmiModel

namespace Drv.C15

def optNat (s : String) : Option (Option Nat) :=
  if s == "-" then some none else s.toNat?.map some

def natList (s : String) : Option (List Nat) :=
  if s == "-" then some [] else (s.splitOn ",").mapM (·.toNat?)

def bool01 (s : String) : Option Bool :=
  if s == "0" then some false else if s == "1" then some true else none

def item (s : String) : Option (List UInt8) :=
  if s == "z" then some [] else if s == "-" then none else Drv.unhex s

def itemList (s : String) : Option (List (List UInt8)) :=
  if s == "-" then some [] else (s.splitOn ",").mapM item

def showItem (b : List UInt8) : String := if b.isEmpty then "z" else Drv.hex b

def showItems (l : List (List UInt8)) : String :=
  if l.isEmpty then "-" else ",".intercalate (l.map showItem)

def showOptNat : Option Nat → String
  | none => "-"
  | some n => toString n

def showNats (l : List Nat) : String :=
  if l.isEmpty then "-" else ",".intercalate (l.map toString)

def int? (s : String) : Option Int :=
  if s.startsWith "-" then (s.drop 1).toNat?.map (fun n => -(n : Int)) else s.toNat?.map (fun n => (n : Int))

/-! #### SCPI -/

def scpiExc : Scpi.PyExc → String
  | .instrument => "exc:QMI_InstrumentException"
  | .timeout => "exc:QMI_TimeoutException"
  | .unicodeEncode => "exc:UnicodeEncodeError"
  | .unicodeDecode => "exc:UnicodeDecodeError"
  | .indexError => "exc:IndexError"

def showCall : Scpi.Call → String
  | .write b => s!"w:{Drv.hex b}"
  | .read n to => s!"r:{n}:{showOptNat to}"
  | .readUntil t to => s!"u:{Drv.hex t}:{showOptNat to}"
  | .discard => "d"

def showLog (l : List Scpi.Call) : String :=
  if l.isEmpty then "-" else ";".intercalate (l.map showCall)

def scpiCfg (ct rt dflt : String) : Option (Except Scpi.PyExc Scpi.Cfg) := do
  let c ← natList ct
  let r ← natList rt
  let d ← optNat dflt
  pure (Scpi.mkCfg c r d)

/-- transport mode: 0 = strict stream, 1 = sloppy stream, 2 = message based -/
def trMode (s : String) : Option (Bool × Bool) :=
  if s == "0" then some (false, false) else if s == "1" then some (true, false) else if s == "2" then some (false, true) else none

def scpiLine : List String → String
  | ["s.init", ct, rt] =>
    match scpiCfg ct rt "-" with
    | some (.ok _) => "ok"
    | some (.error e) => scpiExc e
    | none => "bad-op"
  | ["s.write", ct, rt, cmd] =>
    match scpiCfg ct rt "-", natList cmd with
    | some (.ok cfg), some c =>
      match Scpi.write cfg { rx := [] } c with
      | (t, .ok ()) => s!"ok log={showLog t.log}"
      | (t, .error e) => s!"{scpiExc e} log={showLog t.log}"
    | some (.error e), some _ => scpiExc e
    | _, _ => "bad-op"
  | ["s.writeraw", ct, rt, cmd] =>
    match scpiCfg ct rt "-", Drv.unhex cmd with
    | some (.ok cfg), some c => s!"ok log={showLog (Scpi.writeRaw cfg { rx := [] } c).log}"
    | some (.error e), some _ => scpiExc e
    | _, _ => "bad-op"
  | ["s.ask", ct, rt, dflt, to, discard, sloppy, cmd, rx, pending] =>
    match scpiCfg ct rt dflt, optNat to, bool01 discard, trMode sloppy, natList cmd, Drv.unhex rx, Drv.unhex pending with
    | some (.ok cfg), some to, some dc, some (sl, msg), some c, some rx, some pending =>
      match Scpi.ask cfg { rx, pending, sloppy := sl, message := msg } c to dc with
      | (t, .ok r) => s!"ok {Drv.hex (r.map UInt8.ofNat)} log={showLog t.log} rx={Drv.hex t.rx}"
      | (t, .error e) => s!"{scpiExc e} log={showLog t.log} rx={Drv.hex t.rx}"
    | some (.error e), some _, some _, some _, some _, some _, some _ => scpiExc e
    | _, _, _, _, _, _, _ => "bad-op"
  | ["s.bin", ct, rt, dflt, to, flag, rx] =>
    match scpiCfg ct rt dflt, optNat to, bool01 flag, Drv.unhex rx with
    | some (.ok cfg), some to, some fl, some rx =>
      match Scpi.readBinary cfg { rx } fl to with
      | (t, .ok d) => s!"ok {Drv.hex d} log={showLog t.log} rx={Drv.hex t.rx}"
      | (t, .error e) => s!"{scpiExc e} log={showLog t.log} rx={Drv.hex t.rx}"
    | some (.error e), some _, some _, some _ => scpiExc e
    | _, _, _, _ => "bad-op"
  | ["s.block", rt, d] =>      -- the model's own device encoder (IEEE 488.2 definite length block + terminator)
    match Drv.unhex rt, Drv.unhex d with
    | some rt, some d => Drv.hex (Scpi.encodeBlock rt d)
    | _, _ => "bad-op"
  | _ => "bad-op"

/-! #### USBTMC -/

def usbExc : Usbtmc.PyExc → String
  | .structError => "exc:struct.error"
  | .usbTimeout => "exc:USBError:110"
  | .usbError => "exc:USBError:5"
  | .hang => "hang"
  | .usbtmcMismatch => "exc:UsbtmcException"
  | .indexError => "exc:IndexError"
  | .valueError => "exc:ValueError"

def termChar? (s : String) : Option (Option UInt8) :=
  if s == "-" then some none
  else match s.toNat? with
    | some n => if n < 256 then some (some (UInt8.ofNat n)) else none
    | none => none

def fault? (s : String) : Option (Option (Nat × Bool)) :=
  if s == "-" then some none
  else match s.splitOn ":" with
    | [k, "t"] => k.toNat?.map (fun k => some (k, true))
    | [k, "e"] => k.toNat?.map (fun k => some (k, false))
    | _ => none

def ev? (s : String) : Option Usbtmc.Ev :=
  if s == "!" then some .ioErr else if s == "~" then some .timeout else (item s).map .data

def script? (s : String) : Option (List Usbtmc.Ev) :=
  if s == "-" then some [] else (s.splitOn ",").mapM ev?

def flags2 (a b : String) : Option (Bool × Bool) :=
  match bool01 a, bool01 b with
  | some x, some y => some (x, y)
  | _, _ => none

def showCtrl (l : List (Nat × Nat)) : String :=
  if l.isEmpty then "-" else ",".intercalate (l.map (fun (a, b) => s!"{a}:{b}"))

def showW (x : Usbtmc.WOut × Usbtmc.AbortLog × List Nat) : String :=
  let (r, a, _) := x
  let head := match r.exc with | none => "ok" | some e => usbExc e
  s!"{head} tag={r.last} abort={showOptNat r.abortTag} ctrl={showCtrl a.ctrl} clr={if a.clearHalt then 1 else 0} sent={showItems r.sent}"

def showR (x : Usbtmc.ROut × Usbtmc.AbortLog × List Nat) : String :=
  let (r, a, _) := x
  let head := match r.res with | .ok d => s!"ok {Drv.hex d}" | .error e => usbExc e
  s!"{head} tag={r.rs.last} abort={showOptNat r.abortTag} ctrl={showCtrl a.ctrl} ard={showOptNat a.bulkRead} reqs={showItems r.rs.reqs} sizes={showNats r.rs.sizes} left={r.left.length}"

def usbLine : List String → String
  | ["u.consts"] =>
    s!"hdr={Usbtmc.HEADER_SIZE} out={Usbtmc.MSGID_DEV_DEP_MSG_OUT} in={Usbtmc.MSGID_REQUEST_DEV_DEP_MSG_IN}"
  | ["u.hdr", last, msgid] =>
    match last.toNat?, msgid.toNat? with
    | some l, some m =>
      if m < 256 then s!"ok tag={Usbtmc.nextTag l} {Drv.hex (Usbtmc.bulkOutHeader m (Usbtmc.nextTag l))}" else "bad-op"
    | _, _ => "bad-op"
  | ["u.packout", last, size, eom] =>
    match last.toNat?, size.toNat?, bool01 eom with
    | some l, some n, some e =>
      match Usbtmc.packOut l n e with
      | (t, .ok h) => s!"ok tag={t} {Drv.hex h}"
      | (t, .error x) => s!"{usbExc x} tag={t}"
    | _, _, _ => "bad-op"
  | ["u.packin", last, size, tc] =>
    match last.toNat?, size.toNat?, termChar? tc with
    | some l, some n, some c =>
      match Usbtmc.packIn l n c with
      | (t, .ok h) => s!"ok tag={t} {Drv.hex h}"
      | (t, .error x) => s!"{usbExc x} tag={t}"
    | _, _, _ => "bad-op"
  | ["u.unpack", resp] =>
    match Drv.unhex resp with
    | some r =>
      match Usbtmc.unpackResp r with
      | some (m, t, ti, ts, a, d) => s!"ok {m.toNat} {t.toNat} {ti.toNat} {ts} {a.toNat} {Drv.hex d}"
      | none => "exc:struct.error"
    | none => "bad-op"
  | ["u.write", last, mts, fault, ctrl, data] =>
    match last.toNat?, mts.toNat?, fault? fault, natList ctrl, Drv.unhex data with
    | some l, some m, some f, some cs, some d => showW (Usbtmc.writeRawA m f l d cs)
    | _, _, _, _, _ => "bad-op"
  | ["u.read", last, mts, tc, rigol, adv, ieee, chk, num, ctrl, script] =>
    match last.toNat?, mts.toNat?, termChar? tc, bool01 rigol, bool01 adv, flags2 ieee chk, int? num, natList ctrl, script? script with
    | some l, some m, some c, some rg, some ad, some (ie, ck), some n, some cs, some sc =>
      showR (Usbtmc.readRawA { mts := m, termChar := c, rigol := rg, advantest := ad, rigolIeee := ie, checkHdr := ck } l n sc cs)
    | _, _, _, _, _, _, _, _, _ => "bad-op"
  | ["u.ask", last, mts, tc, rigol, adv, ieee, chk, num, fault, ctrl, data, script] =>
    match last.toNat?, mts.toNat?, termChar? tc, bool01 rigol, bool01 adv, flags2 ieee chk, int? num, fault? fault,
          natList ctrl, Drv.unhex data, script? script with
    | some l, some m, some c, some rg, some ad, some (ie, ck), some n, some f, some cs, some d, some sc =>
      match Usbtmc.askRaw { mts := m, termChar := c, rigol := rg, advantest := ad, rigolIeee := ie, checkHdr := ck } l d n f sc cs with
      | ((w, wa), none) => s!"{showW (w, wa, [])} | -"
      | ((w, wa), some (r, ra)) => s!"{showW (w, wa, [])} | {showR (r, ra, [])}"
    | _, _, _, _, _, _, _, _, _, _, _ => "bad-op"
  | ["u.stb", lastRstb, b0, b1, b2, intr] =>
    match lastRstb.toNat?, b0.toNat?, b1.toNat?, b2.toNat?, natList intr with
    | some l, some x0, some x1, some x2, some il =>
      let io : Option (Option (Nat × Nat)) := match il with | [] => some none | [a, b] => some (some (a, b)) | _ => none
      match io with
      | some i =>
        let r := Usbtmc.readStb l x0 x1 x2 i
        let head := match r.res with | .ok v => s!"ok {v}" | .error e => usbExc e
        s!"{head} rstb={r.lastRstb} wvalue={r.wValue} intr={if r.readIntr then 1 else 0}"
      | none => "bad-op"
    | _, _, _, _, _ => "bad-op"
  | ["u.clear", force, ctrl] =>
    match bool01 force, natList ctrl with
    | some f, some cs =>
      let r := Usbtmc.clearSeq f cs
      let head := match r.exc with | none => "ok" | some e => usbExc e
      s!"{head} ctrl={showCtrl r.ctrl} out={if r.clearedOut then 1 else 0} in={if r.clearedIn then 1 else 0}"
    | _, _ => "bad-op"
  | ["u.trig", sup, mts, last] =>
    match bool01 sup, mts.toNat?, last.toNat? with
    | some sp, some m, some l =>
      let r := Usbtmc.trigger sp m l
      let head := match r.exc with | none => "ok" | some e => usbExc e
      s!"{head} tag={r.last} sent={showItems r.sent}"
    | _, _, _ => "bad-op"
  | ["u.host", chk, last, script] =>           -- the host-side reference of the model (USBTMC 1.0 §3.3)
    match bool01 chk, last.toNat?, script? script with
    | some ck, some l, some sc =>
      match Usbtmc.hostSpec ck l sc [] with
      | some d => s!"ok {Drv.hex d}"
      | none => "error"
    | _, _, _ => "bad-op"
  | ["u.dev", prev, transfers] =>      -- the reference device decoder of the model (USBTMC 1.0 §3.2)
    match optNat prev, itemList transfers with
    | some p, some ts =>
      match Usbtmc.Dev.run { prev := p } ts with
      | some d => s!"ok prev={showOptNat d.prev} acc={Drv.hex d.acc} msgs={showItems d.msgs}"
      | none => "reject"
    | _, _ => "bad-op"
  | _ => "bad-op"

def stepLine (_ : Unit) (line : String) : Unit × String :=
  let toks := line.splitOn " "
  match toks with
  | op :: _ =>
    if op.startsWith "s." then ((), scpiLine toks)
    else if op.startsWith "u." then ((), usbLine toks)
    else ((), "bad-op")
  | [] => ((), "bad-op")

end Drv.C15

def main : IO Unit := Drv.main' Drv.C15.stepLine ()
