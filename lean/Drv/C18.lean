import QmiModel.Model.Discovery
import Drv.Common
/-!
Line-protocol driver for the discovery model (C18).  Strings travel as the hex of their UTF-8 encoding.

  glob <pat> <name>                         → true | false
  u8 <hex>                                  → ok <cp,cp,…> | exc:UnicodeDecodeError
  unpack <hex>                              → ok <kind> <field> … | exc:QMI_RuntimeException | exc:ValueError
  packreq <id> <ts> <wgf> <cnf>             → <hex> | exc:ValueError
  ctx <name> <workgroup> <pid> <port>       → ok            (new responder state)
  dg <addr> <data> <rid> <now>              → discarded-bad | exc:<T> | nomatch | sent <addr> <hex> | kill | discarded-type | dead
  mkctx <name> <workgroup>                  → ok | exc:QMI_UsageException      (QMI_Context.__init__)
  sentcount                                 → number of datagrams sent by the responder so far
  pingloop <reqid> <deadline> <turn>,…      → ok <addr>,…          turn = <t>:- | <t>:<addr>:<hex>   (ping_qmi_contexts with its clock)
  disct <self> <reqid> <t0> <timeout> <turn>,… → as disc                                            (discover_peer_contexts with its clock)
  disc <self> <reqid> <addr>:<hex>,…        → ok <name>@<addr>:<port>;… | exc:UnicodeDecodeError
-/
open QmiModel.Discovery

def L := genLayout

def str? (h : String) : Option (List Char) :=
  match Drv.unhex h with
  | some bs => utf8Decode bs
  | none => none

def excName : PyExc → String
  | .qmiRuntime => "exc:QMI_RuntimeException"
  | .valueError => "exc:ValueError"
  | .unicodeDecodeError => "exc:UnicodeDecodeError"

def kindName : Kind → String
  | .infoReq => "info-request"
  | .kill => "kill-request"
  | .infoResp => "info-response"

def parseDgrams (s : String) : Option (List (Nat × Bytes)) :=
  if s == "-" then some [] else
  (s.splitOn ",").foldr (fun item acc =>
    match acc, item.splitOn ":" with
    | some l, [a, h] =>
      match a.toNat?, Drv.unhex h with
      | some addr, some bs => some ((addr, bs) :: l)
      | _, _ => none
    | _, _ => none) (some [])

def parseTurns (s : String) : Option (List Turn) :=
  if s == "-" then some [] else
  (s.splitOn ",").foldr (fun item acc =>
    match acc, item.splitOn ":" with
    | some l, [t, "-"] =>
      match t.toNat? with
      | some t => some ({ t := t, ready := none } :: l)
      | none => none
    | some l, [t, a, h] =>
      match t.toNat?, a.toNat?, Drv.unhex h with
      | some t, some addr, some bs => some ({ t := t, ready := some (addr, bs) } :: l)
      | _, _, _ => none
    | _, _ => none) (some [])

def showPeer (p : Peer) : String :=
  s!"{Drv.hex (utf8Encode p.name)}@{p.addr}:{p.port}"

def stepLine (s : RState) (line : String) : RState × String :=
  match line.splitOn " " with
  | ["glob", p, n] =>
    match str? p, str? n with
    | some pat, some name => (s, toString (globMatch pat name))
    | _, _ => (s, "bad-op")
  | ["u8", h] =>
    match Drv.unhex h with
    | some bs =>
      match utf8Decode bs with
      | some cs => (s, "ok " ++ ",".intercalate (cs.map (fun c => toString c.toNat)))
      | none => (s, "exc:UnicodeDecodeError")
    | none => (s, "bad-op")
  | ["unpack", h] =>
    match Drv.unhex h with
    | some bs =>
      match unpack L bs with
      | .ok p => (s, s!"ok {kindName p.kind} " ++ " ".intercalate (p.fields.map Drv.hex))
      | .error e => (s, excName e)
    | none => (s, "bad-op")
  | ["packreq", id, ts, w, c] =>
    match id.toNat?, Drv.unhex ts, Drv.unhex w, Drv.unhex c with
    | some id, some ts, some w, some c =>
      match packRequest L id ts w c with
      | some bs => (s, Drv.hex bs)
      | none => (s, "exc:ValueError")
    | _, _, _, _ => (s, "bad-op")
  | ["ctx", n, w, pid, port] =>
    match str? n, str? w, pid.toInt?, port.toInt? with
    | some n, some w, some pid, some port =>
      ({ ctx := { name := n, workgroup := w, pid := pid, port := port }, alive := true, sent := [] }, "ok")
    | _, _, _, _ => (s, "bad-op")
  | ["dg", a, h, rid, now] =>
    match a.toNat?, Drv.unhex h, rid.toNat?, Drv.unhex now with
    | some a, some bs, some rid, some now =>
      let d : Dgram := { addr := a, data := bs, rid := rid, now := now }
      if !s.alive then (s, "dead") else
      let out := match handleRead L s.ctx d with
        | .discardedBad => "discarded-bad"
        | .escaped e => excName e
        | .noMatch => "nomatch"
        | .sent a bs => s!"sent {a} {Drv.hex bs}"
        | .kill => "kill"
        | .discardedType => "discarded-type"
      (step L s d, out)
    | _, _, _, _ => (s, "bad-op")
  | ["mkctx", n, w] =>
    match str? n, str? w with
    | some n, some w => (s, if admitContext L n w then "ok" else "exc:QMI_UsageException")
    | _, _ => (s, "bad-op")
  | ["nopkt"] => (s, if s.alive then "no-packet" else "dead")      -- `BlockingIOError` branch of `_handle_read`
  | ["sentcount"] => (s, toString s.sent.length)
  | ["disc", self, rid, ds] =>
    match str? self, rid.toNat?, parseDgrams ds with
    | some self, some rid, some ds =>
      match discover L self rid ds with
      | .ok peers => (s, "ok " ++ ";".intercalate (peers.map showPeer))
      | .error e => (s, excName e)
    | _, _, _ => (s, "bad-op")
  | ["pingloop", rid, dl, ts] =>
    match rid.toNat?, dl.toNat?, parseTurns ts with
    | some rid, some dl, some ts =>
      (s, "ok " ++ ",".intercalate ((pingLoop L rid dl ts).map (fun r => toString r.1)))
    | _, _, _ => (s, "bad-op")
  | ["disct", self, rid, t0, tmo, ts] =>
    match str? self, rid.toNat?, t0.toNat?, tmo.toNat?, parseTurns ts with
    | some self, some rid, some t0, some tmo, some ts =>
      match discoverTimed L self rid t0 tmo ts with
      | .ok peers => (s, "ok " ++ ";".intercalate (peers.map showPeer))
      | .error e => (s, excName e)
    | _, _, _, _, _ => (s, "bad-op")
  | _ => (s, "bad-op")

def main : IO Unit :=
  Drv.main' stepLine { ctx := { name := [], workgroup := [], pid := 0, port := 0 }, alive := true, sent := [] }
