import QmiModel.Model.Context
import QmiModel.Model.ContextCalls
import Drv.Common
/-! Line-protocol driver for the context-lifecycle model (property C12).

One output line per input line: `<outcome> | <abstract state>`.

```
new <cfgTcp>                                   fresh QMI_Context (layer A)
make <rpc|instr|task> <name> <valid> <ctorF> <relF> <loop|raise|finish>
remove <n> | removeForeign | get <n> | call <n> | iopen <n> | iclose <n> | tstart <n> | tjoin <n>
addh <ok|exc|base> | start <tcpF> <udpF> | stop | probe
qnew | qstart <validName> <cfgTcp> <tcpF> <udpF> <peers: string of 0/1 or -> <logF> | qstop | qcontext | q <layer-A op> | qprobe <cfgTcp>
conc <rpc|instr|task> <name> <ctorF> <relF> <runB>     all outcomes of stop ‖ make from the current layer-A state
```
-/
open QmiModel.Context

namespace C12Drv

def kindS : Kind → String | .rpc => "rpc" | .instr => "instr" | .task => "task"
def tsS : TaskSt → String | .ready => "ready" | .running => "running" | .ended => "ended" | .joined => "joined"

def excS : Exc → String
  | .usage => "QMI_UsageException" | .duplicate => "QMI_DuplicateNameException"
  | .unknownName => "QMI_UnknownNameException" | .invalidOp => "QMI_InvalidOperationException"
  | .delivery => "QMI_MessageDeliveryException" | .value => "ValueError" | .taskInit => "QMI_TaskInitException"
  | .taskRun => "QMI_TaskRunException" | .unknownRpc => "QMI_UnknownRpcException" | .os => "OSError"
  | .connRefused => "ConnectionRefusedError" | .assertion => "AssertionError"
  | .noActive => "QMI_NoActiveContextException" | .boom => "Boom" | .base => "BaseBoom" | .logging => "LoggingInitError"

def outS : Out → String | .ok => "ok" | .exc e => "exc:" ++ excS e | .hang => "hang"

def b01 (b : Bool) : String := if b then "1" else "0"
def join (l : List String) : String := if l.isEmpty then "-" else ",".intercalate l

def objS (o : Obj) : String :=
  match o.kind with
  | .rpc => s!"{o.id}:rpc"
  | .instr => s!"{o.id}:instr:{if o.isOpen then "open" else "closed"}"
  | .task => s!"{o.id}:task:{tsS o.ts}"

def connS : Conn → String | .tcp => "tcp" | .udp => "udp" | .peer i => s!"p{i}"

def evS : Ev → String
  | .reg n i => s!"reg:{n}:{i}" | .unreg n i => s!"unreg:{n}:{i}" | .rel i => s!"rel:{i}" | .join i => s!"join:{i}"
  | .handler i => s!"h:{i}"
  | .warn i => s!"warn:{i}" | .tstop i => s!"tstop:{i}" | .relExc i => s!"relexc:{i}"

def resS (r : Residue) : String :=
  let mp := join (r.objMap.map (fun e => s!"{e.1}:" ++ (match e.2 with | some i => toString i | none => "-")))
  let h := join (r.handlers.map (fun e => s!"{e.1}:{e.2}"))
  let m := join (r.mgrs.map objS)
  let cn := join (r.conns.map connS)
  s!"r={b01 r.routerUp} map={mp} h={h} m={m} conn={cn}"

def obs (c : Ctx) : String :=
  let (tr, tp, tt) := c.threads
  s!"a={b01 c.active} u={b01 c.used} t={b01 c.tcpSet} {resS c.residue} thr={tr},{tp},{tt} " ++
  s!"rel={join (c.released.map toString)} lo={join (c.leftOpen.map toString)} hc={join (c.hcalls.map toString)} ev={join (c.log.map evS)}"

def pobs (p : Proc) : String :=
  let lk := (p.dropped.map Ctx.threadCount).foldl (· + ·) 0
  let l := if lk == 0 then "" else s!" leaked={lk}"
  match p.single with
  | none => "single=none" ++ l
  | some c => "single=set " ++ obs c ++ l

structure W where
  c : Ctx := Ctx.init false
  p : Proc := Proc.init
  m : Mgr.MState := Mgr.MState.init

def parseMAct (ws : List String) : Option Mgr.MAct :=
  match ws with
  | ["deliver", r] => do some (.deliver (← r.toNat?))
  | ["stopflag"] => some .stopFlag
  | ["shutdown"] => some .shutdown
  | ["see"] => some .see
  | ["exec", r] => do some (.exec (← r.toNat?))
  | ["reject", r] => do some (.reject (← r.toNat?))
  | ["exit"] => some .exit
  | _ => none

def pBool (s : String) : Option Bool := if s == "1" then some true else if s == "0" then some false else none
def pKind (s : String) : Option Kind :=
  if s == "rpc" then some .rpc else if s == "instr" then some .instr else if s == "task" then some .task else none
def pRun (s : String) : Option RunB :=
  if s == "loop" then some .loop else if s == "raise" then some .raise else if s == "finish" then some .finish else none
def pHF (s : String) : Option HF :=
  if s == "ok" then some .ok else if s == "exc" then some .exc else if s == "base" then some .base else none
def pPeers (s : String) : Option (List Bool) :=
  if s == "-" then some [] else s.toList.mapM (fun ch => if ch == '1' then some true else if ch == '0' then some false else none)

def parseOp (ws : List String) : Option Op :=
  match ws with
  | ["make", k, n, v, cf, rf, rb] => do
    some (.make (← pKind k) (← n.toNat?) (← pBool v) (← pBool cf) (← pBool rf) (← pRun rb))
  | ["remove", n] => do some (.remove (← n.toNat?))
  | ["removeForeign"] => some .removeForeign
  | ["get", n] => do some (.get (← n.toNat?))
  | ["call", n] => do some (.call (← n.toNat?))
  | ["iopen", n] => do some (.iopen (← n.toNat?))
  | ["iclose", n] => do some (.iclose (← n.toNat?))
  | ["tstart", n] => do some (.tstart (← n.toNat?))
  | ["tjoin", n] => do some (.tjoin (← n.toNat?))
  | ["addh", f] => do some (.addH (← pHF f))
  | ["start", t, u] => do some (.start (← pBool t) (← pBool u))
  | ["stop"] => some .stop
  | _ => none

def outcomeS (o : COutcome) : String :=
  let f : Option Out → String := fun x => match x with | some r => outS r | none => "unfinished"
  s!"mk={f o.make} st={f o.stop} a={b01 o.active} {resS o.res} rel={join (o.released.map toString)}"

def insertSorted (s : String) : List String → List String
  | [] => [s]
  | x :: xs => if s == x then x :: xs else if s < x then s :: x :: xs else x :: insertSorted s xs

/-- all outcomes of `stop ‖ make`: depth-first over every interleaving of the two step functions -/
def explore (a : MakeArgs) : Nat → CState → List String → List String
  | 0, st, acc => insertSorted (outcomeS st.outcome) acc
  | fuel + 1, st, acc =>
    if st.m.isDone && st.s.isDone then insertSorted (outcomeS st.outcome) acc
    else
      let acc := if st.m.isDone then acc else explore a fuel (cstep a st true) acc
      if st.s.isDone then acc else explore a fuel (cstep a st false) acc

def concOutcomes (c : Ctx) (a : MakeArgs) : List String :=
  explore a (5 + 2 + 2 * (c.objMap.length + 1)) (cinit c) []

def outcome2S (st : C2State) : String :=
  let f : MPc → String := fun x => match mResult x with | some r => outS r | none => "unfinished"
  s!"mk1={f st.m1} mk2={f st.m2} {resS st.c.residue} rel={join (st.c.released.map toString)}"

def explore2 (a1 a2 : MakeArgs) : Nat → C2State → List String → List String
  | 0, st, acc => insertSorted (outcome2S st) acc
  | fuel + 1, st, acc =>
    if st.m1.isDone && st.m2.isDone then insertSorted (outcome2S st) acc
    else
      let acc := if st.m1.isDone then acc else explore2 a1 a2 fuel (c2step a1 a2 st true) acc
      if st.m2.isDone then acc else explore2 a1 a2 fuel (c2step a1 a2 st false) acc

def stepLine (w : W) (line : String) : W × String :=
  let ws := line.splitOn " "
  match ws with
  | ["new", t] =>
    match pBool t with
    | some t => let c := Ctx.init t; ({ w with c }, "ok | " ++ obs c)
    | none => (w, "bad-op")
  | ["probe"] => (w, outS (freshStart w.c))
  | ["mnew"] => ({ w with m := Mgr.MState.init }, "ok")
  | ["mend"] =>
    (w, s!"exited={b01 w.m.exited} fifo={w.m.fifo.length} unanswered={w.m.delivered.length - w.m.fifo.length - w.m.answered.length}")
  | "m" :: rest =>
    match parseMAct rest with
    | none => (w, "bad-op")
    | some a =>
      match Mgr.mstep w.m a with
      | none => (w, "bad-step")
      | some m' =>
        let o := match a with
          | .deliver _ => if w.m.running then "pushed" else "refused"
          | _ => "ok"
        ({ w with m := m' }, o)
  | ["qnew"] => ({ w with p := Proc.init }, "ok | " ++ pobs Proc.init)
  | ["qstart", v, t, tf, uf, peers, lf] =>
    match pBool v, pBool t, pBool tf, pBool uf, pPeers peers, pBool lf with
    | some v, some t, some tf, some uf, some peers, some lf =>
      let (p, o) := qstart w.p.clr v t tf uf peers lf
      ({ w with p }, outS o ++ " | " ++ pobs p)
    | _, _, _, _, _, _ => (w, "bad-op")
  | ["qstop"] => let (p, o) := qstop w.p.clr; ({ w with p }, outS o ++ " | " ++ pobs p)
  | ["qcontext"] => let (p, o) := pstep w.p .qcontext; ({ w with p }, outS o ++ " | " ++ pobs p)
  | ["qprobe", t] =>
    match pBool t with
    | some t =>
      let (p1, o) := qstart w.p.clr true t false false [] false
      match o with
      | .ok => let (p2, o2) := qstop p1; ({ w with p := p2 }, outS o2 ++ " | " ++ pobs p2)
      | _ => ({ w with p := p1 }, outS o ++ " | " ++ pobs p1)
    | none => (w, "bad-op")
  | "q" :: rest =>
    match parseOp rest with
    | some op => let (p, o) := pstep w.p (.op op); ({ w with p }, outS o ++ " | " ++ pobs p)
    | none => (w, "bad-op")
  | ["conc", k, n, cf, rf, rb] =>
    match pKind k, n.toNat?, pBool cf, pBool rf, pRun rb with
    | some k, some n, some cf, some rf, some rb =>
      (w, " ; ".intercalate (concOutcomes w.c { k, n, ctorF := cf, relF := rf, runB := rb }))
    | _, _, _, _, _ => (w, "bad-op")
  | ["conc2", k1, n1, cf1, rf1, rb1, k2, n2, cf2, rf2, rb2] =>
    match pKind k1, n1.toNat?, pBool cf1, pBool rf1, pRun rb1, pKind k2, n2.toNat?, pBool cf2, pBool rf2, pRun rb2 with
    | some k1, some n1, some cf1, some rf1, some rb1, some k2, some n2, some cf2, some rf2, some rb2 =>
      (w, " ; ".intercalate (explore2 { k := k1, n := n1, ctorF := cf1, relF := rf1, runB := rb1 }
                                      { k := k2, n := n2, ctorF := cf2, relF := rf2, runB := rb2 } 10 (c2init w.c) []))
    | _, _, _, _, _, _, _, _, _, _ => (w, "bad-op")
  | _ =>
    match parseOp ws with
    | some op => let (c, o) := step w.c op; ({ w with c }, outS o ++ " | " ++ obs c)
    | none => (w, "bad-op")

end C12Drv

def main : IO Unit := Drv.main' C12Drv.stepLine {}
