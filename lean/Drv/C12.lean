import QmiModel.Model.Context
import Drv.Common
/-! Line-protocol driver for the context-lifecycle model (property C12).

One output line per input line: `<outcome> | <abstract state>`.

```
new <cfgTcp>                                   fresh QMI_Context (layer A)
make <rpc|instr|task> <name> <valid> <ctorF> <relF> <loop|raise|finish>
remove <n> | removeForeign | get <n> | call <n> | iopen <n> | iclose <n> | tstart <n> | tjoin <n>
addh <ok|exc|base> | start <tcpF> <udpF> | stop | probe
qnew | qstart <validName> <cfgTcp> <tcpF> <udpF> <peers: string of 0/1 or -> | qstop | qcontext | q <layer-A op> | qprobe <cfgTcp>
conc <rpc|instr|task> <name> <ctorF> <relF> <runB>     all outcomes of stop ‖ make from the current layer-A state
```
-/
open QmiModel.Context

namespace C12Drv

def kindS : Kind → String | .rpc => "rpc" | .instr => "instr" | .task => "task"
def tsS : TaskSt → String | .ready => "ready" | .running => "running" | .ended => "ended" | .joined => "joined"

def excS : Exc → String
  | .usage => "QMI_UsageException" | .duplicate => "QMI_DuplicateNameException"
  | .unknownName => "QMI_UnknownNameException" | .invalidOp => "QMI_InvalidOperationException"
  | .delivery => "QMI_MessageDeliveryException" | .value => "ValueError" | .taskInit => "QMI_TaskInitException"
  | .taskRun => "QMI_TaskRunException" | .unknownRpc => "QMI_UnknownRpcException" | .os => "OSError"
  | .connRefused => "ConnectionRefusedError" | .assertion => "AssertionError"
  | .noActive => "QMI_NoActiveContextException" | .boom => "Boom" | .base => "BaseBoom"

def outS : Out → String | .ok => "ok" | .exc e => "exc:" ++ excS e | .hang => "hang"

def b01 (b : Bool) : String := if b then "1" else "0"
def join (l : List String) : String := if l.isEmpty then "-" else ",".intercalate l

def objS (o : Obj) : String :=
  match o.kind with
  | .rpc => s!"{o.id}:rpc"
  | .instr => s!"{o.id}:instr:{if o.isOpen then "open" else "closed"}"
  | .task => s!"{o.id}:task:{tsS o.ts}"

def connS : Conn → String | .tcp => "tcp" | .udp => "udp" | .peer i => s!"p{i}"

def evS : Ev → String
  | .reg n i => s!"reg:{n}:{i}" | .unreg n i => s!"unreg:{n}:{i}" | .rel i => s!"rel:{i}" | .join i => s!"join:{i}"
  | .handler i => s!"h:{i}"

def resS (r : Residue) : String :=
  let mp := join (r.objMap.map (fun e => s!"{e.1}:" ++ (match e.2 with | some i => toString i | none => "-")))
  let h := join (r.handlers.map (fun e => s!"{e.1}:{e.2}"))
  let m := join (r.mgrs.map objS)
  let cn := join (r.conns.map connS)
  s!"r={b01 r.routerUp} map={mp} h={h} m={m} conn={cn}"

def obs (c : Ctx) : String :=
  let (tr, tp, tt) := c.threads
  s!"a={b01 c.active} u={b01 c.used} t={b01 c.tcpSet} {resS c.residue} thr={tr},{tp},{tt} " ++
  s!"rel={join (c.released.map toString)} hc={join (c.hcalls.map toString)} ev={join (c.log.map evS)}"

def pobs (p : Proc) : String :=
  let lk := (p.dropped.map Ctx.threadCount).foldl (· + ·) 0
  let l := if lk == 0 then "" else s!" leaked={lk}"
  match p.single with
  | none => "single=none" ++ l
  | some c => "single=set " ++ obs c ++ l

structure W where
  c : Ctx := Ctx.init false
  p : Proc := Proc.init

def pBool (s : String) : Option Bool := if s == "1" then some true else if s == "0" then some false else none
def pKind (s : String) : Option Kind :=
  if s == "rpc" then some .rpc else if s == "instr" then some .instr else if s == "task" then some .task else none
def pRun (s : String) : Option RunB :=
  if s == "loop" then some .loop else if s == "raise" then some .raise else if s == "finish" then some .finish else none
def pHF (s : String) : Option HF :=
  if s == "ok" then some .ok else if s == "exc" then some .exc else if s == "base" then some .base else none
def pPeers (s : String) : Option (List Bool) :=
  if s == "-" then some [] else s.toList.mapM (fun ch => if ch == '1' then some true else if ch == '0' then some false else none)

def parseOp (ws : List String) : Option Op :=
  match ws with
  | ["make", k, n, v, cf, rf, rb] => do
    some (.make (← pKind k) (← n.toNat?) (← pBool v) (← pBool cf) (← pBool rf) (← pRun rb))
  | ["remove", n] => do some (.remove (← n.toNat?))
  | ["removeForeign"] => some .removeForeign
  | ["get", n] => do some (.get (← n.toNat?))
  | ["call", n] => do some (.call (← n.toNat?))
  | ["iopen", n] => do some (.iopen (← n.toNat?))
  | ["iclose", n] => do some (.iclose (← n.toNat?))
  | ["tstart", n] => do some (.tstart (← n.toNat?))
  | ["tjoin", n] => do some (.tjoin (← n.toNat?))
  | ["addh", f] => do some (.addH (← pHF f))
  | ["start", t, u] => do some (.start (← pBool t) (← pBool u))
  | ["stop"] => some .stop
  | _ => none

def outcomeS (o : COutcome) : String :=
  let f : Option Out → String := fun x => match x with | some r => outS r | none => "unfinished"
  s!"mk={f o.make} st={f o.stop} a={b01 o.active} {resS o.res} rel={join (o.released.map toString)}"

def insertSorted (s : String) : List String → List String
  | [] => [s]
  | x :: xs => if s == x then x :: xs else if s < x then s :: x :: xs else x :: insertSorted s xs

/-- all outcomes of `stop ‖ make`: depth-first over every interleaving of the two step functions -/
def explore (a : MakeArgs) : Nat → CState → List String → List String
  | 0, st, acc => insertSorted (outcomeS st.outcome) acc
  | fuel + 1, st, acc =>
    if st.m.isDone && st.s.isDone then insertSorted (outcomeS st.outcome) acc
    else
      let acc := if st.m.isDone then acc else explore a fuel (cstep a st true) acc
      if st.s.isDone then acc else explore a fuel (cstep a st false) acc

def concOutcomes (c : Ctx) (a : MakeArgs) : List String :=
  explore a (5 + 2 + 2 * (c.objMap.length + 1)) (cinit c) []

def stepLine (w : W) (line : String) : W × String :=
  let ws := line.splitOn " "
  match ws with
  | ["new", t] =>
    match pBool t with
    | some t => let c := Ctx.init t; ({ w with c }, "ok | " ++ obs c)
    | none => (w, "bad-op")
  | ["probe"] => (w, outS (freshStart w.c))
  | ["qnew"] => ({ w with p := Proc.init }, "ok | " ++ pobs Proc.init)
  | ["qstart", v, t, tf, uf, peers] =>
    match pBool v, pBool t, pBool tf, pBool uf, pPeers peers with
    | some v, some t, some tf, some uf, some peers =>
      let (p, o) := qstart w.p.clr v t tf uf peers
      ({ w with p }, outS o ++ " | " ++ pobs p)
    | _, _, _, _, _ => (w, "bad-op")
  | ["qstop"] => let (p, o) := qstop w.p.clr; ({ w with p }, outS o ++ " | " ++ pobs p)
  | ["qcontext"] => let (p, o) := pstep w.p .qcontext; ({ w with p }, outS o ++ " | " ++ pobs p)
  | ["qprobe", t] =>
    match pBool t with
    | some t =>
      let (p1, o) := qstart w.p.clr true t false false []
      match o with
      | .ok => let (p2, o2) := qstop p1; ({ w with p := p2 }, outS o2 ++ " | " ++ pobs p2)
      | _ => ({ w with p := p1 }, outS o ++ " | " ++ pobs p1)
    | none => (w, "bad-op")
  | "q" :: rest =>
    match parseOp rest with
    | some op => let (p, o) := pstep w.p (.op op); ({ w with p }, outS o ++ " | " ++ pobs p)
    | none => (w, "bad-op")
  | ["conc", k, n, cf, rf, rb] =>
    match pKind k, n.toNat?, pBool cf, pBool rf, pRun rb with
    | some k, some n, some cf, some rf, some rb =>
      (w, " ; ".intercalate (concOutcomes w.c { k, n, ctorF := cf, relF := rf, runB := rb }))
    | _, _, _, _, _ => (w, "bad-op")
  | _ =>
    match parseOp ws with
    | some op => let (c, o) := step w.c op; ({ w with c }, outS o ++ " | " ++ obs c)
    | none => (w, "bad-op")

end C12Drv

def main : IO Unit := Drv.main' C12Drv.stepLine {}
