import QmiModel.Model.Task
import QmiModel.Model.LoopTask
import Drv.Common
/-! Trace-refinement driver for C10.

Input lines
  `init` / `init <n>`             reset to `Task.init` / `Task.initS (some n)` (settings the task gave itself) → `ok`
  `<act>|<res>|<abs>`             one logged event: the action must be enabled, the reported result must be
                                  `Task.res`, the reported abstraction of the real state must be the successor
                                  state                                      → `ok` / `disabled …` / `mismatch …`
  `blocked join <0|1>`            the scheduler reported "join waits for ever" (arg: task body parked until a
                                  stop request)                              → `ok` iff `join` is not enabled and no
                                  thread action is enabled either
  `end released`                  `remove_rpc_object` returned: runner removed, thread ended and joined, nothing half done → `ok`
  `linit <period> <immediate|skip|terminate>`   the task is a `QMI_LoopTask`: also follow `LoopTask.lstep`  → `ok`
  `L|<lact>|<next or ?>`          one logged event of `QMI_LoopTask.run`: enabled in the loop model, taken while the
                                  lifecycle model is inside `run()`; `testStop`/`wake` must agree with the stop flag
                                  of the lifecycle state; `next_time` (when reported) must agree
                                  `<lact>` = hook:<prepare|process|iteration|status|pubStatus|pubSignals|finalize>:<ret|stopExc|otherExc>
                                  clock:<n> testStop:<0|1> updDone:<0|1> statusDone:<0|1> wake:<0|1> selfStopDone
  (with a loop model present `runEnter` needs the loop at its start and `runEnd:<o>` needs it at `done o`)
`<act>` = initOk initFail wake runEnter updCheck updPop runEnd:<ret|stopExc|otherExc> mark threadEnd ctorWait ctorGet
          startCheck startKick stopRegion stopSet join isRunning set:<n> getSettings getPending
          updPub setStatus:<n> getStatus exitBegin releaseBegin extStopRegion extStopSet
          tregion   (a `with _state_cond:` region of `_TaskThread.run`; which one follows from the thread's pc)
-/
open QmiModel.Task
open QmiModel.LoopTask

def tsName : TS → String
  | .initial => "INITIAL" | .excInit => "EXCEPTION_WHILE_INSTANTIATING_TASK" | .ready => "READY_TO_RUN"
  | .running => "RUNNING" | .excRun => "EXCEPTION_WHILE_RUNNING_TASK" | .completed => "TASK_COMPLETED_NORMALLY"
  | .stopped => "TASK_STOPPED_BEFORE_START"

def b01 (b : Bool) : String := if b then "1" else "0"
def optS : Option Nat → String | none => "-" | some n => toString n
/-- a settings value as Python shows it: code 0 stands for `None`, which is also what "no value" looks like -/
def optV : Option Nat → String | none => "-" | some 0 => "-" | some n => toString n

def absOf (s : State) : String :=
  s!"{tsName s.st} {b01 s.exc} {b01 s.stopReq} {optS s.slot} {optV s.settings} {b01 s.joined} {optS s.status}"

def resName : Res → String
  | .none => "none" | .unit => "unit" | .pending => "pending"
  | .bool b => if b then "true" else "false"
  | .val v => "val:" ++ optV v
  | .usageError => "exc:QMI_UsageException" | .taskRunError => "exc:QMI_TaskRunException"
  | .taskInitError => "exc:QMI_TaskInitException" | .assertionError => "exc:AssertionError"
  | .indexError => "exc:IndexError"

def pcName : Pc → String
  | .init => "init" | .waiting => "waiting" | .goRun => "goRun" | .inRun => "inRun" | .inUpd => "inUpd"
  | .inPub => "inPub"
  | .ranOut .ret => "ranOut:ret" | .ranOut .stopExc => "ranOut:stopExc" | .ranOut .otherExc => "ranOut:otherExc"
  | .exiting => "exiting" | .ended => "ended"

def phaseName : Phase → String
  | .ctor0 => "ctor0" | .ctor1 => "ctor1" | .up => "up" | .failed => "failed" | .removed => "removed"
def compName : Comp → String | .plain => "plain" | .exit => "exit" | .release => "release"
def rpcName : Rpc → String
  | .idle => "idle" | .startMid => "startMid" | .compStop c => "compStop:" ++ compName c
  | .stopMid c => "stopMid:" ++ compName c | .compJoin c => "compJoin:" ++ compName c
  | .joinMid c => "joinMid:" ++ compName c

def ctlOf (s : State) : String := s!"pc={pcName s.pc} phase={phaseName s.phase} rpc={rpcName s.rpc}"

/-- parse an action token; `tregion` is resolved from the thread's pc and the reported thread state -/
def parseAct (s : State) (tok : String) (abs : String) : Option Act :=
  match tok.splitOn ":" with
  | ["initOk"] => some .initOk | ["initFail"] => some .initFail | ["wake"] => some .wake
  | ["runEnter"] => some .runEnter | ["updCheck"] => some .updCheck | ["updPop"] => some .updPop
  | ["updPub"] => some .updPub | ["setStatus", n] => n.toNat?.map .setStatus | ["getStatus"] => some .getStatus
  | ["exitBegin"] => some .exitBegin | ["releaseBegin"] => some .releaseBegin
  | ["extStopRegion"] => some .extStopRegion | ["extStopSet"] => some .extStopSet
  | ["runEnd", "ret"] => some (.runEnd .ret) | ["runEnd", "stopExc"] => some (.runEnd .stopExc)
  | ["runEnd", "otherExc"] => some (.runEnd .otherExc)
  | ["mark"] => some .mark | ["threadEnd"] => some .threadEnd
  | ["ctorWait"] => some .ctorWait | ["ctorGet"] => some .ctorGet
  | ["startCheck"] => some .startCheck | ["startKick"] => some .startKick
  | ["stopRegion"] => some .stopRegion | ["stopSet"] => some .stopSet
  | ["join"] => some .join | ["joinSet"] => some .joinSet | ["isRunning"] => some .isRunning
  | ["set", n] => n.toNat?.map .setSettings
  | ["getSettings"] => some .getSettings | ["getPending"] => some .getPending
  | ["tregion"] =>
    match s.pc with
    | .init => if abs.startsWith "EXCEPTION_WHILE_INSTANTIATING_TASK " then some .initFail else some .initOk
    | .waiting => some .wake
    | .ranOut _ => some .mark
    | _ => none
  | _ => none

def stepTask (s : State) (line : String) : State × String :=
  if line == "init" then (init, "ok") else
  match line.splitOn "|" with
  | [tok, r, abs] =>
    if tok == "tregion" && (match s.pc with | .init => false | .waiting => false | .ranOut _ => false | _ => true) then
      (s, s!"disabled tregion at {ctlOf s} {absOf s}")
    else
    match parseAct s tok abs with
    | none => (s, "bad-op")
    | some a =>
      match step s a with
      | none => (s, s!"disabled {tok} at {ctlOf s} {absOf s}")
      | some s' =>
        if resName (res s a) != r then (s', s!"mismatch res model={resName (res s a)} at {ctlOf s} {absOf s}")
        else if absOf s' != abs then (s', s!"mismatch state model={absOf s'} after {ctlOf s'}")
        else (s', "ok")
  | [single] =>
    match single.splitOn " " with
    | ["blocked", "join", bb] =>
      if bb != "0" && bb != "1" then (s, "bad-op") else
      let bodyBlocked := bb == "1"
      if s.joinCtx.isNone then (s, s!"mismatch runner-not-at-a-join {ctlOf s}")
      else if (step s .join).isSome then (s, s!"mismatch join-enabled {ctlOf s} {absOf s}")
      else if threadCanMove s then (s, s!"mismatch thread-can-move {ctlOf s} {absOf s}")
      else if s.pc == .inRun && !bodyBlocked then (s, s!"mismatch body-not-blocked {ctlOf s}")
      else (s, "ok")
    | _ => (s, "bad-op")
  | _ => (s, "bad-op")

def QmiModel.LoopTask.LPc.isDone : LPc → Bool | .done _ => true | _ => false

def lpcName : LPc → String
  | .start => "start" | .clock0 => "clock0" | .top => "top" | .upd => "upd" | .process => "process" | .iter => "iter"
  | .status => "status" | .pubStatus => "pubStatus" | .pubSignals => "pubSignals" | .timing => "timing"
  | .sleeping => "sleeping" | .immClock => "immClock" | .selfStop => "selfStop"
  | .finalize o => "finalize:" ++ pcName (.ranOut o) | .done o => "done:" ++ pcName (.ranOut o)

def parseOutcome : String → Option Outcome
  | "ret" => some .ret | "stopExc" => some .stopExc | "otherExc" => some .otherExc | _ => none

def parseHook : String → Option Hook
  | "prepare" => some .prepare | "process" => some .process | "iteration" => some .iteration | "status" => some .status
  | "pubStatus" => some .pubStatus | "pubSignals" => some .pubSignals | "finalize" => some .finalize | _ => none

def parseB : String → Option Bool | "0" => some false | "1" => some true | _ => none

def parseLAct (tok : String) : Option LAct :=
  match tok.splitOn ":" with
  | ["hook", h, r] => match parseHook h, parseOutcome r with | some h, some r => some (.hook h r) | _, _ => none
  | ["clock", n] => n.toNat?.map .clock
  | ["testStop", b] => (parseB b).map .testStop
  | ["updDone", b] => (parseB b).map .updDone
  | ["statusDone", b] => (parseB b).map .statusDone
  | ["wake", b] => (parseB b).map .wake
  | ["selfStopDone"] => some .selfStopDone
  | _ => none

structure DS where
  t : State
  l : Option LState

def stepLine (d : DS) (line : String) : DS × String :=
  match line.splitOn " " with
  | ["init", v] =>
    match v.toNat? with
    | some n => ({ t := initS (some n), l := none }, "ok")
    | none => (d, "bad-op")
  | ["linit", p, pol] =>
    match p.toNat?, pol with
    | some p, "immediate" => ({ d with l := some (linit p .immediate) }, "ok")
    | some p, "skip"      => ({ d with l := some (linit p .skip) }, "ok")
    | some p, "terminate" => ({ d with l := some (linit p .terminate) }, "ok")
    | _, _ => (d, "bad-op")
  | ["end", "released"] =>
    -- `context.remove_rpc_object` has returned: the runner must be gone, nothing may be half done
    if d.t.phase != .removed then (d, s!"mismatch not-removed {ctlOf d.t}")
    else if d.t.rpc != .idle || d.t.extMid != 0 then (d, s!"mismatch operation-in-progress {ctlOf d.t}")
    else if d.t.pc != .ended || !d.t.joined then (d, s!"mismatch thread-not-joined {ctlOf d.t} {absOf d.t}")
    else match d.l with
      | some l => if d.t.runs == 0 || l.lpc.isDone then (d, "ok") else (d, s!"mismatch loop-not-done lpc={lpcName l.lpc}")
      | none => (d, "ok")
  | _ =>
  match line.splitOn "|" with
  | ["L", tok, nx] =>
    match d.l, parseLAct tok with
    | none, _ => (d, "bad-op no-loop-model")
    | _, none => (d, "bad-op")
    | some l, some a =>
      if d.t.pc != .inRun then (d, s!"disabled {tok}: lifecycle not inside run() ({ctlOf d.t})") else
      let flagOk := match a with
        | .testStop b => b == d.t.stopReq
        | .wake b => b == d.t.stopReq
        | _ => true
      if !flagOk then (d, s!"mismatch stop-flag model={b01 d.t.stopReq} at lpc={lpcName l.lpc}") else
      match lstep l a with
      | none => (d, s!"disabled {tok} at lpc={lpcName l.lpc}")
      | some l' =>
        if nx != "?" && nx != toString l'.next then
          ({ d with l := some l' }, s!"mismatch next model={l'.next} after lpc={lpcName l'.lpc}")
        else ({ d with l := some l' }, "ok")
  | _ =>
    if line == "init" then ({ t := init, l := none }, "ok") else
    -- lifecycle event; with a loop model, entering / leaving run() must match the loop's state
    let gate : Option String :=
      match d.l with
      | none => none
      | some l =>
        if line.startsWith "runEnter|" then
          (if l.lpc == .start then none else some s!"mismatch loop-not-at-start lpc={lpcName l.lpc}")
        else if line.startsWith "runEnd:" then
          match (line.splitOn "|").head?.bind (fun h => (h.splitOn ":")[1]?.bind parseOutcome) with
          | some o => if l.lpc == .done o then none else some s!"mismatch loop-not-done lpc={lpcName l.lpc}"
          | none => some "bad-op"
        else if line.startsWith "updCheck|" then
          (if l.lpc == .upd then none else some s!"mismatch update_settings-outside-loop-position lpc={lpcName l.lpc}")
        else none
    match gate with
    | some msg => (d, msg)
    | none =>
      let (t', out) := stepTask d.t line
      ({ d with t := t' }, out)

def main : IO Unit := Drv.main' stepLine { t := init, l := none }
