import QmiModel.Model.Task
import Drv.Common
/-! Trace-refinement driver for C10.

Input lines
  `init`                          reset to `Task.init`                      → `ok`
  `<act>|<res>|<abs>`             one logged event: the action must be enabled, the reported result must be
                                  `Task.res`, the reported abstraction of the real state must be the successor
                                  state                                      → `ok` / `disabled …` / `mismatch …`
  `blocked join <0|1>`            the scheduler reported "join waits for ever" (arg: task body parked until a
                                  stop request)                              → `ok` iff `join` is not enabled and no
                                  thread action is enabled either
`<act>` = initOk initFail wake runEnter updCheck updPop runEnd:<ret|stopExc|otherExc> mark threadEnd ctorWait ctorGet
          startCheck startKick stopRegion stopSet join isRunning set:<n> getSettings getPending
          tregion   (a `with _state_cond:` region of `_TaskThread.run`; which one follows from the thread's pc)
-/
open QmiModel.Task

def tsName : TS → String
  | .initial => "INITIAL" | .excInit => "EXCEPTION_WHILE_INSTANTIATING_TASK" | .ready => "READY_TO_RUN"
  | .running => "RUNNING" | .excRun => "EXCEPTION_WHILE_RUNNING_TASK" | .completed => "TASK_COMPLETED_NORMALLY"
  | .stopped => "TASK_STOPPED_BEFORE_START"

def b01 (b : Bool) : String := if b then "1" else "0"
def optS : Option Nat → String | none => "-" | some n => toString n

def absOf (s : State) : String :=
  s!"{tsName s.st} {b01 s.exc} {b01 s.stopReq} {optS s.slot} {optS s.settings} {b01 s.joined}"

def resName : Res → String
  | .none => "none" | .unit => "unit" | .pending => "pending"
  | .bool b => if b then "true" else "false"
  | .val v => "val:" ++ optS v
  | .usageError => "exc:QMI_UsageException" | .taskRunError => "exc:QMI_TaskRunException"
  | .taskInitError => "exc:QMI_TaskInitException" | .assertionError => "exc:AssertionError"
  | .indexError => "exc:IndexError"

def pcName : Pc → String
  | .init => "init" | .waiting => "waiting" | .goRun => "goRun" | .inRun => "inRun" | .inUpd => "inUpd"
  | .ranOut .ret => "ranOut:ret" | .ranOut .stopExc => "ranOut:stopExc" | .ranOut .otherExc => "ranOut:otherExc"
  | .exiting => "exiting" | .ended => "ended"

def phaseName : Phase → String | .ctor0 => "ctor0" | .ctor1 => "ctor1" | .up => "up" | .failed => "failed"
def rpcName : Rpc → String | .idle => "idle" | .startMid => "startMid" | .stopMid => "stopMid"

def ctlOf (s : State) : String := s!"pc={pcName s.pc} phase={phaseName s.phase} rpc={rpcName s.rpc}"

/-- parse an action token; `tregion` is resolved from the thread's pc and the reported thread state -/
def parseAct (s : State) (tok : String) (abs : String) : Option Act :=
  match tok.splitOn ":" with
  | ["initOk"] => some .initOk | ["initFail"] => some .initFail | ["wake"] => some .wake
  | ["runEnter"] => some .runEnter | ["updCheck"] => some .updCheck | ["updPop"] => some .updPop
  | ["runEnd", "ret"] => some (.runEnd .ret) | ["runEnd", "stopExc"] => some (.runEnd .stopExc)
  | ["runEnd", "otherExc"] => some (.runEnd .otherExc)
  | ["mark"] => some .mark | ["threadEnd"] => some .threadEnd
  | ["ctorWait"] => some .ctorWait | ["ctorGet"] => some .ctorGet
  | ["startCheck"] => some .startCheck | ["startKick"] => some .startKick
  | ["stopRegion"] => some .stopRegion | ["stopSet"] => some .stopSet
  | ["join"] => some .join | ["isRunning"] => some .isRunning
  | ["set", n] => n.toNat?.map .setSettings
  | ["getSettings"] => some .getSettings | ["getPending"] => some .getPending
  | ["tregion"] =>
    match s.pc with
    | .init => if abs.startsWith "EXCEPTION_WHILE_INSTANTIATING_TASK " then some .initFail else some .initOk
    | .waiting => some .wake
    | .ranOut _ => some .mark
    | _ => none
  | _ => none

def stepLine (s : State) (line : String) : State × String :=
  if line == "init" then (init, "ok") else
  match line.splitOn "|" with
  | [tok, r, abs] =>
    if tok == "tregion" && (match s.pc with | .init => false | .waiting => false | .ranOut _ => false | _ => true) then
      (s, s!"disabled tregion at {ctlOf s} {absOf s}")
    else
    match parseAct s tok abs with
    | none => (s, "bad-op")
    | some a =>
      match step s a with
      | none => (s, s!"disabled {tok} at {ctlOf s} {absOf s}")
      | some s' =>
        if resName (res s a) != r then (s', s!"mismatch res model={resName (res s a)} at {ctlOf s} {absOf s}")
        else if absOf s' != abs then (s', s!"mismatch state model={absOf s'} after {ctlOf s'}")
        else (s', "ok")
  | [single] =>
    match single.splitOn " " with
    | ["blocked", "join", bb] =>
      if bb != "0" && bb != "1" then (s, "bad-op") else
      let bodyBlocked := bb == "1"
      if !s.free then (s, s!"mismatch runner-not-free {ctlOf s}")
      else if (step s .join).isSome then (s, s!"mismatch join-enabled {ctlOf s} {absOf s}")
      else if threadCanMove s then (s, s!"mismatch thread-can-move {ctlOf s} {absOf s}")
      else if s.pc == .inRun && !bodyBlocked then (s, s!"mismatch body-not-blocked {ctlOf s}")
      else (s, "ok")
    | _ => (s, "bad-op")
  | _ => (s, "bad-op")

def main : IO Unit := Drv.main' stepLine init
