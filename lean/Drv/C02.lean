import QmiModel.Model.Forward
import Drv.Common
/-!
Line-protocol driver for the forwarding model (property C02).

The harness feeds the message-level trace of real QMI runs (taps on `MessageRouter.send_message /
deliver_message / register…`, `_SocketManager.send_message / add_incoming_connection / …`,
`_PeerTcpConnection.send_message / _process_message`, `QMI_Context.make_unique_address`,
`_RpcThread._handle_method_rpc_request`, `QMI_RpcFuture.handle_message`, the proxy stubs); the model
must reproduce every routing decision, every rewritten address, the pending tables and the stub names.

Payloads are opaque tokens (one word); they must come out unchanged.
-/
open QmiModel.Forward

structure World where
  nodes : Array Node := #[]
  ifaces : List (Nat × String × List String) := []
  proxies : List (Nat × Mode × List String × List (String × Stub)) := []
  futs : List (Nat × String × FutSt String) := []

def errStr : Err → String
  | .assertion => "exc:AssertionError"
  | .delivery w => "exc:QMI_MessageDeliveryException:" ++ w
  | .runtime w => "exc:QMI_RuntimeException:" ++ w
  | .unpickle => "exc:unpickle"
  | .duplicateName => "exc:QMI_DuplicateNameException"
  | .unknownName => "exc:QMI_UnknownNameException"

def mkBody (kind pl : String) : Option (Body String) :=
  match kind with
  | "mreq" => some (.methodRequest pl [] [] none)
  | "mrep" => some (.methodReply .value (some pl))
  | "erep" => some (.errorReply pl)
  | "oreq" => some (.otherRequest pl)
  | "orep" => some (if pl == "QMI_LockRpcReplyMessage" then .lockReply else .otherReply pl)
  | "plain" => some (.plain pl)
  | _ => none

def bodyStr : Body String → String
  | .methodRequest pl _ _ _ => "mreq " ++ pl
  | .methodReply _ (some pl) => "mrep " ++ pl
  | .methodReply _ none => "mrep -"
  | .errorReply pl => "erep " ++ pl
  | .otherRequest pl => "oreq " ++ pl
  | .otherReply pl => "orep " ++ pl
  | .lockReply => "orep QMI_LockRpcReplyMessage"
  | .plain pl => "plain " ++ pl

/-- `<kind> <sctx> <sobj> <dctx> <dobj> <rid> <pl>` -/
def parseMsg : List String → Option (Msg String)
  | [kind, sc, so, dc, dobj, rid, pl] =>
    (mkBody kind pl).map (fun b => { src := ⟨sc, so⟩, dst := ⟨dc, dobj⟩, reqId := rid, body := b })
  | _ => none

def msgStr (m : Msg String) : String :=
  match (bodyStr m.body).splitOn " " with
  | [k, pl] => s!"{k} {m.src.ctx} {m.src.obj} {m.dst.ctx} {m.dst.obj} {m.reqId} {pl}"
  | _ => "bad-body"

def parseTok (s : String) : Option (Option Token) :=
  if s == "-" then some none
  else match s.splitOn ":" with
    | c :: t :: rest => some (some ⟨c, String.intercalate ":" (t :: rest)⟩)
    | _ => none

def names (s : String) : List String := if s == "-" then [] else s.splitOn ","

def modConn (n : Node) (cid : Nat) (f : Conn → Conn) : Node :=
  { n with conns := n.conns.map (fun c => if c.cid == cid then f c else c) }

def getConn (n : Node) (cid : Nat) : Option Conn := n.conns.find? (fun c => c.cid == cid)

def X : Excs String := { unknownRpc := fun _ => "QMI_UnknownRpcException", delivery := fun _ => "QMI_MessageDeliveryException" }

def stepLine (w : World) (line : String) : World × String :=
  let bad := (w, "bad-op")
  match line.splitOn " " with
  | ["reset"] => ({}, "ok")
  | ["ctx", name] =>
    ({ w with nodes := w.nodes.push { name := name } }, s!"ctx {w.nodes.size}")
  | ["uniq", i, pfx] =>
    match i.toNat? with
    | some i =>
      match w.nodes[i]? with
      | some n =>
        let (n', a) := n.makeUnique pfx
        ({ w with nodes := w.nodes.set! i n' }, s!"addr {a.ctx} {a.obj}")
      | none => bad
    | none => bad
  | ["reg", i, obj] =>
    match i.toNat? with
    | some i =>
      match w.nodes[i]? with
      | some n =>
        match n.register obj with
        | .ok n' => ({ w with nodes := w.nodes.set! i n' }, "ok")
        | .error e => (w, errStr e)
      | none => bad
    | none => bad
  | ["unreg", i, obj] =>
    match i.toNat? with
    | some i =>
      match w.nodes[i]? with
      | some n =>
        match n.unregister obj with
        | .ok n' => ({ w with nodes := w.nodes.set! i n' }, "ok")
        | .error e => (w, errStr e)
      | none => bad
    | none => bad
  | ["connect", i, cid, alias] =>
    match i.toNat?, cid.toNat? with
    | some i, some cid =>
      match w.nodes[i]? with
      | some n =>
        let c : Conn := { cid := cid, alias := alias, incoming := false, inMap := false }
        ({ w with nodes := w.nodes.set! i { n with conns := n.conns ++ [c] } }, "ok")
      | none => bad
    | _, _ => bad
  | ["accept", i, cid] =>
    match i.toNat?, cid.toNat? with
    | some i, some cid =>
      match w.nodes[i]? with
      | some n =>
        let (n', c) := n.acceptConn cid
        ({ w with nodes := w.nodes.set! i n' }, s!"alias {c.alias}")
      | none => bad
    | _, _ => bad
  | ["addout", i, cid] =>
    match i.toNat?, cid.toNat? with
    | some i, some cid =>
      match w.nodes[i]? with
      | some n =>
        match getConn n cid with
        | some c =>
          -- `assert conn.peer_context_alias not in self._peer_context_map`, `assert conn.peer_context_name is not None`
          if (n.findPeer c.alias).isSome || c.peerName.isNone then (w, "exc:AssertionError")
          else ({ w with nodes := w.nodes.set! i (modConn n cid (fun c => { c with inMap := true })) }, "ok")
        | none => bad
      | none => bad
    | _, _ => bad
  | ["drop", i, cid] =>
    match i.toNat?, cid.toNat? with
    | some i, some cid =>
      match w.nodes[i]? with
      | some n => ({ w with nodes := w.nodes.set! i (n.dropConn cid) }, "ok")
      | none => bad
    | _, _ => bad
  | ["out", i, cid, "hs"] =>
    match i.toNat?, cid.toNat? with
    | some i, some cid =>
      match w.nodes[i]? with
      | some n =>
        match getConn n cid with
        | some c => (w, s!"wire hs {n.name} {if c.incoming then 1 else 0}")
        | none => bad
      | none => bad
    | _, _ => bad
  | "outfail" :: i :: cid :: rest =>
    -- `_PeerTcpConnection.send_message` raised after the address rewrite (pickle / size / OS error; C01 owns what
    -- follows): nothing was sent, the pending table is unchanged
    match i.toNat?, cid.toNat?, parseMsg rest with
    | some i, some cid, some m =>
      match w.nodes[i]? with
      | some n =>
        match getConn n cid with
        | some c =>
          match c.rewriteOut m with
          | .error e => (w, errStr e)
          | .ok _ => (w, "exc:send-failed")
        | none => bad
      | none => bad
    | _, _, _ => bad
  | "out" :: i :: cid :: rest =>
    match i.toNat?, cid.toNat?, parseMsg rest with
    | some i, some cid, some m =>
      match w.nodes[i]? with
      | some n =>
        match getConn n cid with
        | some c =>
          match c.rewriteOut m with
          | .error e => (w, errStr e)
          | .ok m' =>
            let c' := c.notePending m'
            ({ w with nodes := w.nodes.set! i (modConn n cid (fun _ => c')) }, s!"wire {msgStr m'} pend={c'.pending.length}")
        | none => bad
      | none => bad
    | _, _, _ => bad
  | ["in", i, cid, "hs", srcCtx, isSrv] =>
    match i.toNat?, cid.toNat? with
    | some i, some cid =>
      match w.nodes[i]? with
      | some n =>
        match getConn n cid with
        | some c =>
          match c.handshakeIn (if srcCtx == "~" then none else some srcCtx) (isSrv == "1") with
          | .error e => (w, errStr e)
          | .ok c' => ({ w with nodes := w.nodes.set! i (modConn n cid (fun _ => c')) }, s!"peer {srcCtx}")
        | none => bad
      | none => bad
    | _, _ => bad
  | "in" :: i :: cid :: rest =>
    match i.toNat?, cid.toNat?, parseMsg rest with
    | some i, some cid, some m =>
      match w.nodes[i]? with
      | some n =>
        match getConn n cid with
        | some c =>
          match c.rewriteIn n.name m with
          | .error e => (w, errStr e)
          | .ok m' =>
            let c' := c.popPending m'
            ({ w with nodes := w.nodes.set! i (modConn n cid (fun _ => c')) }, s!"msg {msgStr m'} pend={c'.pending.length}")
        | none => bad
      | none => bad
    | _, _, _ => bad
  | "send" :: i :: act :: rest =>
    match i.toNat?, parseMsg (rest ++ ["-"]) with
    | some i, some m =>
      match w.nodes[i]? with
      | some n =>
        match ({ n with active := act == "1" } : Node).route m with
        | .ok .localDeliver => (w, "local")
        | .ok (.remote a) => (w, s!"queued {a}")
        | .error e => (w, errStr e)
      | none => bad
    | _, _ => bad
  | "smsend" :: i :: rest =>
    match i.toNat?, parseMsg (rest ++ ["-"]) with
    | some i, some m =>
      match w.nodes[i]? with
      | some n =>
        match n.findPeer m.dst.ctx with
        | some c => (w, s!"conn {c.cid}")
        | none => (w, "noconn")
      | none => bad
    | _, _ => bad
  | "deliver" :: i :: rest =>
    match i.toNat?, parseMsg (rest ++ ["-"]) with
    | some i, some m =>
      match w.nodes[i]? with
      | some n =>
        match n.deliver m with
        | .ok h => (w, s!"handler {h}")
        | .error e => (w, errStr e)
      | none => bad
    | _, _ => bad
  | ["iface", i, obj, ns] =>
    match i.toNat? with
    | some i => ({ w with ifaces := (i, obj, names ns) :: w.ifaces }, "ok")
    | none => bad
  | ["exec", i, obj, lock, reqtok, method, sc, so, dc, dobj, rid] =>
    match i.toNat?, parseTok lock, parseTok reqtok with
    | some i, some lock, some reqtok =>
      match w.ifaces.find? (fun e => e.1 == i && e.2.1 == obj) with
      | some (_, _, ns) =>
        let o : Obj String := { lock := lock, methods := fun nm => if ns.contains nm then some (fun _ _ => .value "r") else none }
        let req : Msg String := { src := ⟨sc, so⟩, dst := ⟨dc, dobj⟩, reqId := rid, body := .methodRequest method [] [] reqtok }
        match dispatch X o req with
        | some r =>
          let k := match r.body with
            | .methodReply .value _ => "C"
            | .methodReply .exception _ => "U"
            | .methodReply .locked _ => "L"
            | _ => "?"
          (w, s!"reply {k} {r.src.ctx} {r.src.obj} {r.dst.ctx} {r.dst.obj} {r.reqId}")
        | none => (w, "noreply")
      | none => (w, "bad-op")
    | _, _, _ => bad
  | ["proxy", pid, binding, mode, ns, params] =>
    match pid.toNat?, binding, mode with
    | some pid, "perName", "blk" => ({ w with proxies := (pid, .blocking, names params, mkStubsWith .perName (names ns)) :: w.proxies }, "ok")
    | some pid, "perName", "nb" => ({ w with proxies := (pid, .nonBlocking, names params, mkStubsWith .perName (names ns)) :: w.proxies }, "ok")
    | some pid, "loopVariable", "blk" => ({ w with proxies := (pid, .blocking, names params, mkStubsWith .loopVariable (names ns)) :: w.proxies }, "ok")
    | some pid, "loopVariable", "nb" => ({ w with proxies := (pid, .nonBlocking, names params, mkStubsWith .loopVariable (names ns)) :: w.proxies }, "ok")
    | _, _, _ => bad
  | ["stub", pid, attr, kws] =>
    match pid.toNat? with
    | some pid =>
      match w.proxies.find? (fun e => e.1 == pid) with
      | some (_, mode, params, stubs) =>
        match stubFor stubs attr with
        | some s =>
          match stubKwargs mode params ((names kws).map (fun k => (k, ""))) with
          | .ok kw => (w, s!"sends {s.sends} {if kw.isEmpty then "-" else String.intercalate "," (kw.map (·.1))}")
          | .error .typeError => (w, "exc:TypeError")
          | .error .runtimeError => (w, "exc:RuntimeError")
        | none => (w, "noattr")
      | none => bad
    | none => bad
  | ["futinit", i, obj] =>
    match i.toNat? with
    | some i => ({ w with futs := (i, obj, .noResult) :: w.futs }, "ok")
    | none => bad
  | ["fut", i, obj, kind, pl] =>
    match i.toNat?, mkBody kind pl with
    | some i, some b =>
      match w.futs.find? (fun e => e.1 == i && e.2.1 == obj) with
      | some (_, _, st) =>
        let m : Msg String := { src := ⟨"", ""⟩, dst := ⟨"", obj⟩, reqId := "", body := b }
        let st' := futureHandle X st m
        let out := match st, st' with
          | .noResult, .set .. => "set"
          | .noResult, .noResult => "ignored"
          | .set .., _ => "dup"
        ({ w with futs := (i, obj, st') :: w.futs.filter (fun e => !(e.1 == i && e.2.1 == obj)) }, out)
      | none => bad
    | _, _ => bad
  | _ => bad

def main : IO Unit := Drv.main' stepLine ({} : World)
