import QmiModel.Gen.OpenProgs
import Drv.Common
open QmiModel.OpenProg QmiModel.Gen.OpenProgs

/-!
Line protocol of the C19 model driver (one output line per input line):

  reset <Driver>          select a generated program, state := closed            → `ok nlinks=<n>`
  open  <plan>            run its open() program on the current state            → `res=… flag=… links=… trace=… io=…`
  close <plan>            run its close() program
  call  guarded|bare <plan>   an arbitrary RPC method: `[checkOpen, io]` resp. `[io]`
  isopen                                                                          → `0` / `1`

<plan> is `-` (no fault) or `<k>:<kind>[,<k>:<kind>…]` (these fault points of this call raise <kind>).
Fault counter, trace and I/O log are per call.
-/

structure DS where
  drv : Option Driver
  st : St

def kindOfString : String → Option Kind
  | "timeout" => some .timeout
  | "instr" => some .instr
  | "os" => some .os
  | "value" => some .value
  | "other" => some .other
  | "invalidOp" => some .invalidOp
  | _ => none

def kindToString : Kind → String
  | .timeout => "timeout"
  | .instr => "instr"
  | .os => "os"
  | .value => "value"
  | .other => "other"
  | .invalidOp => "invalidOp"

/-- one plan entry `<k>:<kind>` -/
def parseEntry (s : String) : Option (Nat × Kind) :=
  match s.splitOn ":" with
  | [k, kd] =>
    match k.toNat?, kindOfString kd with
    | some k, some κ => some (k, κ)
    | _, _ => none
  | _ => none

/-- `-` = no fault; `<k>:<kind>[,<k>:<kind>…]` = these fault points raise; `none` = unparsable -/
def parsePlan (s : String) : Option Plan :=
  if s == "-" then some noFault else
  let es := (s.splitOn ",").map parseEntry
  if es.all Option.isSome then
    let l := es.filterMap id
    some (fun c => (l.find? (fun e => e.1 == c)).map (·.2))
  else none

def insertSorted (x : Nat) : List Nat → List Nat
  | [] => [x]
  | y :: r => if x ≤ y then x :: y :: r else y :: insertSorted x r

def sortNat (l : List Nat) : List Nat := l.foldr insertSorted []

def showList (l : List Nat) : String :=
  if l.isEmpty then "-" else ",".intercalate (l.map toString)

def showRes : Res → String
  | .ok => "ok"
  | .raised κ => "exc:" ++ kindToString κ
  | .outOfFuel => "fuel"

def report (r : St × Res) : String :=
  s!"res={showRes r.2} flag={if r.1.instrOpen then 1 else 0} links={showList (sortNat r.1.links)} " ++
  s!"trace={showList r.1.trace.reverse} io={showList r.1.ioLog.reverse}"

def runCall (d : DS) (p : Prog) (plan : String) : DS × String :=
  match parsePlan plan with
  | none => (d, "bad-op")
  | some P =>
    let r := exec P fuel0 p (fresh d.st)
    ({ d with st := r.1 }, report r)

def stepLine (d : DS) (line : String) : DS × String :=
  match line.splitOn " " with
  | ["reset", name] =>
    match allDrivers.find? (fun x => x.name == name) with
    | some drv => ({ drv := some drv, st := init }, s!"ok nlinks={drv.nlinks}")
    | none => ({ drv := none, st := init }, "bad-op")
  | ["open", plan] =>
    match d.drv with
    | some drv => runCall d drv.openP plan
    | none => (d, "bad-op")
  | ["close", plan] =>
    match d.drv with
    | some drv => runCall d drv.closeP plan
    | none => (d, "bad-op")
  | ["call", "guarded", plan] =>
    match d.drv with
    | some _ => runCall d [.atom 9001 .checkOpen, .atom 9002 .io] plan
    | none => (d, "bad-op")
  | ["call", "bare", plan] =>
    match d.drv with
    | some _ => runCall d [.atom 9002 .io] plan
    | none => (d, "bad-op")
  | ["isopen"] =>
    match d.drv with
    | some _ => (d, if d.st.instrOpen then "1" else "0")
    | none => (d, "bad-op")
  | _ => (d, "bad-op")

def main : IO Unit := Drv.main' stepLine { drv := none, st := init }
