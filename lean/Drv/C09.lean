import QmiModel.Model.RecvQueue
import Drv.Common
open QmiModel.RecvQueue

def stepLine (r : RQ) (line : String) : RQ × String :=
  match line.splitOn " " with
  | ["init", c, p] =>
    match c.toNat?, p with
    | some cap, "old" => (init cap .old, "ok")
    | some cap, "new" => (init cap .new, "ok")
    | _, _ => (r, "bad-op")
  | ["recv", t] =>
    match t.toNat? with
    | some tag => ((step r (.recv tag)).1, "ok")
    | none => (r, "bad-op")
  | ["get"] =>
    match step r .get with
    | (r', .sig s) => (r', s!"sig {s.seq} {s.tag}")
    | (r', .timeout) => (r', "timeout")
    | (r', _) => (r', "bad-out")
  | ["discard"] => ((step r .discard).1, "ok")
  | ["len"] => match (step r .len).2 with | .nat n => (r, toString n) | _ => (r, "bad-out")
  | ["q"] => (r, r.q.foldl (fun acc s => acc ++ s!" {s.seq}:{s.tag}") "q")
  | ["ready"] => match (step r .ready).2 with | .bool b => (r, toString b) | _ => (r, "bad-out")
  | _ => (r, "bad-op")

def main : IO Unit := Drv.main' stepLine (init 1 .old)
