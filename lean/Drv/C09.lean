import QmiModel.Model.RecvQueue
import QmiModel.Gen.RecvProg
import Drv.Common
open QmiModel.RecvQueue

/-! Line-protocol driver for C09.

Sequential model (`RecvQueue`): `init cap old|new`, `recv tag`, `get`, `discard`, `len`, `ready`, `q`.

Concurrent model (`RecvConc`, running the statement lists GENERATED from the source, `Gen.RecvProg.progs`), driven at
lock granularity by the events of a real run:
`cinit cap pol`, `ccall i recv tag | get plain|task none|zero|pos | discard | len | ready`, `cacq i` (thread `i` runs up to
and including its `acquire`), `crun i` (thread `i` runs while it holds the lock: until the call ends or it parks in
`wait`), `crunr i n` (… until it has read the task's stop flag `n` more times), `cunpark i`, `cstop i`, `cexpire i`,
`cwake i`, `cq`. -/

namespace C09Conc
open QmiModel.RecvConc

def progs : Progs := QmiModel.Gen.RecvProg.progs

def resStr : Option Res → String
  | none => "none"
  | some .unit => "unit"
  | some (.sig s) => s!"sig {s.seq} {s.tag}"
  | some .timeout => "timeout"
  | some .taskStop => "taskstop"
  | some .indexErr => "indexerr"
  | some (.nat n) => toString n
  | some (.bool b) => toString b

/-- thread `i` runs up to and including its `acquire` -/
def acq (s : St) (i : Nat) : Nat → St × Bool
  | 0 => (s, false)
  | f + 1 =>
    if s.lock == some i then (s, true) else
    let s' := cstep progs s (.step i)
    if s'.lock == some i then (s', true)
    else if (s'.thr i).pc == (s.thr i).pc then (s', false)     -- blocked (or not in a call)
    else acq s' i f

/-- thread `i` runs while it holds the lock -/
def runHeld (s : St) (i : Nat) : Nat → St
  | 0 => s
  | f + 1 => if s.lock == some i then runHeld (cstep progs s (.step i)) i f else s

/-- the next statement of thread `i` reads the task's stop flag (which no lock protects) -/
def readsFlag (s : St) (i : Nat) : Bool :=
  let t := s.thr i
  match t.call, t.wpc with
  | .get task _, some w =>
    if t.parked then false else
    match (if task then progs.taskWait else progs.plainWait)[w]? with
    | some (.waitFor true) => s.g.r.q.isEmpty
    | some .raiseIfStop => true
    | _ => false
  | _, _ => false

/-- thread `i` (holding the lock) runs until it has read the stop flag `n` more times -/
def runReads (s : St) (i : Nat) (n : Nat) : Nat → St × Bool
  | 0 => (s, n == 0)
  | f + 1 =>
    if n == 0 then (s, true)
    else if s.lock != some i then (s, false)
    else runReads (cstep progs s (.step i)) i (if readsFlag s i then n - 1 else n) f

def qStr (s : St) : String := s.g.r.q.foldl (fun acc x => acc ++ s!" {x.seq}:{x.tag}") "q"

def parseCall : List String → Option Call
  | ["recv", t] => t.toNat?.map Call.recv
  | ["get", "plain", "none"] => some (.get false .none)
  | ["get", "plain", "zero"] => some (.get false .zero)
  | ["get", "plain", "pos"] => some (.get false .pos)
  | ["get", "task", "none"] => some (.get true .none)
  | ["get", "task", "zero"] => some (.get true .zero)
  | ["get", "task", "pos"] => some (.get true .pos)
  | ["discard"] => some .discard
  | ["len"] => some (.query false)
  | ["ready"] => some (.query true)
  | _ => none

def step (s : St) (ws : List String) : Option (St × String) :=
  match ws with
  | ["cinit", c, p] =>
    match c.toNat?, p with
    | some cap, "old" => some (St.init cap .old, "ok")
    | some cap, "new" => some (St.init cap .new, "ok")
    | _, _ => none
  | "ccall" :: i :: rest =>
    match i.toNat?, parseCall rest with
    | some i, some c =>
      match (s.thr i).call with
      | .idle => some (cstep progs s (.call i c), "ok")
      | _ => some (s, "busy")
    | _, _ => none
  | ["cacq", i] =>
    i.toNat?.map fun i =>
      let (s', ok) := acq s i 8
      (s', if ok then "ok" else "blocked")
  | ["crun", i] =>
    i.toNat?.map fun i =>
      if s.lock != some i then (s, "not-holder") else
      let s' := runHeld s i 40
      if s'.lock == some i then (s', "stuck")
      else if (s'.thr i).parked then (s', "parked")
      else (s', "done " ++ resStr (s'.thr i).res)
  | ["crunr", i, n] =>
    match i.toNat?, n.toNat? with
    | some i, some n =>
      let (s', ok) := runReads s i n 40
      some (s', if ok then "ok" else "fewer-flag-reads")
    | _, _ => none
  | ["cunpark", i] =>
    i.toNat?.map fun i =>
      if !(s.thr i).parked then (s, "not-parked") else
      let s' := cstep progs s (.step i)
      (s', if s'.lock == some i && !(s'.thr i).parked then "ok" else "blocked")
  | ["cstop", i] => i.toNat?.map fun i => (cstep progs s (.stop i), "ok")
  | ["cexpire", i] => i.toNat?.map fun i => (cstep progs s (.expire i), "ok")
  | ["cwake", i] => i.toNat?.map fun i => (cstep progs s (.wake i), "ok")
  | ["cq"] => some (s, qStr s)
  | _ => none

end C09Conc

structure DS where
  r : RQ
  c : QmiModel.RecvConc.St

def stepLine (d : DS) (line : String) : DS × String :=
  let r := d.r
  match line.splitOn " " with
  | ["init", c, p] =>
    match c.toNat?, p with
    | some cap, "old" => ({ d with r := init cap .old }, "ok")
    | some cap, "new" => ({ d with r := init cap .new }, "ok")
    | _, _ => (d, "bad-op")
  | ["recv", t] =>
    match t.toNat? with
    | some tag => ({ d with r := (step r (.recv tag)).1 }, "ok")
    | none => (d, "bad-op")
  | ["get"] =>
    match step r .get with
    | (r', .sig s) => ({ d with r := r' }, s!"sig {s.seq} {s.tag}")
    | (r', .timeout) => ({ d with r := r' }, "timeout")
    | (r', _) => ({ d with r := r' }, "bad-out")
  | ["discard"] => ({ d with r := (step r .discard).1 }, "ok")
  | ["len"] => match (step r .len).2 with | .nat n => (d, toString n) | _ => (d, "bad-out")
  | ["q"] => (d, r.q.foldl (fun acc s => acc ++ s!" {s.seq}:{s.tag}") "q")
  | ["ready"] => match (step r .ready).2 with | .bool b => (d, toString b) | _ => (d, "bad-out")
  | ws =>
    match C09Conc.step d.c ws with
    | some (c', out) => ({ d with c := c' }, out)
    | none => (d, "bad-op")

def main : IO Unit := Drv.main' stepLine { r := init 1 .old, c := QmiModel.RecvConc.St.init 1 .old }
