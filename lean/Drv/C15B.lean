import QmiModel.Model.Interbus
import QmiModel.Model.Apt
import QmiModel.Model.T2
import QmiModel.Gen.Layouts
import Drv.Common
/-!
Line-protocol driver for C15 part B (Interbus, APT, T2).  One output line per input line.

```
ib.enc <dest> <src> <type> <reg> <datahex>            -> ok <framehex> | exc:ValueError
ib.dec <framehex>                                     -> ok <dest> <src> <type> <reg> <datahex> | exc:ValueError
ib.crc <hex>                                          -> <crc>
ib.rr  <toggle> <dest> <type> <reg> <datahex> <script>-> <res>|tg=<n>|w=<hex;hex…>|reads=<n>|buf=<hex>|left=<n>
ib.get <toggle> <dest> <reg> <script>                 -> same, <res> = ok <datahex>
ib.set <toggle> <dest> <reg> <datahex> <script>       -> same, <res> = ok
   <script> = `.` (empty) or comma-separated segments, each `T` (timeout) or hex bytes that arrive
apt.wp  <dev> <host> <id> <p1> <p2>                   -> <hex written>
apt.wd  <dev> <host> <id> <layout> <v,v,…>            -> <hex written>
apt.pack <layout> <v,v,…>                             -> <hex>
apt.ask <dev> <host> <layout> <bufhex>                -> ok <v,v,…>|buf=<hex>  |  exc:<T>|buf=<hex>
t2.reset                                              -> ok
t2.proc <r,r,…>                                       -> c=<counter> ev=<type>:<ts>,…
```
-/
open QmiModel

namespace C15B

def ibp : Interbus.Params := Gen.Layouts.interbus
def t2p : T2.Params := Gen.Layouts.t2

def ibExc : Interbus.Exc → String
  | .valueError => "exc:ValueError"
  | .timeout => "exc:QMI_TimeoutException"
  | .instrument => "exc:QMI_InstrumentException"

def aptExc : Apt.Exc → String
  | .valueError => "exc:ValueError"
  | .timeout => "exc:QMI_TimeoutException"
  | .instrument => "exc:QMI_InstrumentException"

def showMsg (m : Interbus.Msg) : String :=
  s!"ok {m.dest} {m.src} {m.mtype} {m.reg} {Drv.hex m.data}"

def parseSeg (s : String) : Option Interbus.Seg :=
  if s == "T" then some .timeout else (Drv.unhex s).map .data

def parseScript (s : String) : Option (List Interbus.Seg) :=
  if s == "." then some [] else (s.splitOn ",").mapM parseSeg

def showTr (tg : Nat) (t : Interbus.Tr) : String :=
  let w := if t.written.isEmpty then "." else ";".intercalate (t.written.map Drv.hex)
  s!"|tg={tg}|w={w}|reads={t.reads}|buf={Drv.hex t.buf}|left={t.script.length}"

def parseInts (s : String) : Option (List Int) :=
  if s == "." then some [] else (s.splitOn ",").mapM String.toInt?

def parseNats (s : String) : Option (List Nat) :=
  if s == "." then some [] else (s.splitOn ",").mapM String.toNat?

def showInts (vs : List Int) : String :=
  if vs.isEmpty then "." else ",".intercalate (vs.map toString)

def findLayout (nm : String) : Option Apt.Layout :=
  (Gen.Layouts.aptHdrParams :: Gen.Layouts.aptHdrData :: Gen.Layouts.aptPackets).find? (fun l => l.name == nm)

def mkProto (dev host : Nat) : Apt.Proto :=
  { headerSize := Gen.Layouts.aptHeaderSize, hdrParams := Gen.Layouts.aptHdrParams, hdrData := Gen.Layouts.aptHdrData,
    dataFlag := Gen.Layouts.aptDataFlag, devAddr := dev, hostAddr := host }

def showEvents (es : List T2.Event) : String :=
  if es.isEmpty then "." else ",".intercalate (es.map fun e => s!"{e.typ}:{e.ts}")

/-- state = the T2 decoder's carried overflow counter -/
def stepLine (c : Nat) (line : String) : Nat × String :=
  match line.splitOn " " with
  | ["ib.enc", d, s, t, r, x] =>
    match d.toNat?, s.toNat?, t.toNat?, r.toNat?, Drv.unhex x with
    | some d, some s, some t, some r, some x =>
      match Interbus.encode ibp ⟨d, s, t, r, x⟩ with
      | .ok w => (c, s!"ok {Drv.hex w}")
      | .error e => (c, ibExc e)
    | _, _, _, _, _ => (c, "bad-op")
  | ["ib.dec", x] =>
    match Drv.unhex x with
    | some w => match Interbus.decode ibp w with
      | .ok m => (c, showMsg m)
      | .error e => (c, ibExc e)
    | none => (c, "bad-op")
  | ["ib.crc", x] =>
    match Drv.unhex x with
    | some w => (c, toString (Interbus.crcOf ibp.crcPoly w))
    | none => (c, "bad-op")
  | ["ib.rr", tg, d, t, r, x, sc] =>
    match tg.toNat?, d.toNat?, t.toNat?, r.toNat?, Drv.unhex x, parseScript sc with
    | some tg, some d, some t, some r, some x, some sc =>
      match Interbus.requestResponse ibp tg d t r x { script := sc } with
      | (.ok m, tg', tr) => (c, showMsg m ++ showTr tg' tr)
      | (.error e, tg', tr) => (c, ibExc e ++ showTr tg' tr)
    | _, _, _, _, _, _ => (c, "bad-op")
  | ["ib.get", tg, d, r, sc] =>
    match tg.toNat?, d.toNat?, r.toNat?, parseScript sc with
    | some tg, some d, some r, some sc =>
      match Interbus.getRegister ibp tg d r { script := sc } with
      | (.ok x, tg', tr) => (c, s!"ok {Drv.hex x}" ++ showTr tg' tr)
      | (.error e, tg', tr) => (c, ibExc e ++ showTr tg' tr)
    | _, _, _, _ => (c, "bad-op")
  | ["ib.set", tg, d, r, x, sc] =>
    match tg.toNat?, d.toNat?, r.toNat?, Drv.unhex x, parseScript sc with
    | some tg, some d, some r, some x, some sc =>
      match Interbus.setRegister ibp tg d r x { script := sc } with
      | (.ok _, tg', tr) => (c, "ok" ++ showTr tg' tr)
      | (.error e, tg', tr) => (c, ibExc e ++ showTr tg' tr)
    | _, _, _, _, _ => (c, "bad-op")
  | ["apt.wp", dev, host, id, p1, p2] =>
    match dev.toNat?, host.toNat?, id.toInt?, p1.toInt?, p2.toInt? with
    | some dev, some host, some id, some p1, some p2 =>
      (c, Drv.hex (Apt.writeParam (mkProto dev host) id p1 p2))
    | _, _, _, _, _ => (c, "bad-op")
  | ["apt.wd", dev, host, id, nm, vs] =>
    match dev.toNat?, host.toNat?, id.toInt?, findLayout nm, parseInts vs with
    | some dev, some host, some id, some l, some vs =>
      (c, Drv.hex (Apt.writeData (mkProto dev host) id (Apt.pack l.cells vs)))
    | _, _, _, _, _ => (c, "bad-op")
  | ["apt.pack", nm, vs] =>
    match findLayout nm, parseInts vs with
    | some l, some vs => (c, Drv.hex (Apt.pack l.cells vs))
    | _, _ => (c, "bad-op")
  | ["apt.ask", dev, host, nm, x] =>
    match dev.toNat?, host.toNat?, findLayout nm, Drv.unhex x with
    | some dev, some host, some l, some buf =>
      match Apt.ask (mkProto dev host) l buf with
      | (.ok vs, b) => (c, s!"ok {showInts vs}|buf={Drv.hex b}")
      | (.error e, b) => (c, aptExc e ++ s!"|buf={Drv.hex b}")
    | _, _, _, _ => (c, "bad-op")
  | ["t2.reset"] => (0, "ok")
  | ["t2.proc", rs] =>
    match parseNats rs with
    | some rs =>
      let (c', es) := T2.process t2p c rs
      (c', s!"c={c'} ev={showEvents es}")
    | none => (c, "bad-op")
  | _ => (c, "bad-op")

end C15B

def main : IO Unit := Drv.main' C15B.stepLine 0
