import Drv.Common
/-! stub driver for C15 part B: replaced when the model is built -/
def main : IO Unit := Drv.main' (fun (s : Unit) _ => (s, "bad-op")) ()
