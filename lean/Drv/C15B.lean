import QmiModel.Model.Interbus
import QmiModel.Model.Apt
import QmiModel.Model.T2
import QmiModel.Gen.Layouts
import Drv.Common
/-!
Line-protocol driver for C15 part B (Interbus, APT, T2).  One output line per input line.

```
ib.enc <dest> <src> <type> <reg> <datahex>            -> ok <framehex> | exc:ValueError
ib.dec <framehex>                                     -> ok <dest> <src> <type> <reg> <datahex> | exc:ValueError
ib.crc <hex>                                          -> <crc>
ib.rr  <toggle> <dest> <type> <reg> <datahex> <script>-> <res>|tg=<n>|w=<hex;hex…>|reads=<n>|buf=<hex>|left=<n>
ib.get <toggle> <dest> <reg> <script>                 -> same, <res> = ok <datahex>
ib.set <toggle> <dest> <reg> <datahex> <script>       -> same, <res> = ok
   <script> = `.` (empty) or comma-separated segments, each `T` (timeout) or hex bytes that arrive
apt.wp  <dev> <host> <id> <p1> <p2>                   -> <hex written>
apt.wd  <dev> <host> <id> <layout> <v,v,…>            -> <hex written>
apt.pack <layout> <v,v,…>                             -> <hex>
apt.ask <dev> <host> <layout> <bufhex>                -> ok <v,v,…>|buf=<hex>  |  exc:<T>|buf=<hex>
apt.askt <dev> <host> <layout> <dflt|N> <t|N> <bufhex>-> as apt.ask, then |rd=<nbytes>:<timeout|N>,…
k10.read <bufhex>                                     -> ok <class> <v,v,…>|buf=<hex>  |  exc:<T>|buf=<hex>
k10.wait <class> <t0> <step> <timeout> <bufhex>       -> same, then |tmo=<t,t,…>
k10.send <msghex> <bufhex>                            -> ok|w=<hex>|buf=<hex>  |  exc:<T>|w=.|buf=<hex>
k10.create <class> <v,v,…>                            -> <hex>
t2.reset                                              -> ok
t2.set <counter>                                      -> ok        (carried counter, < 2^64)
t2.proc <r,r,…>                                       -> c=<counter> ev=<type>:<ts>,…
t3.proc <P> <R> <counter> <r,r,…>                     -> c=<counter> ev=<type>:<ts>,…     (stateless)
```
-/
open QmiModel

namespace C15B

def ibp : Interbus.Params := Gen.Layouts.interbus
def t2p : T2.Params := Gen.Layouts.t2

def ibExc : Interbus.Exc → String
  | .valueError => "exc:ValueError"
  | .timeout => "exc:QMI_TimeoutException"
  | .instrument => "exc:QMI_InstrumentException"

def aptExc : Apt.Exc → String
  | .valueError => "exc:ValueError"
  | .timeout => "exc:QMI_TimeoutException"
  | .instrument => "exc:QMI_InstrumentException"

def showMsg (m : Interbus.Msg) : String :=
  s!"ok {m.dest} {m.src} {m.mtype} {m.reg} {Drv.hex m.data}"

def parseSeg (s : String) : Option Interbus.Seg :=
  if s == "T" then some .timeout else (Drv.unhex s).map .data

def parseScript (s : String) : Option (List Interbus.Seg) :=
  if s == "." then some [] else (s.splitOn ",").mapM parseSeg

def showTr (tg : Nat) (t : Interbus.Tr) : String :=
  let w := if t.written.isEmpty then "." else ";".intercalate (t.written.map Drv.hex)
  s!"|tg={tg}|w={w}|reads={t.reads}|buf={Drv.hex t.buf}|left={t.script.length}"

def parseInts (s : String) : Option (List Int) :=
  if s == "." then some [] else (s.splitOn ",").mapM String.toInt?

def parseNats (s : String) : Option (List Nat) :=
  if s == "." then some [] else (s.splitOn ",").mapM String.toNat?

def showInts (vs : List Int) : String :=
  if vs.isEmpty then "." else ",".intercalate (vs.map toString)

def findLayout (nm : String) : Option Apt.Layout :=
  (Gen.Layouts.aptHdrParams :: Gen.Layouts.aptHdrData :: Gen.Layouts.aptPackets).find? (fun l => l.name == nm)

def mkProto (dev host : Nat) : Apt.Proto :=
  { headerSize := Gen.Layouts.aptHeaderSize, hdrParams := Gen.Layouts.aptHdrParams, hdrData := Gen.Layouts.aptHdrData,
    dataFlag := Gen.Layouts.aptDataFlag, devAddr := dev, hostAddr := host }

def parseOptNat (s : String) : Option (Option Nat) :=
  if s == "N" then some none else s.toNat?.map some

def showOptNat : Option Nat → String
  | none => "N"
  | some n => toString n

def k10 : Apt.K10 := Gen.Layouts.k10

def findK10 (nm : String) : Option Apt.Layout := k10.table.find? (fun l => l.name == nm)

def showEvents (es : List T2.Event) : String :=
  if es.isEmpty then "." else ",".intercalate (es.map fun e => s!"{e.typ}:{e.ts}")

/-- state = the T2 decoder's carried overflow counter -/
def stepLine (c : Nat) (line : String) : Nat × String :=
  match line.splitOn " " with
  | ["ib.enc", d, s, t, r, x] =>
    match d.toNat?, s.toNat?, t.toNat?, r.toNat?, Drv.unhex x with
    | some d, some s, some t, some r, some x =>
      match Interbus.encode ibp ⟨d, s, t, r, x⟩ with
      | .ok w => (c, s!"ok {Drv.hex w}")
      | .error e => (c, ibExc e)
    | _, _, _, _, _ => (c, "bad-op")
  | ["ib.dec", x] =>
    match Drv.unhex x with
    | some w => match Interbus.decode ibp w with
      | .ok m => (c, showMsg m)
      | .error e => (c, ibExc e)
    | none => (c, "bad-op")
  | ["ib.crc", x] =>
    match Drv.unhex x with
    | some w => (c, toString (Interbus.crcOf ibp.crcPoly w))
    | none => (c, "bad-op")
  | ["ib.rr", tg, d, t, r, x, sc] =>
    match tg.toNat?, d.toNat?, t.toNat?, r.toNat?, Drv.unhex x, parseScript sc with
    | some tg, some d, some t, some r, some x, some sc =>
      match Interbus.requestResponse ibp tg d t r x { script := sc } with
      | (.ok m, tg', tr) => (c, showMsg m ++ showTr tg' tr)
      | (.error e, tg', tr) => (c, ibExc e ++ showTr tg' tr)
    | _, _, _, _, _, _ => (c, "bad-op")
  | ["ib.get", tg, d, r, sc] =>
    match tg.toNat?, d.toNat?, r.toNat?, parseScript sc with
    | some tg, some d, some r, some sc =>
      match Interbus.getRegister ibp tg d r { script := sc } with
      | (.ok x, tg', tr) => (c, s!"ok {Drv.hex x}" ++ showTr tg' tr)
      | (.error e, tg', tr) => (c, ibExc e ++ showTr tg' tr)
    | _, _, _, _ => (c, "bad-op")
  | ["ib.set", tg, d, r, x, sc] =>
    match tg.toNat?, d.toNat?, r.toNat?, Drv.unhex x, parseScript sc with
    | some tg, some d, some r, some x, some sc =>
      match Interbus.setRegister ibp tg d r x { script := sc } with
      | (.ok _, tg', tr) => (c, "ok" ++ showTr tg' tr)
      | (.error e, tg', tr) => (c, ibExc e ++ showTr tg' tr)
    | _, _, _, _, _ => (c, "bad-op")
  | ["apt.wp", dev, host, id, p1, p2] =>
    match dev.toNat?, host.toNat?, id.toInt?, p1.toInt?, p2.toInt? with
    | some dev, some host, some id, some p1, some p2 =>
      (c, Drv.hex (Apt.writeParam (mkProto dev host) id p1 p2))
    | _, _, _, _, _ => (c, "bad-op")
  | ["apt.wd", dev, host, id, nm, vs] =>
    match dev.toNat?, host.toNat?, id.toInt?, findLayout nm, parseInts vs with
    | some dev, some host, some id, some l, some vs =>
      (c, Drv.hex (Apt.writeData (mkProto dev host) id (Apt.pack l.cells vs)))
    | _, _, _, _, _ => (c, "bad-op")
  | ["apt.pack", nm, vs] =>
    match findLayout nm, parseInts vs with
    | some l, some vs => (c, Drv.hex (Apt.pack l.cells vs))
    | _, _ => (c, "bad-op")
  | ["apt.ask", dev, host, nm, x] =>
    match dev.toNat?, host.toNat?, findLayout nm, Drv.unhex x with
    | some dev, some host, some l, some buf =>
      match Apt.ask (mkProto dev host) l buf with
      | (.ok vs, b) => (c, s!"ok {showInts vs}|buf={Drv.hex b}")
      | (.error e, b) => (c, aptExc e ++ s!"|buf={Drv.hex b}")
    | _, _, _, _ => (c, "bad-op")
  | ["apt.askt", dev, host, nm, dflt, t, x] =>
    match dev.toNat?, host.toNat?, findLayout nm, parseOptNat dflt, parseOptNat t, Drv.unhex x with
    | some dev, some host, some l, some dflt, some t, some buf =>
      let rd := ",".intercalate ((Apt.askReads (mkProto dev host) l dflt t buf).map fun (n, tm) => s!"{n}:{showOptNat tm}")
      match Apt.ask (mkProto dev host) l buf with
      | (.ok vs, b) => (c, s!"ok {showInts vs}|buf={Drv.hex b}|rd={rd}")
      | (.error e, b) => (c, aptExc e ++ s!"|buf={Drv.hex b}|rd={rd}")
    | _, _, _, _, _, _ => (c, "bad-op")
  | ["k10.read", x] =>
    match Drv.unhex x with
    | some buf =>
      match Apt.k10Read k10 buf with
      | (.ok (mt, vs), b) => (c, s!"ok {mt.name} {showInts vs}|buf={Drv.hex b}")
      | (.error e, b) => (c, aptExc e ++ s!"|buf={Drv.hex b}")
    | none => (c, "bad-op")
  | ["k10.wait", nm, t0, step, tmo, x] =>
    match t0.toNat?, step.toNat?, tmo.toNat?, Drv.unhex x with
    | some t0, some step, some tmo, some buf =>
      let showT (ts : List Nat) := if ts.isEmpty then "." else ",".intercalate (ts.map toString)
      match Apt.k10Wait k10 nm ⟨t0, step⟩ tmo buf with
      | (.ok (mt, vs), b, ts) => (c, s!"ok {mt.name} {showInts vs}|buf={Drv.hex b}|tmo={showT ts}")
      | (.error e, b, ts) => (c, aptExc e ++ s!"|buf={Drv.hex b}|tmo={showT ts}")
    | _, _, _, _ => (c, "bad-op")
  | ["k10.send", m, x] =>
    match Drv.unhex m, Drv.unhex x with
    | some m, some buf =>
      match Apt.k10Send k10 m buf with
      | (none, some w, b) => (c, s!"ok|w={Drv.hex w}|buf={Drv.hex b}")
      | (some e, _, b) => (c, aptExc e ++ s!"|w=.|buf={Drv.hex b}")
      | (none, none, b) => (c, s!"ok|w=.|buf={Drv.hex b}")
    | _, _ => (c, "bad-op")
  | ["k10.create", nm, vs] =>
    match findK10 nm, parseInts vs with
    | some l, some vs => (c, Drv.hex (Apt.k10Create k10 l vs))
    | _, _ => (c, "bad-op")
  | ["t2.reset"] => (0, "ok")
  | ["t2.set", n] => match n.toNat? with
    | some n => if n < T2.word then (n, "ok") else (c, "bad-op")
    | none => (c, "bad-op")
  | ["t2.proc", rs] =>
    match parseNats rs with
    | some rs =>
      let (c', es) := T2.processU64 t2p c rs
      (c', s!"c={c'} ev={showEvents es}")
    | none => (c, "bad-op")
  | ["t3.proc", pp, rr, c0, rs] =>
    match pp.toNat?, rr.toNat?, c0.toNat?, parseNats rs with
    | some pp, some rr, some c0, some rs =>
      let (c', es) := T2.processT3 Gen.Layouts.t3 pp rr c0 rs
      (c, s!"c={c'} ev={showEvents es}")
    | _, _, _, _ => (c, "bad-op")
  | _ => (c, "bad-op")

end C15B

def main : IO Unit := Drv.main' C15B.stepLine 0
