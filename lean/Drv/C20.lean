import QmiModel.Model.Adbasic
import Drv.Common
open QmiModel.Adbasic

/-! Line-protocol driver for C20 (ADbasic parser + AdwinProcess batch accessors).

Strings travel as hex of their UTF-8 bytes (`-` = empty). One answer line per request line. -/

structure St where
  files : Files := []
  syms  : List Sym := []
  bind  : Binding := { param := [], data := [] }
  dev   : Dev := Dev.init
  intArr : List Nat := []     -- Data indices whose array holds integers (`arr <d> i`)

def decStr (h : String) : Option Str := do
  let bs ← Drv.unhex h
  let s ← String.fromUTF8? (ByteArray.mk bs.toArray)
  pure s.toList

def encStr (s : Str) : String := Drv.hex (String.ofList s).toUTF8.toList

def splitComma (s : String) : List String := if s == "-" then [] else s.splitOn ","

def joinComma (l : List String) : String := if l.isEmpty then "-" else ",".intercalate l

def showDesc : Desc → String
  | .par i => s!"P{i}"
  | .fpar i => s!"F{i}"
  | .elem d e => s!"D{d}[{e}]"

def showKind : ErrKind → String
  | .dupCase => "dup-case"
  | .dupIndex => "dup-target"
  | .dupRef => "dup-ref"
  | .unknownArray => "unknown-array"
  | .invalidIndex => "invalid-index"

def showExc : PyExc → String
  | .osError => "exc:OSError"
  | .valueError => "exc:ValueError"
  | .typeError => "exc:TypeError"
  | .keyError => "exc:KeyError"

def showSym (s : Sym) : String := s!"{encStr s.file}:{s.line}:{encStr s.label}:{encStr s.value}"

def sortStrings (l : List String) : List String := (l.toArray.qsort (· < ·)).toList

def decVal (t : String) : Option Val :=
  match t.toList with
  | 'i' :: r => (String.ofList r).toInt?.map Val.int
  | 'f' :: r => (String.ofList r).toInt?.map Val.flt
  | _ => none

def decAssign (t : String) : Option (Str × Val) :=
  match t.splitOn "=" with
  | [n, v] => do
    let n' ← decStr n
    let v' ← decVal v
    pure (n', v')
  | _ => none

def showAccess : Access → String
  | .getPar i => s!"gp{i}"
  | .getFPar i => s!"gf{i}"
  | .getData d f c => s!"gd{d}:{f}:{c}"
  | .setPar i => s!"sp{i}"
  | .setFPar i => s!"sf{i}"
  | .setData d f c => s!"sd{d}:{f}:{c}"

def decReg (t : String) : Option Desc :=
  match t.toList with
  | 'P' :: r => (String.ofList r).toNat?.map Desc.par
  | 'F' :: r => (String.ofList r).toNat?.map Desc.fpar
  | 'D' :: r =>
    match (String.ofList r).splitOn ":" with
    | [d, e] => do
      let d' ← d.toNat?
      let e' ← e.toNat?
      pure (Desc.elem d' e')
    | _ => none
  | _ => none

def showUnit (o : Out Unit) : String :=
  match o.res with
  | .ok _ => "ok"
  | .error x => showExc x

def stepLine (st : St) (line : String) : St × String :=
  match line.splitOn " " with
  | ["reset"] => ({}, "ok")
  | ["file", p, raw] =>
    match decStr p, decStr raw with
    | some p', some r' => ({ st with files := st.files ++ [(p', r')] }, "ok")
    | _, _ => (st, "bad-op")
  | ["scan", p, raw] =>
    match decStr p, decStr raw with
    | some p', some r' =>
      let (syms, incs) := scanFile p' r'
      (st, s!"syms={joinComma (syms.map showSym)} incs={joinComma (incs.map encStr)}")
    | _, _ => (st, "bad-op")
  | ["resolve", a, b, c] =>
    match decStr a, decStr b, decStr c with
    | some a', some b', some c' =>
      match resolveInclude a' b' c' with
      | none => (st, "none")
      | some r => (st, s!"some {encStr r}")
    | _, _, _ => (st, "bad-op")
  | ["parse", fuel, f, d] =>
    match fuel.toNat?, decStr f, decStr d with
    | some n, some f', some d' =>
      match parseProgram n st.files f' d' with
      | .ok syms => ({ st with syms := syms }, s!"ok {syms.length} {joinComma (syms.map showSym)}")
      | .exc e => ({ st with syms := [] }, showExc e)
      | .outOfFuel => ({ st with syms := [] }, "out-of-fuel")
    | _, _, _ => (st, "bad-op")
  | ["symclear"] => ({ st with syms := [] }, "ok")
  | ["sym", f, l, lab, v] =>
    match decStr f, l.toNat?, decStr lab, decStr v with
    | some f', some l', some lab', some v' =>
      ({ st with syms := st.syms ++ [{ file := f', line := l', label := lab', value := v' }] }, "ok")
    | _, _, _, _ => (st, "bad-op")
  | ["analyze"] =>
    match analyze st.syms with
    | .ok b =>
      let ps := sortStrings (b.param.map (fun kv => s!"{encStr kv.1}:{showDesc kv.2}"))
      let ds := sortStrings (b.data.map (fun kv => s!"{encStr kv.1}:{kv.2}"))
      ({ st with bind := b }, s!"ok par={joinComma ps} data={joinComma ds}")
    | .error (.parse e) =>
      ({ st with bind := { param := [], data := [] } },
       s!"exc:ParseException {encStr e.file} {e.line} {showKind e.kind} {encStr e.label} {encStr e.extra}")
  | ["cfg", ps, fs, as] =>
    -- name=idx,... / name=idx,... / name=d:e,...
    let decIdx (t : String) : Option (Str × Nat) :=
      match t.splitOn "=" with
      | [n, i] => do let n' ← decStr n; let i' ← i.toNat?; pure (n', i')
      | _ => none
    let decPair (t : String) : Option (Str × (Nat × Nat)) :=
      match t.splitOn "=" with
      | [n, de] =>
        match de.splitOn ":" with
        | [d, e] => do let n' ← decStr n; let d' ← d.toNat?; let e' ← e.toNat?; pure (n', (d', e'))
        | _ => none
      | _ => none
    match (splitComma ps).mapM decIdx, (splitComma fs).mapM decIdx, (splitComma as).mapM decPair with
    | some p, some f, some a =>
      match fromConfig p f a with
      | .ok b =>
        ({ st with bind := { param := b, data := [] } },
         s!"ok par={joinComma (sortStrings (b.map (fun kv => s!"{encStr kv.1}:{showDesc kv.2}")))}")
      | .error n => ({ st with bind := { param := [], data := [] } }, s!"exc:QMI_ConfigurationException {encStr n}")
    | _, _, _ => (st, "bad-op")
  | ["devinit"] => ({ st with dev := Dev.init, intArr := [] }, "ok")
  | ["arr", d, k] =>
    match d.toNat?, k with
    | some d', "i" => ({ st with intArr := d' :: st.intArr }, "ok")
    | some d', "f" => ({ st with intArr := st.intArr.filter (· != d') }, "ok")
    | _, _ => (st, "bad-op")
  | ["get", n] =>
    match decStr n with
    | some n' =>
      let o := getParC st.bind.param st.dev n'
      ({ st with dev := o.dev }, match o.res with | .ok v => s!"ok {v.num}" | .error x => showExc x)
    | none => (st, "bad-op")
  | ["set", n, v] =>
    match decStr n, decVal v with
    | some n', some v' =>
      let o := setParC st.bind.param (fun d => st.intArr.contains d) st.dev n' v'
      ({ st with dev := o.dev }, showUnit o)
    | _, _ => (st, "bad-op")
  | ["mget", ns] =>
    match (splitComma ns).mapM decStr with
    | some names =>
      let o := getParMultipleC st.bind.param st.dev names
      ({ st with dev := o.dev },
       match o.res with
       | .ok r => s!"ok {joinComma (sortStrings (r.map (fun kv => s!"{encStr kv.1}={kv.2.num}")))}"
       | .error x => showExc x)
    | none => (st, "bad-op")
  | ["mset", as] =>
    match (splitComma as).mapM decAssign with
    | some ps =>
      let o := setParMultipleC st.bind.param (fun d => st.intArr.contains d) st.dev ps
      ({ st with dev := o.dev }, showUnit o)
    | none => (st, "bad-op")
  | ["startwp", as] =>
    match (splitComma as).mapM decAssign with
    | some kw =>
      let o := setParMultipleC st.bind.param (fun d => st.intArr.contains d) st.dev (startParams st.bind.param kw)
      ({ st with dev := o.dev }, showUnit o)
    | none => (st, "bad-op")
  | ["log"] =>
    ({ st with dev := { st.dev with log := [] } }, joinComma (st.dev.log.reverse.map showAccess))
  | ["regs", rs] =>
    match (splitComma rs).mapM decReg with
    | some regs => (st, joinComma (regs.map (fun r => toString (st.dev.readReg r).num)))
    | none => (st, "bad-op")
  | ["ranges", ns] =>
    match (splitComma ns).mapM String.toNat? with
    | some l => (st, joinComma ((findRanges l).map (fun r => s!"{r.1}-{r.2}")))
    | none => (st, "bad-op")
  | _ => (st, "bad-op")

def main : IO Unit := Drv.main' stepLine ({} : St)
