import QmiModel.Model.WakeSys
import QmiModel.Model.WakeEnc
import Drv.Common
import Std.Data.HashMap
/-!
Line-protocol driver for C11 (model: `QmiModel/Model/Wake.lean`, programs: `QmiModel/Gen/SyncProgs.lean`).

    sys <any|loop|sleep|recvn|recvt> <nStop> <pub:0|1> <cap>   -> ok <n>        select a system, restart the trace
    ev <tid> <label>                                          -> ok <n> | no enabled=<labels>   follow one observed operation
    q                                                         -> task=<statuses> fin=<counts> flag=<values> parked=<values>
    check <task> <nStop> <pub> <cap>                          -> states=<n> ok | states=<n> bad=<clause> schedule=<tid:label,...>
    progs                                                     -> sizes of the generated programs

`ev` keeps the *set* of model states compatible with the trace so far (thread-local nondeterminism — data-dependent
branches — is resolved lazily); an operation no compatible state can perform is answered `no`.
-/
open QmiModel.Wake QmiModel.Wake.Systems

def markText : Mark → String
  | .prepare => "p" | .iteration => "i" | .finalize => "f"

def b01 (b : Bool) : String := if b then "1" else "0"

def lblText : Lbl → String
  | .lock l => s!"lock:{l}" | .unlock l => s!"unlock:{l}"
  | .setFlag => "setflag" | .ldFlag v => s!"ldflag:{b01 v}" | .ldWc v => s!"ldwc:{b01 v}" | .stWc b => s!"stwc:{b01 b}"
  | .park => "park" | .reacq n => s!"reacq:{b01 n}" | .notify l => if l == 2 then "notify" else s!"notify:{l}"
  | .evCheck => "evcheck" | .evPark => "evpark" | .evWake b => s!"evwake:{b01 b}"
  | .slPark => "slpark" | .slWake => "slwake"
  | .mark m => s!"mark:{markText m}" | .publish r => (if r == 0 then "publish" else s!"publish:{r}") | .crash => "crash"

def statusText : Status → String
  | .run => "run" | .done => "done" | .raised .stop => "raised:stop" | .raised .timeout => "raised:timeout" | .crashed => "crashed"

def taskFn : String → Option Nat
  | "any" => some fMainAny | "loop" => some fMainLoop | "sleep" => some fMainSleep
  | "recvn" => some fMainRecvN | "recvt" => some fMainRecvT | "idle" => some fMainIdle
  | "loopw" => some fMainLoop | "any2" => some fMainAny2 | "recv2" => some fMainRecv2 | _ => none

def parseSys (t n p c : String) (st : String := "RUNNING") : Option (Sys × Bool) :=
  -- p: 0 = neither, 1 = publisher, 2 = bystander waiter on the same condition, 3 = both
  match taskFn t, n.toNat?, p.toNat?, c.toNat?, QmiModel.Gen.SyncProgs.stateNames.idxOf? st with
  | some f, some ns, some pb, some cap, some ts =>
    if ns ≤ 3 && cap ≤ 3 && pb ≤ 3 then
      some (mk f ns (pb % 2 == 1) cap ts (pb ≥ 2) (t == "loopw") (t == "any2" || t == "recv2"), t == "loop" || t == "loopw")
    else none
  | _, _, _, _, _ => none

def dedup (l : List St) : List St :=
  l.foldl (fun acc s => if acc.any (·.beq s) then acc else s :: acc) []

def uniqStr (l : List String) : String :=
  let u := l.foldl (fun acc s => if acc.contains s then acc else acc ++ [s]) []
  if u.isEmpty then "-" else ",".intercalate u

structure DState where
  sys : Sys
  isLoop : Bool
  cands : List St

/-! ### exhaustive exploration with parent pointers (native speed) -/

structure Node where
  st : St
  parent : Nat
  tid : Nat
  lbl : Lbl

def exitGood (isLoop : Bool) (s : St) : Bool :=
  match taskTh s with
  | some t => if isLoop then (t.status == .done && s.fin == 1) else t.status == .raised .stop
  | none => false

def badClause (sys : Sys) (isLoop : Bool) (s : St) : Option String :=
  if lostWakeup sys s then some "lost-wakeup"
  else if anyCrashed s then some "thread-error"
  else if !stopSetsFlag sys s then some "stop-without-flag"
  else if !noParkAfterStop sys s then some "parks-after-stop"
  else if !(if isLoop then loopExit s else exitOnlyByStop s) then some "wrong-exit"
  else if !releasedB sys (exitGood isLoop) s then some "not-released"
  else if !progress sys s then some "deadlock"
  else none

partial def bfs (sys : Sys) (nodes : Array Node) (index : Std.HashMap Nat (List Nat)) (i : Nat) : Array Node :=
  if h : i < nodes.size then
    let s := nodes[i].st
    let (nodes, index) := (List.range s.ths.length).foldl (fun (acc : Array Node × Std.HashMap Nat (List Nat)) tid =>
      (stepThL sys s tid).foldl (fun (acc : Array Node × Std.HashMap Nat (List Nat)) p =>
        let k := p.2.key
        let ids := acc.2.getD k []
        if ids.any (fun j => match acc.1[j]? with | some n => n.st.beq p.2 | none => false) then acc
        else (acc.1.push ⟨p.2, i, tid, p.1⟩, acc.2.insert k (acc.1.size :: ids))) acc) (nodes, index)
    if nodes.size > 400000 then nodes else bfs sys nodes index (i + 1)
  else nodes

partial def pathTo (nodes : Array Node) (i : Nat) (acc : List String) : List String :=
  match nodes[i]? with
  | none => acc
  | some n => if n.parent == i then acc else pathTo nodes n.parent (s!"{n.tid}:{lblText n.lbl}" :: acc)

def runCheck (sys : Sys) (isLoop : Bool) : String :=
  let is := inits sys
  let nodes0 : Array Node := is.foldl (fun a s => a.push ⟨s, a.size, 0, .crash⟩) #[]
  let index0 : Std.HashMap Nat (List Nat) :=
    (List.range nodes0.size).foldl (fun m j => match nodes0[j]? with | some n => m.insert n.st.key (j :: m.getD n.st.key []) | none => m) {}
  let nodes := bfs sys nodes0 index0 0
  let bad := (List.range nodes.size).findSome? fun j =>
    match nodes[j]? with
    | some n => (badClause sys isLoop n.st).map fun c => (j, c)
    | none => none
  match bad with
  | none => s!"states={nodes.size} ok"
  | some (j, c) => s!"states={nodes.size} bad={c} schedule={",".intercalate (pathTo nodes j [])}"

def stepLine (d : DState) (line : String) : DState × String :=
  match line.splitOn " " with
  | ["sys", t, n, p, c] =>
    match parseSys t n p c with
    | some (sys, isLoop) => let is := inits sys; ({ sys := sys, isLoop := isLoop, cands := is }, s!"ok {is.length}")
    | none => (d, "bad-op")
  | ["sys", t, n, p, c, st] =>
    match parseSys t n p c st with
    | some (sys, isLoop) => let is := inits sys; ({ sys := sys, isLoop := isLoop, cands := is }, s!"ok {is.length}")
    | none => (d, "bad-op")
  | ["ev", tid, lbl] =>
    match tid.toNat? with
    | none => (d, "bad-op")
    | some tid =>
      let all := d.cands.flatMap fun s => stepThL d.sys s tid
      let nxt := dedup ((all.filter fun p => lblText p.1 == lbl).map (·.2))
      if nxt.isEmpty then (d, s!"no enabled={uniqStr (all.map fun p => lblText p.1)}")
      else ({ d with cands := nxt }, s!"ok {nxt.length}")
  | ["q"] =>
    let ts := d.cands.filterMap taskTh
    (d, s!"task={uniqStr (ts.map fun t => statusText t.status)} fin={uniqStr (d.cands.map fun s => toString s.fin)} " ++
        s!"state={uniqStr (d.cands.map fun s => QmiModel.Gen.SyncProgs.stateNames.getD s.tstate "?")} " ++
        s!"flag={uniqStr (d.cands.map fun s => b01 s.flag)} parked={uniqStr (ts.map fun t => b01 t.isParked)}")
  | ["check", t, n, p, c] =>
    match parseSys t n p c with
    | some (sys, isLoop) => (d, runCheck sys isLoop)
    | none => (d, "bad-op")
  | ["check", "idle", n, st] =>
    match n.toNat?, QmiModel.Gen.SyncProgs.stateNames.idxOf? st with
    | some ns, some ts =>
      if ns ≤ 3 then
        let sys := sysEarly ts ns
        let L := (explore sys).toList
        (d, s!"states={L.length} " ++ (if closedB sys (explore sys) && L.all (earlyGood sys ts) then "ok" else "bad=stop-task-in-state"))
      else (d, "bad-op")
    | _, _ => (d, "bad-op")
  | ["cert", t, n, p, c, k] =>
    -- the reachable set as a certificate: k groups of buckets of packed states  (groups `|`, buckets `;`, states `,`)
    match parseSys t n p c, k.toNat? with
    | some (sys, _), some k =>
      if k == 0 then (d, "bad-op") else
      let is := inits sys
      let nodes0 : Array Node := is.foldl (fun a s => a.push ⟨s, a.size, 0, .crash⟩) #[]
      let index0 : Std.HashMap Nat (List Nat) :=
        (List.range nodes0.size).foldl (fun m j => match nodes0[j]? with | some n => m.insert n.st.key (j :: m.getD n.st.key []) | none => m) {}
      let nodes := bfs sys nodes0 index0 0
      let codes := nodes.toList.map fun n => enc n.st
      let roundtrip := nodes.toList.all fun n => (dec (enc n.st)).beq n.st
      let g := (codes.length / (8 * k)) + 1
      let nbk := k * g
      let buckets : Array (List Nat) := codes.foldl (fun a c => a.modify (bucketOf nbk c) (c :: ·)) (Array.replicate nbk [])
      let groups := (List.range k).map fun j => (List.range g).map fun i => buckets.getD (j * g + i) []
      let txt := "|".intercalate (groups.map fun grp => ";".intercalate (grp.map fun b => ",".intercalate (b.map toString)))
      (d, s!"states={codes.length} roundtrip={roundtrip} nbk={nbk} cert={txt}")
    | _, _ => (d, "bad-op")
  | ["progs"] => (d, " ".intercalate (QmiModel.Gen.SyncProgs.funcs.map fun f => s!"{f.code.length}/{f.handlers.length}"))
  | _ => (d, "bad-op")

def main : IO Unit := Drv.main' stepLine { sys := sysAny, isLoop := false, cands := inits sysAny }
