import QmiModel.Model.Pipeline
import Drv.Common
/-!
Driver for C03: replays an event log of the real request path on `QmiModel.Pipeline`.
Requests are written `c k o r` (caller thread, proxy context, object, issue number on that route).

    init                      reset (new scenario)
    thread c / ctx k          declare a caller thread / a context (for the invariant evaluation)
    object o d                object o lives in context d
    start o w                 RpcObjectManager.start created worker thread w for o
    issue c k o r             caller c entered a proxy call
    lookL c k o r             c's own thread looked the handler up          -> ok held inv | ok refused inv
    pushL c k o r             … handle_message: enqueue or "already stopped" -> ok fifo=<fifo o> inv | ok refused inv
    enqR c k o r              c's thread queued the send on k's event loop   -> ok ready=<ready k> inv
    send k c k o r            event loop of k put the request on the wire    -> ok inv
    lookW k d c k o r         event loop of d took it off the wire k->d, handler lookup -> ok held inv | ok refused inv
    pushW d c k o r           … handle_message in the loop thread of d       -> ok fifo=<fifo o> inv | ok refused inv
    pop w o c k r             thread w took the request from o's fifo        -> ok fifo=<fifo o> inv
    enter w o c k r / exit …  observation: thread w is executing request r   -> ok
    finish w o c k r          thread w finished handling the request         -> ok inv
    unreg o / stopmark o / shutdown o / leave w o                            -> ok inv
    reject w o c k r          _reject_remaining_requests took it from the fifo -> ok fifo=<fifo o> inv
    final o                   -> executed=… by=… cur=… rejected=… refused=…

Every event must be *enabled* (`step … = some _`) and name the request the model has at that position; otherwise the
answer is `not-enabled:<why>` and the state is unchanged.  After every state change the pipeline invariant
(`fifo_pipeline`) is evaluated for every declared (caller, context, object) triple: `inv` / `inv-broken`.
-/
open QmiModel.Pipeline

structure DS where
  T  : Topo
  s  : State
  cs : List Nat
  ks : List Nat
  os : List Nat

def DS.empty : DS := { T := { home := fun _ => 0 }, s := init, cs := [], ks := [], os := [] }

def showReqs (l : List Req) : String :=
  if l.isEmpty then "-" else ",".intercalate (l.map fun x => s!"{x.caller}:{x.via}:{x.obj}:{x.id}")

def showNats (l : List Nat) : String :=
  if l.isEmpty then "-" else ",".intercalate (l.map toString)

def invOk (d : DS) : Bool :=
  d.cs.all fun c => d.ks.all fun k => d.os.all fun o =>
    (stages d.T d.s c k o).filter (sel c k o) == issuedBy d.s c k o

def invTag (d : DS) : String := if invOk d then "inv" else "inv-broken"

def nats (ws : List String) : Option (List Nat) := ws.mapM String.toNat?

def addNat (l : List Nat) (n : Nat) : List Nat := if l.contains n then l else l ++ [n]

/-- apply an action; `why` names the guard that failed when it is not enabled -/
def act (d : DS) (a : Act) (why : String) (extra : DS → String) : DS × String :=
  match step d.T d.s a with
  | some s' => let d' := { d with s := s' }; (d', s!"ok{extra d'} {invTag d'}")
  | none => (d, s!"not-enabled:{why}")

/-- after a delivery step: was the request appended to the fifo / held, or refused? -/
def fate (before : DS) (x : Req) (d' : DS) : String :=
  if (d'.s.refused x.obj).length > (before.s.refused x.obj).length then " refused"
  else if (d'.s.fifo x.obj).length > (before.s.fifo x.obj).length then s!" fifo={showReqs (d'.s.fifo x.obj)}"
  else " held"

def stepLine (d : DS) (line : String) : DS × String :=
  match line.splitOn " " with
  | ["init"] => (DS.empty, "ok")
  | ["thread", c] => match c.toNat? with
    | some c => ({ d with cs := addNat d.cs c }, "ok")
    | none => (d, "bad-op")
  | ["ctx", k] => match k.toNat? with
    | some k => ({ d with ks := addNat d.ks k }, "ok")
    | none => (d, "bad-op")
  | ["object", o, h] =>
    match nats [o, h] with
    | some [o, h] => ({ d with T := { home := upd d.T.home o h }, os := addNat d.os o, ks := addNat d.ks h }, "ok")
    | _ => (d, "bad-op")
  | ["start", o, w] =>
    match nats [o, w] with
    | some [o, w] => act d (.start o w) "second-worker" (fun _ => "")
    | _ => (d, "bad-op")
  | ["issue", c, k, o, r] =>
    match nats [c, k, o, r] with
    | some [c, k, o, r] =>
      if (d.s.hand c).isSome || (d.s.heldC c).isSome then (d, "not-enabled:previous-call-still-in-hand")
      else act d (.issue c k o r) "duplicate-request" (fun _ => "")
    | _ => (d, "bad-op")
  | ["lookL", c, k, o, r] =>
    match nats [c, k, o, r] with
    | some [c, k, o, r] =>
      if d.s.hand c != some ⟨c, k, o, r⟩ then (d, "not-enabled:not-in-hand")
      else act d (.lookupLocal c) "route-not-local" (fate d ⟨c, k, o, r⟩)
    | _ => (d, "bad-op")
  | ["pushL", c, k, o, r] =>
    match nats [c, k, o, r] with
    | some [c, k, o, r] =>
      if d.s.heldC c != some ⟨c, k, o, r⟩ then (d, "not-enabled:handler-not-looked-up")
      else act d (.pushLocal c) "nothing-held" (fate d ⟨c, k, o, r⟩)
    | _ => (d, "bad-op")
  | ["enqR", c, k, o, r] =>
    match nats [c, k, o, r] with
    | some [c, k, o, r] =>
      if d.s.hand c != some ⟨c, k, o, r⟩ then (d, "not-enabled:not-in-hand")
      else act d (.enqRemote c) "route-not-remote" (fun d' => s!" ready={showReqs (d'.s.ready k)}")
    | _ => (d, "bad-op")
  | ["send", kk, c, k, o, r] =>
    match nats [kk, c, k, o, r] with
    | some [kk, c, k, o, r] =>
      if (d.s.ready kk).head? != some ⟨c, k, o, r⟩ then (d, "not-enabled:not-head-of-ready-queue")
      else act d (.loopRun kk) "ready-queue-empty" (fun _ => "")
    | _ => (d, "bad-op")
  | ["lookW", kk, dd, c, k, o, r] =>
    match nats [kk, dd, c, k, o, r] with
    | some [kk, dd, c, k, o, r] =>
      if (d.s.wire kk dd).head? != some ⟨c, k, o, r⟩ then (d, "not-enabled:not-head-of-wire")
      else act d (.lookupWire kk dd) "loop-thread-busy" (fate d ⟨c, k, o, r⟩)
    | _ => (d, "bad-op")
  | ["pushW", dd, c, k, o, r] =>
    match nats [dd, c, k, o, r] with
    | some [dd, c, k, o, r] =>
      if d.s.heldL dd != some ⟨c, k, o, r⟩ then (d, "not-enabled:handler-not-looked-up")
      else act d (.pushWire dd) "nothing-held" (fate d ⟨c, k, o, r⟩)
    | _ => (d, "bad-op")
  | ["pop", w, o, c, k, r] =>
    match nats [w, o, c, k, r] with
    | some [w, o, c, k, r] =>
      if d.s.worker o != some w then (d, "not-enabled:not-the-worker")
      else if (d.s.cur o).isSome then (d, "not-enabled:worker-busy")
      else if d.s.shutdown o then (d, "not-enabled:shutdown-requested")
      else if (d.s.fifo o).head? != some ⟨c, k, o, r⟩ then (d, "not-enabled:not-head-of-fifo")
      else act d (.workerPop w o) "fifo-empty" (fun d' => s!" fifo={showReqs (d'.s.fifo o)}")
    | _ => (d, "bad-op")
  | ["reject", w, o, c, k, r] =>
    match nats [w, o, c, k, r] with
    | some [w, o, c, k, r] =>
      if d.s.worker o != some w then (d, "not-enabled:not-the-worker")
      else if !d.s.left o then (d, "not-enabled:worker-still-in-loop")
      else if (d.s.fifo o).head? != some ⟨c, k, o, r⟩ then (d, "not-enabled:not-head-of-fifo")
      else act d (.rejectOne w o) "fifo-empty" (fun d' => s!" fifo={showReqs (d'.s.fifo o)}")
    | _ => (d, "bad-op")
  | [tag, w, o, c, k, r] =>
    match nats [w, o, c, k, r] with
    | some [w, o, c, k, r] =>
      if tag == "enter" || tag == "exit" then
        if d.s.worker o != some w then (d, "not-enabled:not-the-worker")
        else if d.s.cur o != some ⟨c, k, o, r⟩ then (d, "not-enabled:not-the-current-request")
        else (d, "ok")
      else if tag == "finish" then
        if d.s.worker o != some w then (d, "not-enabled:not-the-worker")
        else if d.s.cur o != some ⟨c, k, o, r⟩ then (d, "not-enabled:not-the-current-request")
        else act d (.workerFinish w o) "idle" (fun _ => "")
      else (d, "bad-op")
    | _ => (d, "bad-op")
  | ["unreg", o] => match o.toNat? with
    | some o => act d (.unregister o) "-" (fun _ => "")
    | none => (d, "bad-op")
  | ["stopmark", o] => match o.toNat? with
    | some o => act d (.stopMark o) "-" (fun _ => "")
    | none => (d, "bad-op")
  | ["shutdown", o] => match o.toNat? with
    | some o => act d (.shutdownReq o) "still-running" (fun _ => "")
    | none => (d, "bad-op")
  | ["leave", w, o] =>
    match nats [w, o] with
    | some [w, o] =>
      if d.s.worker o != some w then (d, "not-enabled:not-the-worker")
      else if (d.s.cur o).isSome then (d, "not-enabled:worker-busy")
      else act d (.workerLeave w o) "no-shutdown-requested" (fun _ => "")
    | _ => (d, "bad-op")
  | ["final", o] =>
    match o.toNat? with
    | some o => (d, s!"executed={showReqs (d.s.executed o)} by={showNats (d.s.execBy o)} cur={showReqs (d.s.cur o).toList} rejected={showReqs (d.s.rejected o)} refused={showReqs (d.s.refused o)}")
    | none => (d, "bad-op")
  | _ => (d, "bad-op")

def main : IO Unit := Drv.main' stepLine DS.empty
