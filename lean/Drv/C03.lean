import QmiModel.Model.Pipeline
import Drv.Common
/-!
Driver for C03: replays an event log of the real request path on `QmiModel.Pipeline`.

    init                      reset (new scenario)
    thread c k                caller thread c lives in context k
    object o k                object o lives in context k
    start o w                 RpcObjectManager.start created worker thread w for o
    issue c o r               caller c entered the proxy call (request r for o)
    enqL c o r                c's own thread appended the request to o's fifo            -> ok fifo=<fifo o> inv
    enqR c o r                c's thread queued the send on its context's event loop      -> ok ready=<ready (ctx c)> inv
    send k c o r              event loop of k put the request on the wire                 -> ok inv
    deliver k d c o r         event loop of d took it off the wire k->d, appended to fifo -> ok fifo=<fifo o> inv
    pop w o c r               thread w took the request from o's fifo                     -> ok fifo=<fifo o> inv
    enter w o c r / exit …    observation: thread w is inside the method for request r    -> ok
    finish w o c r            thread w finished handling the request                      -> ok inv
    final o                   -> executed=<executed o> by=<execBy o>

Every event must be *enabled* (`step … = some _`) and name the request the model has at that position; otherwise the
answer is `not-enabled:<why>` and the state is unchanged.  After every state change the pipeline invariant
(`fifo_pipeline`) is evaluated for every declared (caller, object) pair: `inv` / `inv-broken`.
-/
open QmiModel.Pipeline

structure DS where
  T  : Topo
  s  : State
  cs : List Nat
  os : List Nat

def DS.empty : DS := { T := { ctxOf := fun _ => 0, home := fun _ => 0 }, s := init, cs := [], os := [] }

def showReqs (l : List Req) : String :=
  if l.isEmpty then "-" else ",".intercalate (l.map fun x => s!"{x.caller}:{x.obj}:{x.id}")

def showNats (l : List Nat) : String :=
  if l.isEmpty then "-" else ",".intercalate (l.map toString)

def invOk (d : DS) : Bool :=
  d.cs.all fun c => d.os.all fun o => (stages d.T d.s c o).filter (sel c o) == issuedBy d.s c o

def invTag (d : DS) : String := if invOk d then "inv" else "inv-broken"

def nats (ws : List String) : Option (List Nat) := ws.mapM String.toNat?

/-- apply an action; `why` names the guard that failed when it is not enabled -/
def act (d : DS) (a : Act) (why : String) (extra : DS → String) : DS × String :=
  match step d.T d.s a with
  | some s' => let d' := { d with s := s' }; (d', s!"ok{extra d'} {invTag d'}")
  | none => (d, s!"not-enabled:{why}")

def stepLine (d : DS) (line : String) : DS × String :=
  match line.splitOn " " with
  | ["init"] => (DS.empty, "ok")
  | "thread" :: ws =>
    match nats ws with
    | some [c, k] => ({ d with T := { d.T with ctxOf := upd d.T.ctxOf c k }, cs := if d.cs.contains c then d.cs else d.cs ++ [c] }, "ok")
    | _ => (d, "bad-op")
  | "object" :: ws =>
    match nats ws with
    | some [o, k] => ({ d with T := { d.T with home := upd d.T.home o k }, os := if d.os.contains o then d.os else d.os ++ [o] }, "ok")
    | _ => (d, "bad-op")
  | "start" :: ws =>
    match nats ws with
    | some [o, w] => act d (.start o w) "second-worker" (fun _ => "")
    | _ => (d, "bad-op")
  | "issue" :: ws =>
    match nats ws with
    | some [c, o, r] =>
      if (d.s.hand c).isSome then (d, "not-enabled:previous-call-still-in-hand")
      else act d (.issue c o r) "duplicate-request" (fun _ => "")
    | _ => (d, "bad-op")
  | "enqL" :: ws =>
    match nats ws with
    | some [c, o, r] =>
      if d.s.hand c != some ⟨c, o, r⟩ then (d, "not-enabled:not-in-hand")
      else act d (.enqLocal c) "route-not-local" (fun d' => s!" fifo={showReqs (d'.s.fifo o)}")
    | _ => (d, "bad-op")
  | "enqR" :: ws =>
    match nats ws with
    | some [c, o, r] =>
      if d.s.hand c != some ⟨c, o, r⟩ then (d, "not-enabled:not-in-hand")
      else act d (.enqRemote c) "route-not-remote" (fun d' => s!" ready={showReqs (d'.s.ready (d'.T.ctxOf c))}")
    | _ => (d, "bad-op")
  | "send" :: ws =>
    match nats ws with
    | some [k, c, o, r] =>
      if (d.s.ready k).head? != some ⟨c, o, r⟩ then (d, "not-enabled:not-head-of-ready-queue")
      else act d (.loopRun k) "ready-queue-empty" (fun _ => "")
    | _ => (d, "bad-op")
  | "deliver" :: ws =>
    match nats ws with
    | some [k, dd, c, o, r] =>
      if (d.s.wire k dd).head? != some ⟨c, o, r⟩ then (d, "not-enabled:not-head-of-wire")
      else act d (.wireDeliver k dd) "wire-empty" (fun d' => s!" fifo={showReqs (d'.s.fifo o)}")
    | _ => (d, "bad-op")
  | "pop" :: ws =>
    match nats ws with
    | some [w, o, c, r] =>
      if d.s.worker o != some w then (d, "not-enabled:not-the-worker")
      else if (d.s.cur o).isSome then (d, "not-enabled:worker-busy")
      else if (d.s.fifo o).head? != some ⟨c, o, r⟩ then (d, "not-enabled:not-head-of-fifo")
      else act d (.workerPop w o) "fifo-empty" (fun d' => s!" fifo={showReqs (d'.s.fifo o)}")
    | _ => (d, "bad-op")
  | [tag, w, o, c, r] =>
    match nats [w, o, c, r] with
    | some [w, o, c, r] =>
      if tag == "enter" || tag == "exit" then
        if d.s.worker o != some w then (d, "not-enabled:not-the-worker")
        else if d.s.cur o != some ⟨c, o, r⟩ then (d, "not-enabled:not-the-current-request")
        else (d, "ok")
      else if tag == "finish" then
        if d.s.worker o != some w then (d, "not-enabled:not-the-worker")
        else if d.s.cur o != some ⟨c, o, r⟩ then (d, "not-enabled:not-the-current-request")
        else act d (.workerFinish w o) "idle" (fun _ => "")
      else (d, "bad-op")
    | _ => (d, "bad-op")
  | ["final", o] =>
    match o.toNat? with
    | some o => (d, s!"executed={showReqs (d.s.executed o)} by={showNats (d.s.execBy o)} cur={showReqs (d.s.cur o).toList}")
    | none => (d, "bad-op")
  | _ => (d, "bad-op")

def main : IO Unit := Drv.main' stepLine DS.empty
