import QmiModel.Model.Descriptor
import QmiModel.Gen.TransportTables
import Drv.Common
/-!
Line-protocol driver for C14 (transport descriptors).  Strings travel as comma-separated
code points (`-` = empty string).  Values: `s:<str>`, `i:<int>`, `f:<float literal as str>`,
`b:0|1`, `n`.  A defaults item is `<key>;<value>`.

ops
* `ct <win 0|1> <descriptor> <default>*`        → `ok <cls> attr=v|(v1|v2) …` | `exc:<PyType>`
* `pps <iface> <descriptor> <default>*`         → `ok k=v …` (sorted by key) | `exc:<PyType>`
* `parts <descriptor>`                          → `ok <part>*` | `exc:<PyType>`
* `int <base> <str>`                            → `ok <int>` | `exc:ValueError`
* `float <str>`                                 → `ok <float(x) in (1.0, 1.5, 2.0): 0|1>` | `exc:ValueError`
* `host <str>`                                  → `ok` | `exc:<PyType>`          (`_validate_host`)
* `hostname|ip4|ip6 <str>`                      → `true` | `false`
* `fmtres <resource>*`                          → `ok <descriptor>*`             (`_format_resources`)
-/
open QmiModel.Descriptor

namespace Drv.C14

def decStr (t : String) : Option Str :=
  if t == "-" then some []
  else (t.splitOn ",").mapM (fun x =>
    match x.toNat? with
    | some n => if n < 0xd800 || (0xdfff < n && n < 0x110000) then some (Char.ofNat n) else none
    | none => none)

def encStr (s : Str) : String :=
  if s.isEmpty then "-" else ",".intercalate (s.map (fun c => toString c.toNat))

def decVal (t : String) : Option PyVal :=
  if t == "n" then some .none
  else match t.splitOn ":" with
    | ["s", x] => (decStr x).map .str
    | ["f", x] => (decStr x).map .flt
    | ["i", x] => x.toInt?.map .int
    | ["b", "0"] => some (.bool false)
    | ["b", "1"] => some (.bool true)
    | _ => none

/-- decimal below 2^63, hexadecimal above (Python's `str(int)` refuses more than 4300 digits) -/
def encInt (i : Int) : String :=
  if i.natAbs < 2 ^ 63 then toString i
  else (if i < 0 then "-0x" else "0x") ++ String.ofList (toHex i.natAbs)

def encVal : PyVal → String
  | .str s => "s:" ++ encStr s
  | .flt s => "f:" ++ encStr s
  | .int i => "i:" ++ encInt i
  | .bool b => if b then "b:1" else "b:0"
  | .none => "n"

def decDefault (t : String) : Option (Str × PyVal) :=
  match t.splitOn ";" with
  | [k, v] => match decStr k, decVal v with
    | some k, some v => some (k, v)
    | _, _ => none
  | _ => none

def excName : PyExc → String
  | .descriptor => "exc:QMI_TransportDescriptorException"
  | .valueError => "exc:ValueError"
  | .typeError => "exc:TypeError"
  | .attributeError => "exc:AttributeError"

def encItems (l : List (Str × PyVal)) : String :=
  " ".intercalate (l.map (fun kv => String.ofList kv.1 ++ "=" ++ encVal kv.2))

/-- attribute values: a single value, or `(v1|v2)` for a tuple attribute -/
def encAttrs (l : List (Str × List PyVal)) : String :=
  " ".intercalate (l.map (fun kv => String.ofList kv.1 ++ "=" ++
    (match kv.2 with
     | [v] => encVal v
     | vs => "(" ++ "|".intercalate (vs.map encVal) ++ ")")))

def insertKey (x : Str × PyVal) : List (Str × PyVal) → List (Str × PyVal)
  | [] => [x]
  | y :: ys => if strLt x.1 y.1 then x :: y :: ys else y :: insertKey x ys

def sortItems (l : List (Str × PyVal)) : List (Str × PyVal) := l.foldl (fun acc x => insertKey x acc) []

def env : Env := QmiModel.Gen.TransportTables.env

def joinOk (xs : List String) : String := if xs.isEmpty then "ok" else "ok " ++ " ".intercalate xs

def handle (line : String) : String :=
  match line.splitOn " " with
  | "ct" :: w :: d :: defs =>
    (match decStr d, defs.mapM decDefault with
     | some s, some ds =>
       if w != "0" && w != "1" then "bad-op" else
       (match createTransport env (w == "1") s ds with
        | .ok t => joinOk [String.ofList t.cls, encAttrs t.attrs]
        | .err e => excName e)
     | _, _ => "bad-op")
  | "pps" :: name :: d :: defs =>
    (match env.ifaces.find? (fun I => String.ofList I.name == name), decStr d, defs.mapM decDefault with
     | some I, some s, some ds =>
       (match parseParameterStrings I s ds with
        | .ok p => joinOk [encItems (sortItems p)]
        | .err e => excName e)
     | _, _, _ => "bad-op")
  | ["parts", d] =>
    (match decStr d with
     | some s => (match parseParts s with
        | .ok ps => joinOk (ps.map encStr)
        | .err e => excName e)
     | none => "bad-op")
  | ["int", b, x] =>
    (match b.toNat?, decStr x with
     | some b, some s => (match pyInt b s with
        | some i => "ok " ++ encInt i
        | none => "exc:ValueError")
     | _, _ => "bad-op")
  | ["float", x] =>
    (match decStr x with
     | some s => (match floatParse s with
        | some f => if floatIsStopbits f then "ok 1" else "ok 0"
        | none => "exc:ValueError")
     | none => "bad-op")
  | ["host", x] =>
    (match decStr x with
     | some s => (match validateHost s with | .ok _ => "ok" | .err e => excName e)
     | none => "bad-op")
  | ["hostname", x] =>
    (match decStr x with
     | some s => toString (isValidHostname s)
     | none => "bad-op")
  | ["ip4", x] => (match decStr x with | some s => toString (isIp4 s) | none => "bad-op")
  | ["ip6", x] => (match decStr x with | some s => toString (isIp6 s) | none => "bad-op")
  | "fmtres" :: rs =>
    (match rs.mapM decStr with
     | some l => joinOk ((formatResources l).map encStr)
     | none => "bad-op")
  | _ => "bad-op"

end Drv.C14

def main : IO Unit := Drv.main' (fun (s : Unit) l => (s, Drv.C14.handle l)) ()
