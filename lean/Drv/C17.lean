import QmiModel.Model.TextAttr
import QmiModel.Model.TextLayout
import QmiModel.Model.Store
import QmiModel.Model.Recorder
import QmiModel.Model.Hdf5Map
import QmiModel.Model.DataSetApi
import Drv.Common
/-!
Line-protocol driver for the C17 models.  Strings travel as comma-separated code points, `-` for the
empty string, `~` for Python `None`.  One output line per input line; `bad-op` on anything malformed.

  a repr s <cps> <printable flags 0/1 per char, or ->   -> cps of repr(str)
  a repr i <int> | a repr f <lit> | a repr b <0|1>
  a parse <cps>                                           -> str:<cps> | int:<i> | bool:<0|1> | float:<cps> | exc:<T>
  l write <dims,> <ncol> <scale flags per axis 0/1>       -> tags;row|row|…   (cells: index n, data 1000000+k, scale 2000000+10000*ax+i)
  l read <dims,> <ncol> <tags,|-> <row|row|…>             -> ok <data,>;<scale or ~ per axis, '/' separated> | err:<kind>
  f init | f write <name> <h|t|o> <ow> <fail cause 0..3> <content> | f read <name> | f ls
  d new <shape,> | d scale <axis> <len> <finite> | d axis <axis> | d col <col>    (DataSet constructor / setters)
  x f64 <n> | x refuses <n,n,…>                           (text writer's exactness check)
  s init | s addfile <date> | s addchild <date> <name> <isdir> | s mk <label> <hasTs> <date|~> <time|~> <ddate> <dtime>
        | s latest <label> <date|~> | s list <label|~> | s ls
  h <naxes> <ncol> <ts> <labels…>                         (see `hLine`)
  r init | r rec <d> <v,v,…|-> | r attr <d> <k> <v> | r mut | r shutdown | r swap | r flush | r crash | r close | r file
-/
open QmiModel.C17

namespace DrvC17

def parseCps (s : String) : Option Str :=
  if s == "-" then some [] else
  (s.splitOn ",").foldr (fun t acc => match t.toNat?, acc with
    | some n, some l => some (n :: l)
    | _, _ => none) (some [])

def showCps (s : Str) : String :=
  if s.isEmpty then "-" else ",".intercalate (s.map toString)

def parseOptCps (s : String) : Option (Option Str) :=
  if s == "~" then some none else (parseCps s).map some

def parseBool (s : String) : Option Bool :=
  if s == "1" then some true else if s == "0" then some false else none

def excStr (e : PyExc) : String := "exc:" ++ e.name

/-! ### attributes -/

def mkPr (s : Str) (flags : String) : Option (Nat → Bool) :=
  let fl := if flags == "-" then [] else flags.toList
  if fl.length ≠ s.length || !fl.all (fun c => c == '0' || c == '1') then none else
  let tbl := s.zip fl
  some (fun c => match tbl.find? (fun e => e.1 = c) with
    | some e => e.2 == '1'
    | none => false)

def showVal : Except PyExc AttrVal → String
  | .ok (.str s) => "str:" ++ showCps s
  | .ok (.int i) => "int:" ++ toString i
  | .ok (.bool b) => "bool:" ++ (if b then "1" else "0")
  | .ok (.float l) => "float:" ++ showCps l
  | .error e => excStr e

def attrLine : List String → String
  | ["repr", "s", cps, flags] =>
    match parseCps cps with
    | some s => match mkPr s flags with
      | some pr => showCps (pyRepr pr (.str s))
      | none => "bad-op"
    | none => "bad-op"
  | ["repr", "i", n] => match n.toInt? with
    | some i => showCps (pyRepr (fun _ => true) (.int i))
    | none => "bad-op"
  | ["repr", "f", l] => match parseCps l with
    | some s => showCps (pyRepr (fun _ => true) (.float s))
    | none => "bad-op"
  | ["repr", "b", b] => match parseBool b with
    | some v => showCps (pyRepr (fun _ => true) (.bool v))
    | none => "bad-op"
  | ["parse", cps] => match parseCps cps with
    | some s => showVal (parseAttr s)
    | none => "bad-op"
  | _ => "bad-op"

/-! ### layout -/

def parseNats (s : String) : Option (List Nat) :=
  if s == "-" then some [] else
  (s.splitOn ",").foldr (fun t acc => match t.toNat?, acc with
    | some n, some l => some (n :: l)
    | _, _ => none) (some [])

def showTag : ColTag → String
  | .index ax => "I" ++ toString ax
  | .scale ax => "S" ++ toString ax

def parseTag (s : String) : Option ColTag :=
  match s.toList with
  | 'I' :: r => (String.ofList r).toNat?.map ColTag.index
  | 'S' :: r => (String.ofList r).toNat?.map ColTag.scale
  | _ => none

def showRows (rows : List (List Nat)) : String :=
  "|".intercalate (rows.map (fun r => " ".intercalate (r.map toString)))

def layoutLine : List String → String
  | ["write", dims, ncol, flags] =>
    match parseNats dims, ncol.toNat? with
    | some ds, some nc =>
      let fl := flags.toList
      if fl.length ≠ ds.length || ds.isEmpty then "bad-op" else
      let scales := (List.range ds.length).map (fun ax =>
        if fl.getD ax '0' == '1' then some ((List.range (ds.getD ax 0)).map (fun i => 2000000 + 10000 * ax + i)) else none)
      let d : Layout Nat := { dims := ds, ncol := nc, data := (List.range (prod ds * nc)).map (· + 1000000), scales := scales }
      let m := writeLayout (fun n => n) d
      (if m.tags.isEmpty then "-" else ",".intercalate (m.tags.map showTag)) ++ ";" ++ showRows m.rows
    | _, _ => "bad-op"
  | ["read", dims, ncol, tags, rows] =>
    match parseNats dims, ncol.toNat? with
    | some ds, some nc =>
      let tg := if tags == "-" then some [] else
        (tags.splitOn ",").foldr (fun t acc => match parseTag t, acc with
          | some x, some l => some (x :: l)
          | _, _ => none) (some [])
      let rs := (rows.splitOn "|").foldr (fun r acc =>
        match ((r.splitOn "_").foldr (fun t a => match t.toNat?, a with
            | some n, some l => some (n :: l)
            | _, _ => none) (some [])), acc with
        | some x, some l => some (x :: l)
        | _, _ => none) (some [])
      match tg, rs with
      | some tg, some rs =>
        match readLayout (fun n => n) ds nc { tags := tg, rows := rs } with
        | .ok d => "ok " ++ (if d.data.isEmpty then "-" else ",".intercalate (d.data.map toString)) ++ ";" ++
            "/".intercalate (d.scales.map (fun s => match s with
              | some l => if l.isEmpty then "-" else ",".intercalate (l.map toString)
              | none => "~"))
        | .error .rows => "err:rows"
        | .error .cols => "err:cols"
        | .error (.index ax) => "err:index" ++ toString ax
        | .error (.scale ax) => "err:scale" ++ toString ax
      | _, _ => "bad-op"
    | _, _ => "bad-op"
  | _ => "bad-op"

/-! ### store -/

def showFolder (fs : Folder) : String :=
  let l := (fs.map (fun e => showCps e.1 ++ "=" ++ toString e.2)).toArray.qsort (· < ·) |>.toList
  if l.isEmpty then "-" else ";".intercalate l

def showDStore (st : DStore) : String :=
  let l := (st.map (fun e => showCps e.1 ++ ":" ++ (match e.2 with
    | none => "file"
    | some ch => "[" ++ ";".intercalate ((ch.map (fun c => showCps c.1 ++ (if c.2 then "/" else ""))).toArray.qsort (· < ·) |>.toList) ++ "]"))).toArray.qsort (· < ·) |>.toList
  if l.isEmpty then "-" else " ".intercalate l

/-! ### recorder -/

structure RecDrv where
  s : RecSt
  ds : List Nat      -- dataset ids seen
  ks : List Nat      -- attribute ids seen

def insSorted (x : Nat) : List Nat → List Nat
  | [] => [x]
  | y :: ys => if x = y then y :: ys else if x < y then x :: y :: ys else y :: insSorted x ys

def showBlocks (bs : Blocks) : String := "|".intercalate (bs.map (fun b => ".".intercalate (b.map toString)))

def showBlockMap (ds : List Nat) (m : Nat → Blocks) : String :=
  ";".intercalate ((ds.filter (fun d => m d ≠ [])).map (fun d => toString d ++ ":" ++ showBlocks (m d)))

def showAttrs (ks : List Nat) (a : Attrs) : String :=
  ",".intercalate (ks.filterMap (fun k => (a k).map (fun v => toString k ++ "=" ++ toString v)))

def showAttrMap (ds ks : List Nat) (m : Nat → Option Attrs) : String :=
  ";".intercalate (ds.filterMap (fun d => (m d).map (fun a => toString d ++ ":" ++ showAttrs ks a)))

def showRec (r : RecDrv) : String :=
  "S{" ++ showBlockMap r.ds r.s.shared ++ "} K" ++ toString r.s.keys.length ++
  " A{" ++ showAttrMap r.ds r.ks r.s.sattrs ++ "} L{" ++ showBlockMap r.ds r.s.loc ++
  "} N{" ++ showAttrMap r.ds r.ks r.s.newA ++ "} P{" ++ showAttrMap r.ds r.ks r.s.pendA ++
  "} sd" ++ (if r.s.shutdown then "1" else "0") ++ " q" ++ (if r.s.quit then "1" else "0") ++
  " " ++ (match r.s.pc with | .idle => "idle" | .flushing => "flushing" | .done => "done" | .failed => "failed")

def showFile (r : RecDrv) : String :=
  let l := (r.ds.filter (fun d => r.s.file d ≠ [])).map (fun d =>
    toString d ++ ":" ++ ".".intercalate ((r.s.file d).map toString) ++ "[" ++ showAttrs r.ks (r.s.fattrs d) ++ "]")
  if l.isEmpty then "-" else ";".intercalate l

def recAct (r : RecDrv) (a : RecAct) : RecDrv × String :=
  match recStep r.s a with
  | some s' => let r' := { r with s := s' }; (r', showRec r')
  | none => (r, "not-enabled")

structure St where
  folder : Folder := []
  dstore : DStore := []
  rc : RecDrv := { s := RecSt.init, ds := [], ks := [] }
  serial : Nat := 0
  api : Option DSApi := none

def storeMk (st : St) (label hasTs date time dd dt : String) : St × String :=
  match parseCps label, parseBool hasTs, parseOptCps date, parseOptCps time, parseCps dd, parseCps dt with
  | some l, some ts, some d, some t, some ddv, some dtv =>
    let (s', r) := makeFolder st.dstore { label := l, hasTs := ts, date := d, time := t, derived := (ddv, dtv) }
    ({ st with dstore := s' }, match r with
      | .ok (a, b) => "ok:" ++ showCps a ++ "/" ++ showCps b
      | .error e => excStr e)
  | _, _, _, _, _, _ => (st, "bad-op")

def hLine (args : List String) : String :=
  -- h <naxes> <ncol> <ts> <axisLabels ;-separated> <axisUnits> <colLabels> <colUnits> <scales 0/1 flags> <custom k=v;…, v = s<cps> | n<nat>>
  match args with
  | [na, nc, ts, al, au, cl, cu, sc, cust] =>
    let strs (s : String) : Option (List Str) :=
      if s == "~" then some [] else
      (s.splitOn ";").foldr (fun t acc => match parseCps t, acc with
        | some x, some l => some (x :: l)
        | _, _ => none) (some [])
    let cvals : Option (List (Str × HVal)) :=
      if cust == "~" then some [] else
      (cust.splitOn ";").foldr (fun t acc =>
        match t.splitOn "=", acc with
        | [k, v], some l =>
          (match parseCps k, v.toList with
           | some kk, 's' :: r => (parseCps (String.ofList r)).map (fun x => (kk, HVal.s x) :: l)
           | some kk, 'n' :: r => ((String.ofList r).toNat?).map (fun x => (kk, HVal.n x) :: l)
           | _, _ => none)
        | _, _ => none) (some [])
    match na.toNat?, nc.toNat?, ts.toNat?, strs al, strs au, strs cl, strs cu, cvals with
    | some naxes, some ncol, some tsv, some alv, some auv, some clv, some cuv, some cv =>
      let scv := sc.toList.map (fun c => if c == '1' then some 1 else none)
      let d : DSMeta := { name := [100], ts := .n tsv, axisLabel := alv, axisUnit := auv, colLabel := clv, colUnit := cuv,
                          scales := (List.range naxes).map (fun i => (scv.getD i none).map (fun _ => i)), attrs := cv }
      match writeH d naxes ncol [116] with
      | .error e => "W:" ++ excStr e
      | .ok h5 =>
        let keys := (h5.attrs.map (fun e => showCps e.1 ++ "=" ++ (match e.2 with | .s v => "s" ++ showCps v | .n v => "n" ++ toString v))).toArray.qsort (· < ·) |>.toList
        let rd := match readH h5 naxes ncol with
          | .error e => "R:" ++ excStr e
          | .ok d' => if d' = { d with attrs := d'.attrs } &&
                         (d.attrs.all (fun e => HAttrs.get d'.attrs e.1 = some e.2)) && d'.attrs.length = d.attrs.length
                      then "same" else "differs"
        " ".intercalate keys ++ " # " ++ rd
    | _, _, _, _, _, _, _, _ => "bad-op"
  | _ => "bad-op"

def stepLine (st : St) (line : String) : St × String :=
  match line.splitOn " " with
  | "a" :: rest => (st, attrLine rest)
  | "l" :: rest => (st, layoutLine rest)
  | "h" :: rest => (st, hLine rest)
  | ["f", "init"] => ({ st with folder := [] }, "ok")
  | ["f", "write", name, fmt, ow, fail, content] =>
    let cause : Option FailCause := if fail == "0" then some .none else if fail == "1" then some .reservedName
      else if fail == "2" then some .lineBreakName else if fail == "3" then some .inexactInt else none
    match parseCps name, parseBool ow, cause, content.toNat? with
    | some n, some o, some cz, some c =>
      let f := if fmt == "h" then some Fmt.hdf5 else if fmt == "t" then some Fmt.text else if fmt == "o" then some Fmt.other else none
      match f with
      | some f =>
        let (fs', r) := writeDataset st.folder { name := n, fmt := f, overwrite := o, writerFails := writerRaises f cz, content := c }
        ({ st with folder := fs' }, match r with | .ok _ => "ok" | .error e => excStr e)
      | none => (st, "bad-op")
    | _, _, _, _ => (st, "bad-op")
  | ["f", "read", name] =>
    match parseCps name with
    | some n => (st, match readDataset st.folder n with | .ok c => "ok:" ++ toString c | .error e => excStr e)
    | none => (st, "bad-op")
  | ["f", "ls"] => (st, showFolder st.folder)
  | ["s", "init"] => ({ st with dstore := [] }, "ok")
  | ["s", "addfile", d] =>
    match parseCps d with
    | some dv => ({ st with dstore := st.dstore.put dv none }, "ok")
    | none => (st, "bad-op")
  | ["s", "addchild", d, n, isdir] =>
    match parseCps d, parseCps n, parseBool isdir with
    | some dv, some nv, some b =>
      let ch := match st.dstore.get dv with
        | some (some ch) => ch
        | _ => []
      ({ st with dstore := st.dstore.put dv (some (ch ++ [(nv, b)])) }, "ok")
    | _, _, _ => (st, "bad-op")
  | ["s", "mk", label, hasTs, date, time, dd, dt] => storeMk st label hasTs date time dd dt
  | ["s", "latest", label, date] =>
    match parseCps label, parseOptCps date with
    | some l, some d =>
      (st, match findLatest st.dstore l d with
        | .ok (some (a, b, c)) => "ok:" ++ showCps a ++ "/" ++ showCps b ++ "/" ++ showCps c
        | .ok none => "none"
        | .error e => excStr e)
    | _, _ => (st, "bad-op")
  | ["s", "list", label] =>
    match parseOptCps label with
    | some l =>
      (st, match listFolders st.dstore l with
        | .ok fs => if fs.isEmpty then "-" else ";".intercalate (fs.map (fun (a, b, c) => showCps a ++ "/" ++ showCps b ++ "/" ++ showCps c))
        | .error e => excStr e)
    | none => (st, "bad-op")
  | ["x", "f64", n] => (st, match n.toNat? with | some v => toString (toF64 v) | none => "bad-op")
  | ["x", "refuses", vals] => (st, match parseNats vals with | some vs => (if refusesInts vs then "1" else "0") | none => "bad-op")
  | ["d", "new", shape] =>
    let sh := if shape == "-" then some [] else (shape.splitOn ",").foldr (fun t acc => match t.toInt?, acc with
      | some n, some l => some (n :: l)
      | _, _ => none) (some [])
    (match sh with
     | some sh =>
       match DSApi.new sh with
       | .ok d => ({ st with api := some d }, "ok " ++ ",".intercalate (d.dims.map toString) ++ ";" ++ toString d.ncol)
       | .error e => ({ st with api := none }, excStr e)
     | none => (st, "bad-op"))
  | ["d", "scale", axis, len, fin] =>
    (match st.api, axis.toInt?, len.toNat?, parseBool fin with
     | some d, some a, some n, some f =>
       match d.setScale a n f with
       | .ok d' => ({ st with api := some d' }, "ok " ++ ",".intercalate (d'.scales.map (fun x => match x with | some k => toString k | none => "~")))
       | .error e => (st, excStr e)
     | _, _, _, _ => (st, "bad-op"))
  | ["d", "axis", axis] =>
    (match st.api, axis.toInt? with
     | some d, some a => (st, if d.axisIndexOk a then "ok" else excStr .valueError)
     | _, _ => (st, "bad-op"))
  | ["d", "col", col] =>
    (match st.api, col.toInt? with
     | some d, some c => (st, if d.colIndexOk c then "ok" else excStr .valueError)
     | _, _ => (st, "bad-op"))
  | ["s", "ls"] => (st, showDStore st.dstore)
  | ["r", "init"] => ({ st with rc := { s := RecSt.init, ds := [], ks := [] } }, "ok")
  | ["r", "rec", d, vals] =>
    match d.toNat?, parseNats vals with
    | some dv, some vs =>
      let r := { st.rc with ds := insSorted dv st.rc.ds }
      let (r', o) := recAct r (.record dv vs)
      ({ st with rc := r' }, o)
    | _, _ => (st, "bad-op")
  | ["r", "attr", d, k, v] =>
    match d.toNat?, k.toNat?, v.toNat? with
    | some dv, some kv, some vv =>
      let r := { st.rc with ds := insSorted dv st.rc.ds, ks := insSorted kv st.rc.ks }
      let (r', o) := recAct r (.setAttr dv kv vv)
      ({ st with rc := r' }, o)
    | _, _, _ => (st, "bad-op")
  | ["r", "shutdown"] => let (r', o) := recAct st.rc .shutdown; ({ st with rc := r' }, o)
  | ["r", "shutdown!"] =>   -- flag set while the writer is inside its critical section: intermediate state not compared
    let (r', o) := recAct st.rc .shutdown; ({ st with rc := r' }, if o == "not-enabled" then o else "ok")
  | ["r", "swap"] => let (r', o) := recAct st.rc .swap; ({ st with rc := r' }, o)
  | ["r", "flush"] => let (r', o) := recAct st.rc .flush; ({ st with rc := r' }, o)
  | ["r", "mut"] => (st, showRec st.rc)   -- the client overwrites a buffer it had passed to record(): no recorder action
  | ["r", "mut!"] => (st, "ok")            -- … while the writer is inside its critical section (intermediate state not compared)
  | ["r", "crash"] => let (r', o) := recAct st.rc .crash; ({ st with rc := r' }, o)
  | ["r", "close"] => (st, match closeResult st.rc.s with
      | some .ok => "ok"
      | some .runtimeError => "exc:QMI_RuntimeException"
      | none => "not-finished")
  | ["r", "file"] => (st, showFile st.rc)
  | _ => (st, "bad-op")

end DrvC17

def main : IO Unit := Drv.main' DrvC17.stepLine {}
