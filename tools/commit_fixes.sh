#!/bin/bash
# Commit every drafted repair in /verif/fixes as its own "fix:" commit in /repo (minimal, unguarded).
set -e
cd /repo
for d in /verif/fixes/*.diff; do
  m="${d%.diff}.msg"
  if grep -qi "NOTE for the integrator\|cannot be committed" "$m"; then echo "HOLD (flagged by its author, review first): $(basename $d)"; continue; fi
  if git apply --check "$d" 2>/dev/null; then
    git apply "$d"
    git add -A
    git -c user.name=builder -c user.email=builder@example.invalid commit -q -F "$m"
    echo "committed $(basename $d) -> $(git rev-parse --short HEAD)"
  else
    echo "SKIP (does not apply / already applied): $(basename $d)"
  fi
done
