#!/usr/bin/env python3
"""tools/entry_from_report.py <agent transcript .output> [Cxx] — take the last ```python block of the agent's final message,
evaluate it as a manifest_table entry and store it with tools/add_entry.py."""
import ast, json, re, subprocess, sys
path = sys.argv[1]
last = None
for line in open(path, errors="replace"):
    try:
        o = json.loads(line)
    except Exception:
        continue
    msg = o.get("message") or {}
    if msg.get("role") == "assistant":
        for c in msg.get("content", []) if isinstance(msg.get("content"), list) else []:
            if c.get("type") == "text" and "```" in c.get("text", ""):
                last = c["text"]
blocks = re.findall(r"```(?:python)?\n(.*?)```", last or "", re.S)
src = blocks[-1].strip().rstrip(",")
try:
    d = ast.literal_eval("{" + src + "}")
except Exception:
    d = ast.literal_eval(src if src.startswith("{") else "{" + src + "}")
if len(d) == 1 and isinstance(next(iter(d.values())), dict):
    pid, e = next(iter(d.items()))
else:
    pid, e = sys.argv[2], d
if len(sys.argv) > 2:
    pid = sys.argv[2]
print(pid, list(e.keys()), len(e["text"]))
print(subprocess.run(["python3", "/verif/tools/add_entry.py", pid], input=json.dumps({k: e[k] for k in ("text", "note", "technique")}), text=True, capture_output=True).stdout)
