#!/usr/bin/env python3
"""Print the seeded-change catch matrix (markdown) from seeded/*/meta.json."""
import json, glob, os
rows = []
for d in sorted(glob.glob("/verif/seeded/*/")):
    m = json.load(open(d + "meta.json"))
    v = m.get("validated_by_integrator", {})
    chk = v.get("check", {})
    sig = chk.get("signatures", [])
    s0 = sig[0] if sig else ""
    if isinstance(s0, list):
        s0 = ",".join(s0)
    later = ""
    for key in ("after_strengthening", "on_repaired_tree", "final_tree"):
        if "caught_by_check_" + key in m:
            a = m[key].get("check", {})
            sg = a.get("signatures", [])
            sg0 = sg[0] if sg else ""
            if isinstance(sg0, list):
                sg0 = ",".join(sg0)
            later += f"{key}: {m['caught_by_check_' + key]}" + (f" ({str(sg0)[:50]})" if sg0 else "") + "; "
    rows.append((os.path.basename(d.rstrip("/")), (m.get("summary") or "")[:110].replace("|", "/"),
                 f"{v.get('demo_pristine', ['?'])[0]}→{v.get('demo_patched', ['?'])[0]}", m.get("caught_by_check", "?"), str(s0)[:70], later))
print("| seed | change | demo (pristine→patched) | first run of its check | first signature | later runs |")
print("|---|---|---|---|---|---|")
for r in rows:
    print("| " + " | ".join(r) + " |")
