#!/usr/bin/env python3
"""Print the seeded-change catch matrix (markdown) from seeded/*/meta.json."""
import json, glob, os
rows = []
for d in sorted(glob.glob("/verif/seeded/*/")):
    m = json.load(open(d + "meta.json"))
    v = m.get("validated_by_integrator", {})
    chk = v.get("check", {})
    sig = chk.get("signatures", [])
    s0 = sig[0] if sig else ""
    if isinstance(s0, list):
        s0 = ",".join(s0)
    rows.append((os.path.basename(d.rstrip("/")), (m.get("summary") or "")[:110].replace("|", "/"),
                 f"{v.get('demo_pristine', ['?'])[0]}→{v.get('demo_patched', ['?'])[0]}", m.get("caught_by_check", "?"), str(s0)[:70]))
print("| seed | change | demo (pristine→patched) | caught by its check | first signature |")
print("|---|---|---|---|---|")
for r in rows:
    print("| " + " | ".join(r) + " |")
