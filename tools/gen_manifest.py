#!/venv/bin/python
"""Regenerate MANIFEST.json from the table below (keeps it valid against /root/.vp/MANIFEST.schema.json)."""
import json, os, sys
HERE = os.path.dirname(os.path.dirname(os.path.abspath(__file__)))
sys.path.insert(0, HERE)
from tools.manifest_table import CHECKS, NOT_YET, NOTES

BASELINE = "cd /repo && env -u QMI_VERIF /venv/bin/python -m pytest -ra -q -p no:cacheprovider --timeout=900 --continue-on-collection-errors"

props = [json.loads(l) for l in open(os.path.join(HERE, "properties.jsonl"))]
ids = [p["id"] for p in props]
checks = []
for pid in ids:
    if pid not in CHECKS:
        continue
    c = CHECKS[pid]
    checks.append({
        "property_id": pid,
        "quick_cmd": f"./check {pid} --tier quick",
        "thorough_cmd": f"./check {pid} --tier thorough",
        "evidence_file": f"evidence/{pid}.json",
        "replay_cmd_template": f"./check {pid} --replay {{path}}",
        "engine": "lean4-proof+correspondence",
        "level_claimed": {"category": c.get("category", "proof"), "text": c["text"], "design_ref": f"DESIGN.md §5 {pid}"},
        "level_note": c["note"],
        "technique": c["technique"],
    })
na = [{"property_id": pid, "reason": NOT_YET.get(pid, "check not built yet in this round; see DESIGN.md §5 for the planned model and theorems")}
      for pid in ids if pid not in CHECKS]
m = {
    "version": 1,
    "setup_cmd": "./tools/setup.py",
    "hooks": {
        "guard": "QMI_VERIF",
        "enable": "QMI_VERIF=1 is set by ./check for the harness only; no hook commits exist in /repo (instrumentation is injected from outside by wrapping module attributes)",
        "baseline_off_cmd": BASELINE,
        "source_commits": [],
        "add_only": True,
    },
    "engines": [{
        "name": "lean4-proof+correspondence",
        "path": "lean/ (models, theorems, drivers) + harness/ (translators, correspondence, oracles) + check",
        "serves_properties": [c["property_id"] for c in checks],
        "kind_free_text": "Lean 4 theorems about executable models; models tied to /repo on every run by translators (Gen/*.lean regenerated) and/or differential correspondence through a line-protocol driver; failing-input search on the real code when a link breaks",
    }],
    "checks": checks,
    "notes": NOTES,
    "not_applicable": na,
}
json.dump(m, open(os.path.join(HERE, "MANIFEST.json"), "w"), indent=1)
import jsonschema
jsonschema.validate(m, json.load(open("/root/.vp/MANIFEST.schema.json")))
print("MANIFEST.json written:", len(checks), "checks,", len(na), "not claimed")
