"""Per-property claims that go into MANIFEST.json (tools/gen_manifest.py)."""

NOTES = ("Every check: (1) regenerates any Gen/*.lean from /repo, (2) lake-builds the property's theorems and model driver, "
         "(3) audits #print axioms ⊆ {propext, Classical.choice, Quot.sound} and greps for sorry/native_decide/axiom, "
         "(4) runs the model driver and the real QMI code on the same generated inputs and diffs, evaluating the property oracle on "
         "every implementation trace, (5) on a broken link searches the implementation for a failing input. See DESIGN.md.")

NOT_YET = {}

CHECKS = {
    "C09": {
        "text": "Lean theorems (induction over all op sequences, all capacities ≥ 1, both policies): len_le_cap, queue_sorted, "
                "seq_strict_mono_out, accounting (permutation of range next), gap_is_lost/gap_count, policy_old/new, getNext_total. "
                "Model tied to QMI_SignalReceiver by op-sequence differential runs (20k scenarios quick) plus a direct oracle.",
        "note": "Trusted: Lean kernel + 3 standard axioms; correspondence harness and its generator; deque(maxlen) and "
                "threading.Condition are modelled/exercised, not verified. Blocking get_next_signal is exercised with real threads only.",
        "technique": "Lean 4 proof (inductive invariant over op sequences) + differential correspondence with the real class",
    },
}
