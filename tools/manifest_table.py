"""Per-property claims that go into MANIFEST.json (tools/gen_manifest.py)."""

NOTES = ("Every check: (1) regenerates any Gen/*.lean from /repo, (2) lake-builds the property's theorems and model driver, "
         "(3) audits #print axioms ⊆ {propext, Classical.choice, Quot.sound} and greps for sorry/native_decide/axiom, "
         "(4) runs the model driver and the real QMI code on the same generated inputs and diffs, evaluating the property oracle on "
         "every implementation trace, (5) on a broken link searches the implementation for a failing input. See DESIGN.md.")

NOT_YET = {}

CHECKS = {'C01': {'text': 'Lean theorems about an interleaving transition system of the RPC call life cycle (one object, one peer connection, unboundedly '
                 'many calls/callers; removal / stop of either context / disconnect / serialisation faults at any point): at_most_once, own_outcome '
                 '(every configuration); calls_complete — FULL statement for the configuration of the current source: whenever the system is at rest '
                 "every issued call has its outcome, except the calls in the ghost set `lost` (requests dropped by the caller's own stopping "
                 'context), with lost_only_when_client_stopped (`lost = []` unless the client context was stopped) and no_loss (carrier-or-lost '
                 "invariant); activity_terminates (measure: every internal action decreases `mu`, so completion needs no fairness beyond 'enabled "
                 "threads run'); object_survives; kernel-checked hang witnesses for each historical loss path and for the remaining one "
                 '(client_stop_loses_request). 26 theorems. Tie: real contexts/proxies/worker/socket threads under a deterministic scheduler + '
                 "simulated network; for every generated scenario the observed outcome vector must lie in the model's terminal set (the Lean driver "
                 "explores the model exhaustively per scenario); the fault is swept over every yield index; the model's configuration bits are "
                 'probed on the current source on every run.',
         'note': "Trusted: Lean kernel + 3 axioms; scheduler/simnet harness; atomicity of model actions follows the code's locks and is validated by "
                 'outcome-set inclusion (bounded, per scenario); pickle/asyncio/OS sockets modelled; one object + one connection (others are '
                 'independent copies). Fixed in /repo: 5177c53 (force_unlock on an unlocked object killed the worker), dc3d515 (unpicklable '
                 'arguments/results and oversize results left the caller waiting) — reverting either is reported as a violation. Open known finding: '
                 "a call issued while the caller's own context is being stopped can be dropped silently (exactly the `lost` set of the theorem); "
                 'repair judged not small/safe (DESIGN §11.4).',
         'technique': 'Lean 4 proof (inductive carrier-or-lost invariant, structural queue invariants, termination measure over an interleaving '
                      'model) + outcome-set correspondence under a deterministic scheduler'},
 'C02': {'text': 'Lean theorems over the forwarding model (all method names, args, kwargs, aliases, context names, any number of concurrent callers '
                 'and arrival orders): proxy_eq_direct at full strength (outcome of a blocking or non-blocking proxy call = outcome of the direct '
                 'call, local and peer placement, with stub binding and helper signature as extracted from the current source, given pickle '
                 "round-trips the call's values); proxy_with_timeout_eq_direct (a call with rpc_timeout that completes in time = the direct call "
                 'without that keyword), deadline_outcome, late_reply_discarded, unregister_keeps_others (a timed-out call raises '
                 'QMI_RpcTimeoutException and its late reply touches no other caller), nonblocking_timeout_keyword_rejected; locked_call_refused, '
                 'proxy_tokens_in_sync, granted_token_is_forwarded; payload_untouched, transfer_ok, round_trip_restores_addresses, '
                 'kwargs_and_args_preserved, stub_sends_own_name(+_gen), gen_helper_params_empty, unique_address_injective, issued_addresses_nodup, '
                 'incoming_aliases_distinct, accept_keeps_routes, reply_goes_to_requester, concurrent_callers_own_outcome (37 theorems). Tie: '
                 'differential testing of a direct object against local/peer proxies (simulated network under the deterministic scheduler; real '
                 'loopback TCP in thorough) over structured random values; families for concurrent callers, client churn '
                 '(connect/disconnect/reconnect), rpc_timeout with a slow method under virtual time, and a fixed corpus (locks and token forwarding, '
                 'context-manager protocol, chained exceptions, returned self/proxy/future); line-by-line replay of the tapped message-level trace '
                 'on the Lean driver.',
         'note': 'Value fidelity across pickle is VALIDATED DIFFERENTIALLY, NOT PROVED (theorems assume decode(encode v)=v; values plain pickle does '
                 'not reproduce are outside the quantifier, excluded and counted; pickle does not carry __cause__/__context__ of an exception - '
                 'type, args and attributes are compared). The keyword-name collision with the helper parameters found by this check was fixed in '
                 '266e9a5; gen_helper_params_empty guards it. Reply routing between client connections rests on the freshness of $client_N aliases '
                 "(incoming_aliases_distinct). rpc_timeout is the reserved proxy-level keyword (modelled). Observation outside the property's "
                 'quantifier (unpicklable return value): `with proxy:` on a PEER proxy of a QMI_Instrument raises QMI_MessageDeliveryException and '
                 'leaves the instrument open, because __enter__ returns the instrument itself; recorded in the evidence, not repaired (tests rely on '
                 '__enter__ returning self). Trusted: taps/value generator/equality in harness/props/_c02_*.py, stubKwargs as model of Python '
                 "argument binding, the object's lock state as an input (C04), framing (C06), send-failure branches of _SocketManager.send_message "
                 '(C01), the clock.',
         'technique': 'Lean 4 proof (forwarding/routing model, unbounded callers) + AST translator (stub binding, helper signature) + differential '
                      'testing and trace refinement against the real code under a deterministic scheduler with virtual time'},
 'C03': {'text': 'Lean theorems over all reachable states of an interleaving model of the request path as a pipeline of FIFO stages (unboundedly '
                 'many caller threads, contexts, objects, requests; 15 actions: '
                 'start/issue/lookupLocal/pushLocal/enqRemote/loopRun/lookupWire/pushWire/workerPop/workerFinish and object removal '
                 'unregister/stopMark/shutdownReq/workerLeave/rejectOne): fifo_pipeline (for every caller thread c, proxy context k and object o the '
                 'places executed++cur++rejected++fifo++refused++heldL++wire++ready++heldC++hand restricted to (c,k,o) equal the issue sequence), '
                 'per_route_order (+_started; executions are a prefix of the issue order, incl. non-blocking calls never waited for; the model has '
                 'no wait action, so executions cannot depend on waits), per_caller_order (the property as stated, for a thread using proxies of one '
                 'context) and the negation witness cross_route_overtake (a thread alternating between a peer proxy and a local proxy of one object: '
                 'known finding order-across-routes, replayed on the code by the harness); removal: rejected_follow_executed, '
                 'rejected_or_refused_not_executed, nothing_executes_after_leave, no_enqueue_after_stop; no_loss_no_dup, executed_at_most_once; '
                 'one_at_a_time (pops-finishes in {0,1} after every prefix of every run), exec_only_by_worker / single_executing_thread / '
                 'executed_only_by_finish; code_shape_single_worker: decide-obligation on Gen/RpcShape.lean, regenerated on every run from the AST '
                 'of the qmi package (one guarded creation+start of one _RpcThread per manager, no other thread started in rpc.py, request handlers '
                 'called only from the worker loop, one popleft under _cv per iteration followed by the handling in the same iteration, fifo only '
                 'appended to / popped from the left, push_rpc_request only from handle_message under _stop_lock). Tie: real contexts, proxies, '
                 "event loops and worker threads under the deterministic scheduler + simulated network; requests = the probe's own method, inherited "
                 'get_name/get_signals, lock-protocol requests, blocking calls given up by a tiny rpc_timeout, through own or peer proxies, 1..2 '
                 'objects (threads hopping between objects), shared or per-thread proxies, objects removed while calls are under way; taps (proxy '
                 'call entry, request-id binding, loop hand-off, _PeerTcpConnection.send_message, the handler map, handle_message, the _fifo deque, '
                 '_running, shutdown, _reject_remaining_requests, the two request handlers) give a linearised event log that the Lean driver replays '
                 '(each event enabled, same queue contents and same fate held/enqueued/refused/rejected, invariant kept); oracle over the handler '
                 "records and the callers' own call/result records: no overlap, per-route sequence 0,1,2,…, no duplicate/phantom execution, one "
                 'executing thread per object, no execution after removal or of a call answered with a delivery error.',
         'note': 'Trusted: Lean kernel + 3 axioms; detsched/simnet harness, the taps (incl. the logging subclasses installed for _RpcThread._fifo '
                 'and MessageRouter._address_to_messagehandler_map and the property installed for RpcObjectManager._running) and the AST translator '
                 "harness/tr_rpcshape.py. Single-workerness is structural in the model; the code's shape is a generated obligation plus refinement + "
                 'overlap/second-thread oracle on explored schedules (322 quick / ~5000 thorough). Order is proved per (thread, proxy context, '
                 'object); across proxies of two contexts used by one thread it fails (known finding, no small repair). Not in this model: '
                 'connection loss, reply contents (C01/C02/C06), effect of lock requests (C04); context stop only as scenario clean-up.',
         'technique': 'Lean 4 proof (inductive invariants over an interleaving pipeline model incl. object removal; decide witness for the '
                      'cross-route counterexample; generated code-shape obligation) + trace refinement under a deterministic scheduler'},
 'C04': {'text': 'Lean theorems at full strength over every system state (any number of context instances incl. same-named ones, proxies, tokens) '
                 'and, by induction, every finite history incl. object removal/re-creation and client disconnect: gen_eq_spec (generated lock table '
                 '= reference for all token values, no cell crashes), guard_eq_spec, single_owner, lock_free_object, lock_granted_means_owner, '
                 'reserved_token_refused, only_owner_executes(+_history), refused_without_executing, owner_gets_through, '
                 'count_changes_only_by_execution, release_only_by_owner_or_force(+_history), recreate_starts_unlocked, lock_survives_disconnect, '
                 'stale_token_does_not_own_new_object, is_locked_truthful, lock_requests_total, never_hangs, nb_token_in_sync, mkToken_injective, '
                 'auto_tokens_distinct, only_holder_executes; lock(timeout>0) retry loop: retry_count_le, retry_false_used_all, '
                 'retry_stops_at_first_grant, retry_denied_step, retry_granted_means_owner, iters_le (at most ceil(timeout/period) attempts for any '
                 'round-trip times), iters_pos; with-form: with_form_refused, with_form_runs; Props/C04Atomic: statement-level interleaving model of '
                 'make_unique_token for any number of threads, tokens_distinct_all_schedules + critical_section_exclusive by inductive invariant, '
                 "obligations gen_prog_atomic / gen_token_shape on Gen/TokenProg.lean generated from the function's AST. Gen/LockFsm.lean "
                 'regenerated every run by executing the real _handle_lock_rpc_request/_handle_method_rpc_request on a stub thread per cell. '
                 'Correspondence: fixed corpus (documented examples, related names, counter 9/10/11, same op twice, re-creation, disconnect, '
                 'with-form) + exhaustive cell sweep + 400 random histories on real QMI_Context instances over loopback TCP diffed with the model '
                 'driver and judged by an ideal-lock oracle; 2-4 concurrent threads under the deterministic scheduler (line-level yield points in '
                 'make_unique_token, weighted/pct, change-point sweeps) with the worker request log replayed on the model; lock(timeout>0) under the '
                 'virtual clock (timeouts/releases around the 100 ms period) diffed with proxyLockRetry.',
         'note': 'No open finding. Fixed in /repo: 5177c53 (force_unlock of an unlocked object killed the worker), 93903ab (same-named client '
                 'contexts shared automatic tokens), 51f8317 (ACCESS_DENIED placeholder as custom token reported a denied lock as granted); each '
                 'reverted fix is re-found as a new violation. Assumed, not proved: identifiers os.urandom gives to distinct context instances '
                 "differ (hypothesis of auto_tokens_distinct / only_holder_executes); no custom token deliberately imitates '$lock_<id>_<n>'; "
                 'threading.Lock mutual exclusion and GIL-atomic dict get/set (premises of C04Atomic); float clock of lock(timeout) modelled in '
                 'whole ms, never probed on a multiple of the period. Trusted: both translators (tokens only compared - checked with randomised '
                 'tokens; AST shapes - unknown statements fail loudly), proxy-side model tied by correspondence only, one worker request = one '
                 "action (C03's subject) checked over schedules, message transport exercised not verified, proxies of a stopped context are not "
                 'used.',
         'technique': 'Lean 4 proof (generated finite table + inductive invariants over op histories + statement-level interleaving invariant + loop '
                      'measure) + executing translator + AST translator + differential correspondence on real contexts + schedule exploration with '
                      'trace refinement + virtual-clock runs + ideal-lock oracle'},
 'C05': {'text': 'Lean theorems over every class table (MRO of member tables name↦kind, instance dict, signals, constants) and every name (all '
                 'strings via an injective encoding, proved), for the repaired dispatcher (static lookup, b296ced) and the WHOLE request handler. '
                 'For EVERY class: rejected_runs_nothing, effects_only_call, invokable_iff_advertised_of_unshadowed, absent_name_rejected, '
                 'refused_request_runs_nothing (lock-token test in front of the dispatch), protected_names_never_advertised, '
                 'protected_names_rejected_of_constructible, proxy_never_forwards_protected. For well-formed classes: dispatch_sound (∀n, '
                 'invokable↔advertised ∧ rejected ⇒ no effects ∧ unknown-RPC), handle_sound (∀ lock state, token, name: the method is called iff '
                 'admitted ∧ advertised; otherwise nothing runs, reply OBJECT_IS_LOCKED resp. unknown-RPC), invokable_only_declared, wellFormed_iff, '
                 'proxy_forwards_advertised (stub names of QMI_RpcProxy = descriptor list). Gen/RpcClasses*.lean regenerated on every run from the '
                 'live classes (94 classes: vars() along the MRO, @rpc_method declarations and `self.x = …` assignments from the AST, instance dict, '
                 'signals, _rpc_constants, probed protected list): 94/94 wf_<Class> and 94/94 full_<Class> (refusal runs no code, constants pass the '
                 'asserts, proxy clean, no assignable attribute shadows a method) by kernel evaluation. Tie: every class instance behind the real '
                 'RpcObjectManager/_RpcThread; hand-built requests for dir(obj) ∪ dunders ∪ fixed related-name corpus ∪ random strings, repeated, '
                 'under a real lock with no/right/foreign tokens, with non-str names, with attributes injected after construction (43k quick / 200k '
                 'thorough), sys.setprofile tap, diffed against the Lean driver; real proxies built and compared; ~1200 generated hierarchies '
                 '(properties, hooks, __getattribute__, signals, constants, protected names …) incl. all objects of a hierarchy served concurrently.',
         'note': 'Trusted: Lean kernel + 3 axioms; translator (member classification, AST reading; 12 classes built via __new__); '
                 'inspect.getattr_static/getmembers mirrored and validated differentially; token equality abstracted to ids; non-str names are '
                 'checked by the oracle only; whether later code stores a marked plain function in the instance dict is exercised, not derived. No '
                 'open findings; 19 fixed (b296ced: property getters ran on lookup, 18 sites; 4d38557: unhashable method_name answered with '
                 'TypeError instead of unknown-RPC); both reverted fixes are caught with concrete inputs.',
         'technique': 'Lean 4 proof (generic theorems, most unconditional, + generated per-class obligations by decide +kernel) + differential '
                      'correspondence of every shipped and generated class through the real request handler, lock gate and proxy construction'},
 'C06': {'text': 'Lean theorems over all byte strings, segmentations, payload lists, handler/pending/connection tables (induction, no bounds) about '
                 'a branch-by-branch model of _PeerTcpConnection (_receive_data loop, _process_message, close/_clear_pending_requests, send_message, '
                 'receive_handshake), _TcpServer/_SocketManager (add_incoming_connection, remove/disconnect, send_message incl. failure handling) '
                 'and MessageRouter.connect_to_peer: chunking_invariance / all_segmentations / single_bytes (feeding any segmentation = feeding the '
                 'concatenation: same state, same events), frame_roundtrip, delivers_exactly(+_any_segmentation), violation_closes + '
                 'violation_delivers_nothing_more with instances for wrong marker, oversize length (size_limit_exact), undecodable / non-message '
                 'payload, missing / nameless / wrong-direction / repeated handshake, foreign source / destination; closed_is_absorbing; '
                 'pending_all_failed (any handler behaviour), close_never_escapes, eof_/violation_/disconnect_/loss_fails_pending; '
                 'handshake_reader_exact / handshake_reader_waits_or_done (the blocking client-side reader, for every way the socket hands out the '
                 'bytes, consumes exactly the first frame and leaves the rest in the socket), connect_succeeds, connect_wrong_name_refused, '
                 'connect_duplicate_refused, connect_invalid_name_refused, connect_failure_registers_nothing, accept_failure_registers_nothing, '
                 'accept_alias_fresh + aliasesBelow_preserved (aliases never collide, invariant over every socket-manager operation); isolation, '
                 'isolation_events, closed_peer_is_unknown, send_isolation, interleaving_irrelevant / any_two_merges_agree (any merge of the '
                 "connections' segment sequences = each connection's run on its own); unsendable_request_fails, unsendable_reply_replaced. Tie: the "
                 'real MessageRouter/_SocketManager/_TcpServer/_PeerTcpConnection driven single-threaded through in-memory sockets (accept through '
                 'the real _TcpServer reader, connect through the real connect_to_peer); real pickled QMI messages, 19 fault kinds at random frame '
                 'index/offset, 8 cut modes down to single bytes, random pending sets at loss (violation/EOF/disconnect), handlers that refuse or '
                 'raise, sends before the handshake / over the size limit / on a failing socket, error replies at / over the size limit, accept() / '
                 "TCP_NODELAY / handshake-send failures, duplicate and '$' connects, equal and related peer names, reused request ids, version "
                 'mismatch, reduced and real MAX_MESSAGE_SIZE incl. a 10,000,000-byte frame; a fixed corpus (every fault in both roles, '
                 'limit-1/limit/limit+1 frames and handshakes, repeated operations) runs first on every seed; every recv of the real code (and the '
                 'byte count it asked for in receive_handshake) is one op line for the Lean driver (3.4k scenarios / 130k recv quick, 41k / 1.5M '
                 'thorough) and an independent reference oracle checks delivery/containment/pending/isolation after every step; search sweeps all '
                 'cut points and fault positions.',
         'note': 'Trusted: Lean kernel + 3 axioms; the fake socket/loop harness (c06_fakes.py) and its taps (deliver_message wrapper, log records of '
                 '_handle_read / connect_to_peer); pickle as token oracle (decoding and the pickled size of error replies are told to the model); '
                 'TCP FIFO, recv returning 1..n bytes and asyncio reader dispatch modelled; socket-manager code run single-threaded '
                 '(_EventDrivenThread replaced); handler behaviour is a model parameter. Outside the model: suppress_version_mismatch_warnings, '
                 'close_all/stop, UDP responder, handshake timeout. All 51 theorems at full strength on the repaired tree; 3 findings fixed '
                 '(849271e, 6a33dc7 x2); reverting a fix or dc3d515 yields a VIOLATION with a concrete input; 25 + 6 self-test mutations caught '
                 '(one, dropping the error reply to the peer, only as a broken correspondence: it is model content, not part of the property '
                 'statement).',
         'technique': 'Lean 4 proof (induction over byte streams / frame lists / operation sequences; fuel-based frame loop with unfolding lemmas; '
                      "inductive 'Serves' predicate for the blocking reader; alias invariant) + recv-by-recv differential correspondence with the "
                      'real connection layer over in-memory sockets + independent reference oracle'},
 'C07': {'text': 'Lean theorems over an interleaving model of SignalManager (one micro-operation per lock section, unbounded '
                 'contexts/publishers/receivers/threads/connections): key_injective (+remote, prefix test); delivered_iff_in_snapshot(+_done): every '
                 'snapshot _deliver_local takes is delivered to exactly its members, once, labelled with its key; no_delivery_after_unsubscribe '
                 '(unsubscribe_takes_effect, quiet_preserved); per_publisher_thread_order_local (full) and per_publisher_thread_order_partial (all '
                 'receivers, assuming NetworkFifo). Tie: trace refinement — 1-3 real contexts under the deterministic scheduler and simulated '
                 'network, every lock section / loop enqueue / delivery / socket event replayed on the model (1000 scenarios quick), plus an '
                 'independent exactly-once / order / subscribed-only / not-after-unsubscribe oracle on the event log and final queues.',
         'note': 'Partial: the FIFO composition event-loop queue → connection → socket thread across connect/disconnect (hypothesis NetworkFifo, '
                 "also covering 'one snapshot per publication and context') is not mechanised; checked on the implementation by the oracle. "
                 'Modelled, not verified: atomic connect, send failure only after the peer closed, set iteration order as a choice, pickling/framing '
                 '(C06), receiver capacity (C09); trusted: scheduler, simulated network, tap layer (harness/props/pubsub_common.py).',
         'technique': 'Lean 4 inductive invariants over an interleaving transition system + trace refinement of real executions under a '
                      'deterministic scheduler + property oracle'},
 'C08': {'text': 'Same model as C07. Proved: failed_subscribe_leaves_nothing (+ failed_reply_leaves_nothing, failed_local_subscribe_changes_nothing, '
                 'rejected_request_leaves_no_remote_subscriber), removal_ends_both_ends and disconnect_ends_both_ends (per step: tables emptied, a '
                 'notice for every remote subscriber, teardown always runs), subscribe_terminates_partial (each of reply / local send failure / '
                 'connection close releases the waiting call), and quiescent_consistency_false: the full statement is refuted by a kernel-evaluated '
                 'witness trace (subscribe racing with remove_rpc_object). Tie: histories of subscribe/unsubscribe lanes racing with '
                 'remove/make/connect/disconnect/stop on real contexts; after every step drain, dump both tables, compare with the model, probe '
                 'publications (550 histories + targeted race sweep quick). KNOWN-FINDING: DESIGN §7(l) reproduced on the real code.',
         'note': 'Not proved: quiescent_consistency_partial (needs the full request/reply/notice pipeline invariant) and the carrier invariant '
                 'behind subscribe_terminates; both are checked on the implementation only (quiescent table iff, probe deliveries, transmitted-peer '
                 'sets, no deadlock under the scheduler). A context stopping while its own thread subscribes is outside the quantifier. Trusted: '
                 'scheduler, simulated network, tap layer.',
         'technique': 'Lean 4 invariants + kernel-checked counterexample trace + trace/table refinement under a deterministic scheduler with a '
                      'targeted PCT sweep of the racing handler'},
 'C09': {'text': 'Lean theorems (induction over all op sequences, all capacities ≥ 1, both policies): len_le_cap, queue_sorted, seq_strict_mono_out, '
                 'accounting (permutation of range next), gap_is_lost/gap_count, policy_old/new, getNext_total. Model tied to QMI_SignalReceiver by '
                 'op-sequence differential runs (20k scenarios quick) plus a direct oracle.',
         'note': 'Trusted: Lean kernel + 3 standard axioms; correspondence harness and its generator; deque(maxlen) and threading.Condition are '
                 'modelled/exercised, not verified. Blocking get_next_signal is exercised with real threads only.',
         'technique': 'Lean 4 proof (inductive invariant over op sequences) + differential correspondence with the real class'},
 'C10': {'text': 'Lean theorems (40) over all reachable states / all finite histories of an interleaving model of the task lifecycle (task thread: '
                 'initOk/initFail/wake/runEnter/updCheck/updPop/updPub/setStatus/runEnd/mark/threadEnd; runner constructor; serialised runner '
                 'operations startCheck+startKick, stopRegion+stopSet, blocking join+joinSet, isRunning, '
                 "setSettings/getSettings/getPending/getStatus; the compositions __exit__ and release_rpc_object sequenced by the worker's program "
                 'counter; stop_task issued outside the RPC worker = _request_shutdown and a task stopping itself; one action per `with _state_cond` '
                 'region): run_at_most_once(+_hist), run_only_after_start(+_hist), stop_first_never_runs(+_hist), second_start_refused / '
                 'start_after_stop_refused (usage error, state unchanged), first_start_accepted, start_never_asserts_partial + decide witness '
                 'start_asserts_under_shutdown, join_returns_only_when_finished, join_raises_iff_exception, join_completes, after_join_quiescent, '
                 'join_after_stop_first_not_stuck, is_running_iff_running, update_true_iff_posted_since_last, settings_newest_wins, '
                 'pending_is_newest, published_exactly_adopted / publish_carries_adopted_value (sig_settings_updated published exactly once per '
                 'successful update, with the adopted value), get_status_last_written, composition_joins_after_stop, '
                 'exit_returns_only_when_finished, removed_means_over (after release_rpc_object: thread ended, joined, run() at most once, runner '
                 'gone for good), body_unconstrained, self_stop_raises_flag. A second model follows QMI_LoopTask.run statement by statement (three '
                 'missed-period policies, hook outcomes return / task-stop / other): loop_finalize_exactly_once / _at_most_once (every exit path, '
                 'none if loop_prepare raised), loop_settings_at_iteration_boundary, loop_counts_at_top, loop_stop_exception_swallowed, '
                 'loop_outcome_after_finalize, loop_exits_when_stop_seen, skip_lands_on_next_grid_point, missed_period_policy. Tie: the real '
                 'context, task proxy (incl. with-form and remove_rpc_object), QMI_TaskRunner, _TaskThread, QMI_Task.update_settings and '
                 'QMI_LoopTask.run under the deterministic scheduler with scripted task bodies / scripted loop hooks and random + fixed runner '
                 'histories incl. QMI_Thread.shutdown from a helper thread (3.1k scenarios quick / 22.8k thorough, weighted + PCT change points, '
                 'line-level yield points in update_settings/set_settings); taps at the end of every protected region, the stop-flag write, every '
                 "settings-deque operation, both signal publications, the loop's clock reads, stop tests, sleeps and hooks give one linearised event "
                 'log that the Lean driver replays on both models (each event enabled, same result, same state abstraction, next_time equal, stop '
                 'flag read = lifecycle flag; a reported "join waits for ever" must be a model state where join is disabled and the thread cannot '
                 'move; after remove_rpc_object the model must be `removed`, joined, nothing half done); independent oracle on call/return marks, '
                 'task-side observations and the hook-call sequence.',
         'note': 'Trusted: Lean kernel + 3 axioms; detsched/simworld harness and the taps (class swap of '
                 "_state_cond/_stop_requested/sig_settings_updated/sig_status_updated, logging deque rebuilt with the code's own maxlen, wrappers on "
                 "runner methods, _TaskThread.__init__/run/stop_task, the time shim's monotonic(), scripted task and loop-task classes). Region = "
                 'one action; `self.settings = fifo.pop()` one step; deque(maxlen=1) as an Option slot; loop time in integer ticks, hook bodies '
                 'scripted; the loop model is sequential and composed with the lifecycle model in the driver. Still outside: RPC serialisation '
                 '(C03), delivery of published signals (C07), wait-condition wake-up in stop_task (C11), get_task_class_name, custom runner '
                 'subclasses. start() racing with _request_shutdown can raise AssertionError instead of a usage error (witness proved; QMI never '
                 "calls shutdown() on a task thread, outside the property's quantifier, not reported). No defect found; seeded edits: round 1 14/16 "
                 'concrete failing input + 2 refinement-only, round 2 8/10 concrete + 2 refinement-only (SKIP off-by-one, release without join), 4 '
                 'harmless refactors silent.',
         'technique': 'Lean 4 proof (inductive invariants over two transition systems + history lemmas + decide witnesses) + trace refinement under '
                      'a deterministic scheduler + independent property oracle'},
 'C11': {'text': 'Lean theorems over all runs and all interleavings (closure_sound: a set containing the initial states and closed under every '
                 "thread's step contains every reachable state) of systems built from programs REGENERATED on every run from the AST of "
                 '_TaskThread.stop_task (whole function, every value of _state), wait_for_condition, QMI_Task.sleep, pubsub._wait_for_condition, '
                 'get_next_signal, QMI_LoopTask.run, QMI_TaskRunner.stop and _TaskThread._request_shutdown (Gen/SyncProgs.lean; generic interpreter '
                 'for locks/conditions/events/the _wait_cond slot/_state/calls/try-finally). 13 kernel-checked systems: one or two stop requests '
                 '(stop() = generated QMI_TaskRunner.stop, second = generated _request_shutdown) x {sleep; get_next_signal(None)/(t) + publisher; '
                 'free mixture of the three waits + publisher; loop task incl. missed-period policies and self-stop}, and stop_task against a task '
                 'thread that is not running (INITIAL, READY_TO_RUN x2 requests, construction failed, completed, failed, stopped before start). '
                 'Small systems: the kernel computes the reachable set (decide +kernel); the four larger ones (514-4638 states): the set is supplied '
                 'by the compiled driver (Gen/WakeCert.lean) and re-checked entry by entry in 35 chunk theorems glued by cert_chunks_sound. '
                 'Theorems: no_lost_wakeup, no_deadlock, no_thread_error_and_flag_set, wait_after_stop_does_not_park, released_with_stop_exception '
                 "(fuel-free inductive Settles: the task's own steps, none a time-out, end on every branch in QMI_TaskStopException) + "
                 'released_reaches_stop_exception, sleep_interruptible, loop_task_finalises, stop_task_total; negative witness '
                 'lookup_before_flag_loses_wakeup. Tie: real context/task/proxy under the deterministic scheduler with line-level yield points and '
                 'yield points after every unsynchronised flag/slot access; stop request swept over every yield index (7.9k schedules quick / 84k '
                 'thorough) in two priority modes: late waits, delays, boundary durations/time-outs (0, 0.0, negative, 1e-9), paced and permanently '
                 'late loops, all missed-period policies, publisher, second stopper, stop before start / twice / after join / shutdown hook only; '
                 'each primitive-operation trace must be a path of the generated system (CPython wait_for semantics); oracle: stop exception seen, '
                 'join returns, 0 s virtual time between stop() and release, no wait that began after stop() returns normally, loop_finalize once, '
                 'run() never called when stopped before start. Model counter-examples are replayed (guided schedule, boundary durations) on the '
                 'real code.',
         'note': 'Trusted: Lean kernel + propext/Quot.sound; translator tr_syncprogs.py (thread-affinity guards evaluated for the task thread, '
                 '`assert self.task is not None` taken to hold, data/time-dependent branches as nondeterministic choice, _state accesses as steps of '
                 'the _state_cond critical section) validated by trace following; semantics of threading primitives as modelled, time abstract; '
                 "publisher critical section atomic; the task thread's own _state transitions (_TaskThread.run) not modelled; liveness = no deadlock "
                 '+ no lost wake-up + Settles from every reachable state with the stop request completed and no other thread in a critical section, '
                 "under fairness; queue capacity 2 and three stop requests only by the driver's native exploration (38k states); proxy/RPC transport "
                 'of stop() exercised, not modelled. Rebuild after a source change ~2-3 min (15 CPU-min). No defect found.',
         'technique': 'Lean 4 proof (generic closure lemma; per generated system reachable set by decide +kernel, or driver-supplied certificate '
                      'checked chunk-wise by the kernel) + source->model translator + systematic schedule sweep / trace refinement under a '
                      'deterministic scheduler'},
 'C12': {'text': 'Lean theorems over all finite histories with faults at any constructor / release step / stop handler / start step (invariant WF, '
                 'induction): name_unique, duplicate_refused, failed_ctor_no_residue (every state), remove_no_residue, make_remove_no_residue, '
                 'name_free_after_failed_ctor/remove, stop_releases_each_once (count = 1), released_at_most_once, stop_release_effects (what release '
                 'does per category: open instrument only warns, unjoined task is stopped and joined, raising release swallowed), '
                 'stop_ends_all_threads_and_connections, call_never_hangs, stale_proxy_fails_promptly, no_restart, double_start_stop_usage_error, '
                 'failed_start_leaves_nothing (+ start_retry_after_failure), failed_qstart_leaves_nothing, dropped_contexts_empty, '
                 'process_can_start_again (every process history, all start faults), base_handler_aborts_stop and stopped_behind_qmis_back (what '
                 'exactly holds in the two misuse cases). Concurrency: stop_make_any_population — stop() racing make in another thread is clean for '
                 'EVERY population and EVERY schedule (inductive invariant over the interleaved system + rank), name_unique_concurrent (two makers '
                 'of one name: exactly one wins, all schedules), no_request_lost / late_call_refused_at_once / manager_stop_completes (any number of '
                 'callers racing RpcObjectManager.stop(): every delivered request is answered exactly once, the queue of an ended worker is empty, '
                 'stop terminates). Model tied to QMI_Context / context_singleton / RpcObjectManager / _RpcThread by state-refinement runs on real '
                 'contexts under the deterministic scheduler and in-memory network (3.1k scenarios quick, 29k thorough): after every op the object '
                 'map, handler map, live managers/threads (scheduler and threading.enumerate), sockets, release order, left-open transports and '
                 "per-category release events are compared with the model; stop||make and make||make outcomes must lie in the model's outcome set; "
                 'calls racing remove()/stop() (local and peer callers, line-level yields in handle_message, change-point sweep) are trace-refined '
                 'against the manager/worker model event by event; independent oracle on every trace.',
         'note': 'Trusted: Lean kernel + 3 standard axioms; harness (taps, detsched, simnet) and generators. Modelled not verified: OS thread '
                 'teardown, sockets (simnet; UDP bind fault injected), name validity as input flag (diffed against an independent rule incl. '
                 'case/prefix/suffix/63-64 chars), SignalManager/$pubsub, the router/socket path of a remote call (oracle only; C01/C06 model it). '
                 'Excluded from process_can_start_again and stated separately: a stop handler raising a non-Exception BaseException (stop() aborts, '
                 "nothing torn down, for ever) and qmi.context().stop() behind qmi's back (context clean, singleton unusable). stop||make / "
                 'make||make are tied by outcome-set membership, not trace refinement; make||make is proved for the $context-only instance (kernel '
                 'decide over all schedules). Fixed in /repo: failed-start roll-back (d5615ad), handler registered under the map lock (104bb5b); '
                 'reverting either is reported as a VIOLATION with a concrete input.',
         'technique': 'Lean 4 proof (inductive invariants over op histories and over the interleaved stop||make system with a termination rank; '
                      'carrier invariant for manager/worker; kernel decide over schedules lifted to all schedules) + refinement correspondence and '
                      'event-trace refinement with the real classes under a deterministic scheduler'},
 'C13': {'text': 'Lean theorems about an executable model of QMI_Tcp/Udp/SerialTransport (open incl. every way it can fail, close, write, read, '
                 'read_until, read_until_timeout, discard_read; device = oracle script of recv results data|timeout|eof with elapsed virtual time, '
                 'i.e. every packetisation and arrival timing; open() outcomes = oracle plan), for all states, scripts, terminators (any length), '
                 'counts, time-outs (None/0/+/-) and all op sequences incl. the device sending at any point: conservation (returned/discarded log ++ '
                 'buffer ++ undelivered = device stream; unconditional for TCP/serial = conservation_stream, for UDP when every datagram fits the '
                 'packet size = conservation_udp, otherwise exactly one datagram lost = lost_datagram_step), read_exact, readUntil_shortest (+ '
                 'chunking invariance), timeout/exception_consumes_nothing, readUntilTimeout_le_n for all three transports (+ keeps_rest), '
                 'closed_never_touches_device (reads, discard, close, write), open_close_state_machine incl. failed open leaves the transport '
                 'closed, failed_open_can_be_retried / open_succeeds_when_os_allows, isOpen_run, write_spec / written_run (the device receives '
                 'exactly the payloads of the successful writes, one unit per call, in order), serial_call_returns_by_deadline_plus_slice and '
                 'serial_nonblocking_read_takes_no_time, discard_empties_buffer, exhausted_only_when_script_empty (loop fuel never binds). Tie: the '
                 'three real transports against a scripted socket / serial.Serial (incl. failing connect / gethostbyname / bind / Serial()) and '
                 'virtual time.monotonic; result, exception class, every device interaction (settimeout values, recv/send sizes, '
                 'connect/bind/close), clock, script position, _read_buffer and _is_open diffed with the Lean driver per op; independent oracle: '
                 'returned bytes are the front of the undelivered stream, buffer = undelivered, exactly-n / shortest / at-most-n, a datagram that '
                 'fits the packet size is never lost or cut, closed => no device call, open/close refusals, failed open raises and leaves closed, '
                 'flag = state machine, write handed over whole, serial calls back within time-out + slice. A fixed boundary corpus runs first on '
                 'every seed.',
         'note': "Trusted: Lean kernel + 3 axioms; the scripted device (stream recv <= requested with remainder kept, datagram whole or OSError, b'' "
                 'at EOF, settimeout(<0) ValueError, in_waiting/reset_input_buffer semantics, open/send succeed or fail as planned) and virtual '
                 'clock (1 tick = 1/8 s, exact floats); bytearray.find/endswith mirrored and diffed; a write failing half-way in the OS is not '
                 'modelled; socket deadlines are tied by diffing clock and settimeout values, the deadline theorem is proved for serial only '
                 '(assuming each Serial.read returns within one slice); packet-size constants read from the live classes each run. Vxi11/USBTMC/GPIB '
                 'transports are not named by the property and not modelled (only the shared base-class open/close logic transfers). 0 known '
                 'findings; 1 fixed (916a4b4: UDP read_until_timeout returned more than n bytes), reverting it is reported as a new violation with a '
                 'concrete input.',
         'technique': 'Lean 4 proof (stream-accounting invariant by induction over fuel-recursive loop models and op lists; clock invariants for the '
                      'deadline loops) + op-sequence correspondence with device-interaction traces against scripted devices'},
 'C14': {'text': 'Lean theorems, generic over all parser tables and constructor programs passing the decidable checks EnvOk/AllAligned (Gen '
                 'regenerated on every run from the live parser instances, constructor signatures, the create_transport AST and the ASTs of the '
                 '__init__ bodies with super().__init__ chains and _validate_* helpers inlined): total (FULL strength, no hypothesis: every string, '
                 'both platforms, defaults of any type -> a transport or QMI_TransportDescriptorException), escapes_classified, '
                 'faithful/defaults_only_fill/defaults_fill_absent/foreign_defaults_dropped, create_faithful + attr_plain/attr_localhost (attributes '
                 '= what the translated __init__ stores from the typed token, else caller default, else ctor default), obligations gen_stores (every '
                 'ctor argument stored once in the attribute named after it, (host, port) in _address) and gen_validators (which test with which '
                 'literal bounds guards which parameter), roundtrip_usbtmc for EVERY serial number (escape_roundtrip: _unescape(_escape(s)) = s), '
                 'roundtrip_tcp/udp/vxi11, hex_id_roundtrip, decimal_roundtrip. Model tied to qmi.core.transport by differential runs (fixed corpus '
                 'of bounds, related names, repeated keywords; 120k create_transport cases quick: grammar-valid, one mutation, arbitrary; x random '
                 'defaults incl. ill-typed values x platform; parse_parameter_strings, _parse_parts, int/float/host/inet_pton/_format_resources '
                 'streams; call histories sharing one defaults object, dict or read-only Mapping; lone-surrogate strings judged by the oracle alone) '
                 'and an independent property oracle incl. list_* -> parse round trips on both platform classes.',
         'note': 'All defects this check found are repaired in /repo (c763390, 794f5cc, d053f6d, 4a3416c, 8caa6aa, 72eceb6, 665b86e, 1757bc8; each '
                 'revert is re-detected with a concrete input); no open finding. Trusted: regex / int() / float() / inet_pton re-implementations and '
                 'the semantics of the primitive validator tests (Cond.holds) are hand-modelled and checked differentially; the AST translator; '
                 "gethostbyname('localhost') pinned; sys.platform switched and pyvisa stubbed by the harness; lone-surrogate strings outside the "
                 'Lean model; transports never opened.',
         'technique': 'Lean 4 proof (generic over regenerated tables and constructor programs, decidable obligations by decide, symbolic round-trip '
                      'proofs) + AST/introspection translator + differential correspondence with near-miss, boundary-corpus and call-history '
                      'generators + direct oracle'},
 'C15': {'text': 'Composite of part A (Props/C15.lean) and part B (Props/C15B.lean); ./check C15 runs both and fails if either fails. PART A — SCPI '
                 '+ USBTMC (part A of C15). 41 Lean theorems over all payloads / lengths / terminators / tags / max_transfer_size>=1 / splits, by '
                 'induction, no bounds. SCPI: scpi_ask_roundtrip (cmd++term out, reply minus terminator in, rest of buffer untouched), '
                 'scpi_missing_terminator_errors, scpi_ask_unterminated_errors, scpi_ask_sound; definite-length blocks: readBinary_roundtrip / '
                 'readBinary_encodeBlock (1..9 digits, any zero padding, terminator flag on/off), readBinary_bad_hash / _bad_digit_count / '
                 '_bad_length_field / _bad_tail => QMI_InstrumentException, readBinary_total, readBinary_sound (returned data = data field of a '
                 'well-formed block at the head of the stream). USBTMC write side: device_decodes_write(s) (reference device decoder written from '
                 'USBTMC 1.0 §3.2 ∘ write_raw = payload), writeRaw_aligned4, writeRaw_eom_only_last (+transfer count, final tag), btag_cycle / '
                 'btag_after. Read side: readRaw_reassembles (every split, arbitrary padding), readRaw_num_prefix, readRaw_refines_hostSpec '
                 '(read_raw = the §3.3 host rule on EVERY script, valid or corrupted; for a tree that checks headers the checking rule), '
                 'readRaw_incomplete_times_out, readRaw_short_header_errors, readRaw_partial_transfer_never_completes. Quirk paths (round 3): '
                 'readRaw_advantest_single, readRaw_rigol_reassembles(_general), readRaw_rigol_ieee_block (rigol_quirk_ieee_block incl. CPython '
                 'int(bytes) semantics). Sessions (round 3): session_tags_cycle (any sequence of write_raw/read_raw/ask_raw/trigger with any '
                 'endpoint faults, abort sequences and device behaviour: Bulk-OUT headers carry consecutive tags of the 1..255 cycle, never 0), '
                 'abort_keeps_framing_state (abort sequences use the control endpoint only and name last_btag), askRaw_roundtrip, '
                 'trigger_usb488_frame, readStb_sound, clearSeq_outcome, writeRaw_mts0_never_returns. Header integrity (genuine defect, open): full '
                 'statement readRaw_rejects_header_mismatch kept as text, proved as readRaw_rejects_header_mismatch_partial for a tree with '
                 'Cfg.checkHdr (probed from the code on every run), negation witnesses readRaw_tag_fields_unchecked and readRaw_stale_reply_accepted '
                 '(late answer to a timed-out request is returned as the answer). Tie: ~185k (quick) / 1.6M (thorough) calls of the real '
                 'ScpiProtocol (recording QMI_Transport-contract fake) and the real usbtmc.Instrument (fake bulk/interrupt endpoints, scripted '
                 'control status bytes) diffed line-for-line with the Lean driver (transport call logs, time-outs, tags, request bytes, read sizes, '
                 'control requests, clear_halt); fixed corpus first on every seed (all lengths around k*max, all compositions of a reply, all 256 '
                 'values at every SCPI header byte, every USBTMC header byte, every control-status script up to length 3, both tag cycles over '
                 '0..255, int() oddities of the IEEE quirk, multi-call sessions on one instrument with aborts in between, 1 MiB boundary). Oracle = '
                 'independent Python reference devices written from IEEE 488.2 / USBTMC 1.0 / USB488 (strict device decoder, strict host rule incl. '
                 'Table 8, RIGOL-style device); the Lean reference device/host are diffed against them too. PART B — Part B of C15 (NKT Interbus, '
                 'Thorlabs APT — both implementations: AptProtocol/apt_packets and the private layer of Thorlabs_K10CR1 — and the PicoQuant T2/T3 '
                 'decoders). 95 Lean theorems, generic in the protocol constants; the constants and all ctypes layouts of the CURRENT source are '
                 'regenerated into Gen/Layouts.lean (AST of the escape/unescape loops, range checks, CRC polynomial, read terminator, T2/T3 shifts '
                 'and masks, the literals of k10cr1._read_message/create; live MessageType, HOST_BASE_ADDRESS, MAX_RETRY_COUNT, '
                 '_fields_/offsets/sizeof/MESSAGE_ID/HEADER_ONLY of both APT headers, the 8 apt_packets classes and the 26 classes of '
                 'k10cr1._apt_message_type_table) and the decidable side conditions are closed by decide (gen_interbus_wf, gen_interbus_strict, '
                 'gen_interbus_types, gen_apt_headers, gen_apt_layouts, gen_k10_wf, gen_k10_table, gen_t2_wf). Interbus, all payloads and lengths: '
                 "unescape_escape (the code's sequential bytes.replace passes), device_unescapes and device_decodes_request (independent one-pass "
                 'spec decoder with recomputed CRC), escape_no_terminator, crc_appended_is_zero (algebraic), crc_detects_single_byte (injectivity), '
                 'decode_encode for every valid message incl. reserved bytes inside the CRC, bad_crc_rejected, corrupted_frame_rejected (any single '
                 'content byte), decode_accepts_iff (EXACT acceptance: a frame decodes to m iff delimiters + its content as un-escaped by the code '
                 'is body(m) followed by the correct CRC of body(m) — via linearity of the CRC step and uniqueness of the residue bytes; so no wrong '
                 'checksum is ever accepted and the only frames accepted beyond conforming ones are non-canonical spellings of a correctly '
                 'check-summed telegram, with a decide witness), request_response (fuel MAX_RETRY_COUNT: only an address-matching message is '
                 'returned, else InstrumentException/Timeout, at most MAX+1 reads), request_response_delivers (reply cut into arbitrary transfers), '
                 'getRegister_sound/_rejects/_delivers and setRegister_sound/_rejects/_delivers (get returns exactly the data of a DATAGRAM for the '
                 'asked register from the asked module; NACK/BUSY/other type/other register raise; set returns only after an ACK for the written '
                 'register). APT (AptProtocol): unpack_pack/pack_unpack for every contiguous layout, write_param_wire, write_data_wire (length '
                 'field, dest|0x80), ask_data_roundtrip/ask_header_only_roundtrip, ask_checks_id, ask_ok_value (for EVERY receive stream a returned '
                 'data packet had the expected id, an announced length covering the structure, and is exactly the sizeof bytes after the header), '
                 'ask_header_only_iff (exactly what is and is not checked for header-only replies: the id is not, with witness), ask_reads_spec '
                 '(timeout / default timeout reach both reads). APT (K10CR1): k10_read_sound (for every stream: returned class is the table class of '
                 'the id in the stream, announced size = sizeof, value = exactly those bytes; unknown id, wrong length, partial message raise), '
                 'k10_read_long/_short (round trip), k10_wait_sound (only the awaited class is returned, any stream, any clock), k10_wait_delivers '
                 '(awaited reply behind any number of other valid messages), k10_send_spec, k10_create_long (length = sizeof-6, dest|0x80). T2: '
                 'batch_split_invariance (any cut incl. empty batches), counter_spec, timestamp_spec, events_length, fields_spec, '
                 "timestamp_decomposes; numpy's uint64 arithmetic is now IN the model (processU64): batch_split_invariance_u64 (no bound at all), "
                 'processU64_eq_process under the explicit hypothesis (carried + overflow counts)*2^25 + 2^25-1 < 2^64, gen_t2_no_wrap (carried + '
                 '33554431*#overflow records < 2^39, i.e. more than 16384 maximal overflow records from 0; sharpness witness at 2^39-1). T3 (same '
                 'carried counter; outside the statement): t3Scan_append, t3_counter_split, and the proved+replayed witness '
                 't3_sync_duplicated_by_batch_split. Tie: the real _encode/_decode_interbus_message, NKTPhotonicsInterbusProtocol (also several '
                 'requests through ONE object: toggle, stale replies), AptProtocol + packet classes (also several asks on one stream), '
                 'Thorlabs_K10CR1._read_message/_wait_message/_send_message/_AptMessage.create (virtual clock), _T2EventDecoder/_T3EventDecoder on '
                 'numpy arrays, through scripted/recording fake transports, diffed line by line with the Lean driver (64k cases quick / 1.3M '
                 'thorough; a fixed boundary corpus runs first on every seed: address/register/type/length/retry-count boundaries, short contents '
                 'with valid checksums, length-field and id boundaries of every APT packet, record types next to the overflow code, counters at 2^39 '
                 'and 2^64); oracle = independent reference device (binascii.crc_hqx + strict and lenient telegram parsers, struct formats from the '
                 'APT document for both implementations, PicoQuant-demo-style T2/T3 decoders).',
         'note': 'PART A — Trusted: Lean kernel + 3 axioms; harness and reference devices; the transport below SCPI is the QMI_Transport contract '
                 '(C13); struct layouts, ascii codec, isdigit, int(bytes) are mirrored and differentially checked; usb endpoints/device are fakes; '
                 'open()/close()/capabilities not modelled; Advantest lock()/unlock() pairing is oracle-only. 3 known findings, one root cause: '
                 'read_raw never validates MsgID/bTag/bTagInverse of a Bulk-IN header (stale or foreign reply returned as data). A repair is drafted '
                 '(fixes/C15-usbtmc-bulk-in-header-check.diff; ./check C15A is green on it without findings, the model follows via the probe) but '
                 'cannot be committed: 4 unedited unit tests of tests/core/test_usbtmc.py feed read_raw replies without a matching header. '
                 'Observations outside the statement: read_stb uses bTag 128 after 127 (USB488 allows 2..127; rstb_tag_128_witness); the RIGOL IEEE '
                 'quirk misreads a block header that is split across packets; max_transfer_size=0 never returns (not a reachable configuration). '
                 'PART B — Trusted: Lean kernel + 3 axioms; translator (AST patterns, fails loudly on unknown shapes) and the reference device in '
                 'harness/props/c15b.py; bytes.replace (1- and 2-byte patterns), ctypes packed little-endian packing incl. modulo storage of '
                 'out-of-range ints, numpy shift/mask/cumsum/boolean indexing (now with uint64 wrap) are modelled and differentially checked, not '
                 'verified; T3 float64 arithmetic is modelled as exact integer arithmetic (integer period/resolution, timestamps < 2^53) and '
                 "np.unique/lexsort as insertion sorts; transports below the codecs are harness fakes (real transports: C13); K10CR1's clock is a "
                 'linear virtual clock and its 50 ms payload timeout is not modelled. No known findings in part B. Decided against the statement and '
                 'therefore not demanded by the oracle, but stated as theorems/witnesses: AptProtocol.ask does not compare the id of header-only '
                 'replies (the statement names data messages; mpc320.is_channel_homed only compares chan_ident); a length field larger than sizeof '
                 'is accepted (the value is still exactly the sizeof bytes after the header, ask_ok_value) and a smaller one raises ValueError '
                 'rather than QMI_InstrumentException; Interbus accepts non-canonical spellings of a correctly check-summed telegram '
                 '(decode_accepts_iff); a header-only K10CR1 message with the long flag and length 0 is read as the header-only message; '
                 '_T3EventDecoder emits a duplicate SYNC event when the events of one sync period straddle a batch boundary (T3 is not named in the '
                 'statement).',
         'technique': 'Lean 4 proof (round-trip / soundness laws by induction over byte, transfer and batch lists; refinement to spec host/device '
                      'functions; tag-cycle invariant over call sequences; algebraic CRC residue / injectivity / linearity; exact acceptance '
                      'characterisation; generated-layout obligations by decide; retry loop by fuel induction; uint64 model) + differential '
                      'correspondence with independent reference devices; model flag probed from the code under test'},
 'C16': {'text': 'Lean theorems over all lines/texts/trees/annotations/type descriptors (mutual structural recursion, no bounds; 50 theorems, none '
                 'partial): comments — strip_exact, strip_comments_exact, load_ignores_comments, strip_newline_style_irrelevant; duplicate keys — '
                 'duplicate_key_rejected, load_ok_iff; dump/load — strip_render_id, load_dump_roundtrip (json as parameter), dump_has_no_cr; typed '
                 'conversion — admits_iff (parser = independent inductive spec Admits, incl. untyped list/Tuple/dict), admits_functional, roundtrip, '
                 'only_config_error at FULL strength, parse_total, error_names_item, offending_is_rejected/accepted_iff_no_offender, '
                 'ctor_revalidation_noop; acceptance test — check_accepts_iff_supported (_check_config_struct_type = the documented type list, for '
                 'every annotation tree incl. multi-member Union, non-string-key Dict, builtin tuple, None, anything else), check_only_config_error, '
                 'accepted_type_is_handled, parseRaw_only_config_error; entry points — from_dict_is_parse, fromDictFull_rejects_unsupported, '
                 'toplevel_nondict_rejected, createConfig_no_file/arg_wins/errors/ok (which file create_config_from_file reads, config_file '
                 'recorded, only OSError/ValueError/configuration errors); shipped_wf/shipped_roundtrip for the structs regenerated from '
                 'config_defs.py. Fixed on the way (recorded as fixed, reverting either is caught): TypeError from len() of a non-sized value in a '
                 'fixed Tuple (98ede17), OverflowError from float() of a huge int (f71d1e5), TypeError for a non-string unknown key in structure '
                 'data (568944c), to_dict emitting init=False fields that from_dict rejects (f6f101b), a nested structure with an init=False field '
                 "not loadable when given explicitly (f3ca37f; the model's instance branch now mirrors the repaired code: an instance is validated "
                 'through its own items, not dataclasses.asdict). No open finding. Model tied to the code by ~35k quick / ~1M thorough differential '
                 'cases on real @configstruct classes and real files, plus an independent statement-level oracle.',
         'note': 'Trusted: Lean kernel + 3 standard axioms; translator (dataclasses.fields -> Gen/CfgDefs.lean), annotation inspection '
                 '(describe_raw) and harness; json.loads/dumps as parameters (round trip assumed, dumps(indent=4) layout compared differentially); '
                 'regex of _strip_comments re-implemented as a scanner (differential only); floats opaque (repr; float(int) resolved by Python); '
                 'Python repr of dict keys in paths; file system, text decoding, universal newlines, abspath, getenv as parameters (exercised on '
                 'real files). Model keys are strings (non-string keys: oracle only); init=False fields are modelled in the acceptance test only '
                 '(parser and to_dict behaviour on them: fixed oracle corpus, not in the Lean parser — PV.inst/toDict are type-free, so this needs a '
                 "per-field flag through the whole model); ill-typed (never validated) defaults, Python's recursion limit and CPython's 4300-digit "
                 'int<->str limit are out of scope.',
         'technique': 'Lean 4 proof (parser sound+complete against an inductive admission relation; acceptance test = inductive Supported; '
                      'round-trip, error-spec and entry-point theorems; generated per-struct obligations by decide) + differential correspondence '
                      '(structs, raw annotations, texts, real files, create_config_from_file) + independent property oracle + fixed boundary corpus'},
 'C17': {'text': 'Stored data reads back equal (HDF5/text, incl. conversion chains), is never silently overwritten, folders are fresh even under '
                 'concurrent creation, latest-folder lookup is the max for the label and agrees with the listing, recorder keeps every block once '
                 'and in order and every attribute newest-wins under all interleavings, and close() reports a failed writer',
         'note': '48 theorems, all full strength, no _partial: text attribute round trip on every valid value (incl. \\U escapes); '
                 'layout/reshape/scale for all shapes, with well-formedness derived from the DataSet constructor/setters; float64 exactness of the '
                 "text writer's integer check; refused writes leave an empty file only; HDF5 attribute map; overwrite histories; make_folder "
                 'freshness incl. a two-caller interleaving model (only mkdir atomic); find_latest maximal, = last of list_folders, None iff listing '
                 'empty; recorder block conservation, close, attribute newest-wins, writer progress, and — with a writer I/O failure as a model '
                 'action — close() returns normally only if every block recorded before close is in the file. 6 defects found and repaired in /repo '
                 '(10 signatures fixed, last: 342cad2 close() reports a writer error); no open finding. h5py/numpy/OS/CPython float & repr remain '
                 'trusted.',
         'technique': 'Lean 4 models + differential correspondence on the real code (7 write/read/convert paths, tagged layout probes, HDF5 '
                      'attribute-map probes, int(float(v)) vs toF64, DataSet API accept/refuse, store histories with related-label families, '
                      'midnight/year roll-over, list_folders) + forced two-thread race inside make_folder + trace refinement of the recorder with '
                      'the writer thread line-stepped (sys.settrace + cooperative Condition) at every position + I/O fault injection into the writer '
                      "(free-running and line-stepped, refined against the model's crash/close)"},
 'C18': {'text': 'Lean theorems for every packet layout passing WellFormed (live ctypes layout, MAGIC, enum, lookup table, recvfrom sizes, the '
                 'is_valid_object_name limit, the responder port and the default collection window are regenerated into Gen/DiscoveryLayouts.lean on '
                 'every run; gen_layout_wf by decide): glob_sound_complete (state-set matcher = inductive shell-pattern semantics, all '
                 "patterns/names; brackets reproduce CPython 3.12 fnmatch.translate incl. unclosed '[', '[]..]', empty ranges), "
                 'unpack_total/unpack_complete/unpack_valueError_iff, respond_iff (answers iff both filters match, for EVERY context '
                 'QMI_Context.__init__ admits), admit_only_reportable, echo_fields/echo_admitted (request id and timestamp bit-exact; name, '
                 'workgroup, pid, port read back exactly), junk_ignored + junk_then_answers (any datagrams that are not well-formed requests, any '
                 'number/order, leave the responder unchanged), kill_iff/kill_not_answered (os._exit is reached exactly by a well-formed kill '
                 "request, which is never answered), escape_classes (the only exceptions that can leave _handle_read: the enum's ValueError on an "
                 'unknown tag, UnicodeDecodeError of a non-UTF-8 filter; never a QMI exception), client_filters/client_never_self, '
                 'ping_window/ping_stops_at_deadline/ping_turns_bounded/junk_in_window_ignored (the receive loop with its clock: exactly the answers '
                 'that arrive before the deadline, nothing read after it, at most `timeout` turns under any flood if the clock advances), '
                 'discovery_end_to_end (request by create -> any set of running contexts -> list = exactly the matching others; uses a proved UTF-8 '
                 'decode∘encode = id). Tied to the code by differential runs of the real _UdpResponder (reader callback on a fake datagram socket, '
                 'directly and under a real asyncio loop, os._exit shimmed), of ping_qmi_contexts / discover_peer_contexts under a scripted selector '
                 'and clock (every tick around the deadline, floods, stalled clock) and of the real QMI_Context constructor, a three-way glob diff '
                 '(Lean / fnmatch.fnmatchcase / responder) on generated pairs and exhaustive bracket bodies, every truncation length, tag values, '
                 'every one-bit neighbour of a kill request, bit-level id/timestamp sweeps, related names (prefix/suffix/case/trailing newline); '
                 'direct oracle on every trace.',
         'note': 'Trusted: Lean kernel + 3 standard axioms; translator and harness; asyncio containment of the two exception classes that leave '
                 '_handle_read (assumed in the model, exercised under a real event loop; which classes can leave is proved for the model, tied to '
                 'the try/except and raise structure of the source by the translator, and any other class is flagged by the oracle); ctypes, '
                 "fnmatch/re, UTF-8 and the constructor's name checks are re-implemented and diffed, not verified; UDP, selectors and time.monotonic "
                 'are scripted fakes, and that the clock advances between loop turns is an assumption. The trailing-newline quirk of '
                 "is_valid_object_name ('abc\\n' is accepted) is mirrored and shown harmless for discovery. Fixed by eeba404 (found by this check): "
                 'unvalidated workgroup names longer than 64 bytes / containing NUL broke answering and the echoed workgroup.',
         'technique': 'Lean 4 proofs (derivative-based matcher vs inductive spec, packet round-trips, invariance under junk, exact kill and '
                      'exception-escape characterisations, deadline-bounded receive loop, admission => reportable, end-to-end composition) + '
                      'regenerated layout/AST obligations + differential correspondence with the real responder, asker (scripted clock) and context '
                      'constructor'},
 'C19': {'text': 'Lean theorems over an abstract open()/close() program language translated from the source of every transport-based driver (64 '
                 'programs; fuel-based semantics; state = open flag, open links, device log; fault plan = any function from fault-point index to '
                 'exception kind, i.e. any number of faults per call; fault points = link open, every statement not provably pure, and link close). '
                 'Generic: chk_sound (a plan-independent abstract run over flag+links, following normal and exceptional continuations through nested '
                 'handlers, is sound for every plan) ⇒ consistent_of_safe / all_plans_of_safe (open() leaves is_open() ⇔ link held under EVERY plan, '
                 'any nesting, any number of links, including failures of the cleanup itself), close_faults_safe / close_all_plans_of_safe (the same '
                 'for close() after open()), close_after_open(_safe), fault_beyond_end + all_plans_of_table (single-fault family as a finite table, '
                 'used to pin down the exact failing plans of a defective class), consistent_of_wf (readable single-link discipline), '
                 'retry_possible, closed_no_io, method_closed_no_io / guarded_method_refused (RPC-method shapes found by a static guard analysis of '
                 'all ~1460 @rpc_methods), double_open_close_refused. Per class by decide +kernel / rfl: ok_X : ∀ plan, consistent ∧ complete '
                 '(64/64), hist_X, recover_X, shape_X (safeOpen 64/64 and safeClose 64/64: open() and close() of every class are consistent under '
                 'every plan; a class that violated either would get the kernel-checked negation witness bad_X/closebad_X with the computed plan), '
                 "rpcguard_X / rpcbare_X (exact list of methods that rely on the transport's own state check), ok/hist_QMI_Instrument (flag protocol "
                 'of the base class, pattern-checked against instrument.py). Tie: every class is instantiated around recording, fault-injecting '
                 'transports that run the real QMI_Transport.open/close/_check_is_open; swept on every run: every transport call of open() × '
                 '{timeout, instrument error, OS error, junk reply}, pairs of faults, every transport call of close(), close() after every RPC '
                 'method was used; executed statements (line trace), exceptions, is_open() and link flags are diffed against the model run under the '
                 'corresponding plan; fixed corpus + seeded open/close histories with faulty opens/closes; every RPC method on the closed '
                 'instrument, cross-checked against the static guard table; flag-protocol histories on non-transport drivers that can be built here.',
         'note': 'Trusted: Lean kernel (axioms used: propext, Quot.sound); translator harness/tr_openprogs.py (conservative whitelist of pure '
                 "statements; refuses source it does not understand; checks that QMI_Instrument.open/close/_check_* and every transport's close() "
                 'still have the modelled shape) and the fake transport; an `io` statement is one opaque potentially-raising step (assumed not to '
                 'touch flag/links — validated by the per-run trace/state diff). All 19 defects found are repaired (12 in open(): 11 commits; 7 for '
                 'a failure inside close() — 6 drivers closed the transport before clearing the flag, Bristol_871A.close() did not release the '
                 'second link if closing the first failed: 7 commits); reverting a fix is reported as a VIOLATION with a concrete fault; '
                 'known_findings.d/C19.json has no open finding. Out of scope: BaseException during open()/close(); vendor-library handles of '
                 'non-transport drivers (only the flag protocol transfers); `value`/`other` exception kinds are never injected dynamically (a class '
                 'refuted only for them is reported as a broken link).',
         'technique': 'Lean 4 proof (verified abstract interpreter + generic lemmas + per-class decide +kernel on programs translated from source) + '
                      'line-trace fault-sweep correspondence with the real drivers + static guard analysis validated dynamically'},
 'C20': {'text': 'Lean theorems over all symbol lists / file maps / name tables / device states / name lists / value assignments (induction, no '
                 'bounds; 23 theorems, none partial): binding_injective (accepted => names distinct ignoring case, binding injective into '
                 'Par/FPar/array-element resp. Data registers), binding_complete (iff), conflicting_definitions_rejected, '
                 'violation_rejected_with_position (error names file/line/label of the first symbol that names an unknown array, has an '
                 'unconvertible index, or clashes with an earlier definition), analyze_outcomes (binding or ParseException, nothing else), '
                 'ranges_partition (sorted, disjoint, maximal, union = input), batch_set_eq_single (same registers on success; same exception and '
                 'exact partial effect on failure), batch_get_eq_single, batch_get_any_names + batch_get_drops_repeated_spelling (what happens for '
                 'repeated spellings: every entry correct, every register returned, only the surviving spelling differs), '
                 'touches_exactly_bound_registers, set_then_get (batch read after batch write returns what was written), name_denotes_one_register / '
                 'names_resolve_injectively (parser and manager fold with upper(); unconditional on the modelled alphabet), '
                 'batch_get_eq_single_on_parsed_program, validated_accessors_eq_library_semantics + batch_eq_single_validated (the Adwin_Base '
                 'validation layer - index ranges 1..80 / 1..200, first element >= 1, integer dtype of a merged range - is in the model; on existing '
                 'registers and well-typed values it is the identity, so all batch theorems hold through the real driver layer), '
                 'nonexistent_register_refused (Par_0, FPar_81, Data_201, Data_x[0]: the name denotes no register and never another one - refused '
                 'before any device call), config_table_spec (ProgramInfo.from_config with explicit parameters: exactly the configured table, names '
                 'unique ignoring case, every spelling resolves to its own entry), start_with_params_eq_single / '
                 'start_with_params_touches_every_parameter (zero-fill path), parse_terminates (unconditional: <= length fs + 1 opens for every file '
                 'map incl. include cycles; result independent of the budget), include_cycle_parsed_once. Five defects found by the check and '
                 'repaired, each now proved at full strength and re-detected when its fix is reverted: 48b63c7 (include cycle / self-include never '
                 'terminated), 53c483e (>4300-digit index -> ValueError), 5ae01c1 (manager folded names with lower(), parser with upper(): U+212A '
                 "KELVIN SIGN name resolved to another name's register), e4893fe (from_config accepted bar/Bar and resolved Bar to bar's register). "
                 'Tie: six differential streams against the real code (scanner texts, include resolution, range lists, ~8k layouts with injected '
                 'duplicates/conflicts incl. Par_n<->FPar_n rebinding, non-ASCII case twins, registers at and beyond the device limits + accessor '
                 'ops on the real Adwin_Base over a fake ADwin library incl. refused accesses and floats into integer arrays, ~1.5k hand-configured '
                 'tables through ProgramInfo.from_config, ~1.5k generated program trees on disk incl. nested/diamond/cyclic/missing includes, '
                 'same-basename files and un-normalised spellings of one path) ~ 25k cases quick / 230k thorough, plus a direct oracle (one-to-one '
                 'or positioned rejection of a real conflict; every resolved include parsed and every #Define line of a parsed file reported; '
                 'open()-budget watchdog + include-cycle detection; own spelling resolves to own register; batch == one-at-a-time on registers, '
                 'values, types, touched = bound, read-back = written; outside the set-of-names domain: same exception as one at a time, exact '
                 'partial effect, repeated spellings; nonexistent registers refused without a trace).',
         'note': 'Trusted: Lean kernel + 3 standard axioms; harness/generators; the six regexes, splitlines/universal newlines, posixpath '
                 'join/dirname/normpath and the int() digit limit are re-implemented in the model and only differentially checked; '
                 'str.upper()/lower() are modelled on ASCII plus the eleven non-ASCII code points that have an ASCII case partner (sharp s, dotless '
                 'i, long s, Kelvin sign, ligatures) - other non-ASCII letters are outside the modelled alphabet; file system = finite path->text '
                 'map (open() resolution ~ normpath, no symlinks, every OSError one value); below Adwin_Base the ADwin library is a total register '
                 'file that stores values as given (array lengths, 32-bit wrap-around, float32 rounding, the int->float64 conversion on store are '
                 "the library's/numpy's; numpy dtype unification is modelled as 'float dtype iff some value is a float'; comparisons are numeric). "
                 'Model fuel = open() calls = the harness watchdog budget (200). Register existence (Par_0, Par_81, ...) is deliberately not a parse '
                 "error: the parser has no device knowledge; the statement's 'exactly one register' is read as 'never another register', proved as "
                 'nonexistent_register_refused. Hand-configured tables may still give two names one register (no such check in from_config); the '
                 'batch theorems do not need injectivity for writes, and state exactly what reads return.',
         'technique': 'Lean 4 proof (loop invariants over dict-shaped state, two-phase batch vs fold refinement, refinement between the validating '
                      'driver layer and the library-level semantics, measure-function termination of the include walk) + differential correspondence '
                      'with the real parser/manager/driver + watchdog-guarded failing-input search; fix-revert regression for every repaired defect'}}
