"""Per-property claims that go into MANIFEST.json (tools/gen_manifest.py)."""

NOTES = ("Every check: (1) regenerates any Gen/*.lean from /repo, (2) lake-builds the property's theorems and model driver, "
         "(3) audits #print axioms ⊆ {propext, Classical.choice, Quot.sound} and greps for sorry/native_decide/axiom, "
         "(4) runs the model driver and the real QMI code on the same generated inputs and diffs, evaluating the property oracle on "
         "every implementation trace, (5) on a broken link searches the implementation for a failing input. See DESIGN.md.")

NOT_YET = {}

CHECKS = {
    "C01": {
        "text": "Lean theorems about an interleaving transition system of the RPC call life cycle (one object, one peer connection, "
                "unboundedly many calls/callers, removal / stop of either context / disconnect / serialisation faults at any point): "
                "at_most_once, own_outcome (every configuration); no_loss_partial (carrier invariant), calls_complete_partial "
                "(quiescent => every call has its outcome), activity_terminates (measure), object_survives_partial for the repaired "
                "configuration with the client context not stopped; decide-checked hang witnesses for each loss path of the pinned tree. "
                "Tie: real contexts under a deterministic scheduler + simulated network; observed outcome vectors must lie in the "
                "model's terminal set (Lean driver explores the model exhaustively per scenario); fault swept over every yield index.",
        "note": "Trusted: Lean kernel + 3 axioms; scheduler/simnet harness; model atomicity follows the code's locks and is validated by "
                "outcome-set inclusion (bounded, per scenario); pickle/asyncio/OS sockets modelled; model config bits are probed on the "
                "current source. Liveness is proved in the `_partial` form; the full form is false on the pinned tree (5 known findings).",
        "technique": "Lean 4 proof (inductive invariants + termination measure over an interleaving model) + outcome-set correspondence under a deterministic scheduler",
    },
    "C09": {
        "text": "Lean theorems (induction over all op sequences, all capacities ≥ 1, both policies): len_le_cap, queue_sorted, "
                "seq_strict_mono_out, accounting (permutation of range next), gap_is_lost/gap_count, policy_old/new, getNext_total. "
                "Model tied to QMI_SignalReceiver by op-sequence differential runs (20k scenarios quick) plus a direct oracle.",
        "note": "Trusted: Lean kernel + 3 standard axioms; correspondence harness and its generator; deque(maxlen) and "
                "threading.Condition are modelled/exercised, not verified. Blocking get_next_signal is exercised with real threads only.",
        "technique": "Lean 4 proof (inductive invariant over op sequences) + differential correspondence with the real class",
    },
    "C19": {
        "text": "Lean theorems over an abstract open()/close() program language (fuel-based semantics, state = flag, open links, device log; "
                "fault plan = the k-th potentially-raising step raises kind κ): fault_beyond_end (∀ plan reduces to a finite table), "
                "all_plans_of_table, consistent_of_wf (decidable syntactic discipline ⇒ consistent under every plan), retry_possible, "
                "close_after_open, closed_no_io, double_open_close_refused. Per driver class (64 programs regenerated from the AST of "
                "open/close on every run): ok_X : ∀ plan, Consistent (51 classes) or the kernel-checked negation witness bad_X plus exact_X "
                "(the complete list of failing plans; 13 programs = 12 known findings), hist_X, recover_X, shape_X, all by decide +kernel. "
                "Tie: every class is instantiated around recording fault-injecting transports; every transport call of the real open() × "
                "{timeout, instrument error, OS error, junk reply} is swept, executed statements (line trace), exception, is_open() and link "
                "flags are diffed against the model run under the corresponding plan; plus seeded open/close histories (with faulty opens) "
                "and every RPC method on the closed instrument.",
        "note": "Trusted: Lean kernel (axioms used: propext, Quot.sound); translator harness/tr_openprogs.py (conservative: whitelist of pure "
                "statements, refuses source it does not understand) and the fake transport; `io` statements are one opaque potentially-raising "
                "step (assumed not to touch flag/links — validated by the per-run correspondence); concrete transports, faults inside close(), "
                "multiple faults and BaseException are out of scope; consistent_of_wf/close_after_open are stated for single-link drivers.",
        "technique": "Lean 4 proof (generic lemmas + per-class decide +kernel on programs translated from source) + line-trace fault-sweep correspondence with the real drivers",
    },
    "C03": {
        "text": "Lean theorems over all reachable states of an interleaving model of the request path as a pipeline of FIFO stages "
                "(unboundedly many caller threads, contexts, objects, requests; actions start/issue/enqLocal/enqRemote/loopRun/"
                "wireDeliver/workerPop/workerFinish): fifo_pipeline (for every caller c and object o the stages executed++cur++fifo++"
                "wire++ready++hand restricted to (c,o) equal the issue sequence), per_caller_order (+_started,_by_caller: executions "
                "are a prefix of the issue order, incl. non-blocking calls never waited for), no_loss_no_dup, executed_at_most_once, "
                "one_at_a_time (pops-finishes in {0,1} after every prefix of every run), exec_only_by_worker / single_executing_thread / "
                "executed_only_by_finish. Tie: real contexts, proxies, event loops and worker threads under the deterministic scheduler + "
                "simulated network with a probe object (line-level yield points); taps on the proxy call entry, loop hand-off, "
                "_PeerTcpConnection.send_message, handle_message, push_rpc_request, the _fifo deque and the worker loop give a linearised "
                "event log that the Lean driver replays (each event enabled, same queue contents, invariant kept); independent oracle: no "
                "overlap, per-caller sequence 0,1,2,…, no duplicate/phantom execution, one executing thread per object.",
        "note": "Trusted: Lean kernel + 3 axioms; detsched/simnet harness and the taps (incl. the logging subclass installed for "
                "_RpcThread._fifo). Single-workerness is structural in the model (one `cur` slot, `start` guarded) and is checked on the code "
                "only by refinement + overlap/second-thread oracle on explored schedules (300 quick / 7000 thorough). Assumes each caller "
                "thread issues its calls through one context; replies, removal, disconnects, lock requests are out of this model (C01/C04).",
        "technique": "Lean 4 proof (inductive invariant over an interleaving pipeline model) + trace refinement under a deterministic scheduler",
    },
}
