"""Per-property claims that go into MANIFEST.json (tools/gen_manifest.py)."""

NOTES = ("Every check: (1) regenerates any Gen/*.lean from /repo, (2) lake-builds the property's theorems and model driver, "
         "(3) audits #print axioms ⊆ {propext, Classical.choice, Quot.sound} and greps for sorry/native_decide/axiom, "
         "(4) runs the model driver and the real QMI code on the same generated inputs and diffs, evaluating the property oracle on "
         "every implementation trace, (5) on a broken link searches the implementation for a failing input. See DESIGN.md.")

NOT_YET = {}

CHECKS = {
    "C01": {
        "text": "Lean theorems about an interleaving transition system of the RPC call life cycle (one object, one peer connection, "
                "unboundedly many calls/callers, removal / stop of either context / disconnect / serialisation faults at any point): "
                "at_most_once, own_outcome (every configuration); no_loss_partial (carrier invariant), calls_complete_partial "
                "(quiescent => every call has its outcome), activity_terminates (measure), object_survives_partial for the repaired "
                "configuration with the client context not stopped; decide-checked hang witnesses for each loss path of the pinned tree. "
                "Tie: real contexts under a deterministic scheduler + simulated network; observed outcome vectors must lie in the "
                "model's terminal set (Lean driver explores the model exhaustively per scenario); fault swept over every yield index.",
        "note": "Trusted: Lean kernel + 3 axioms; scheduler/simnet harness; model atomicity follows the code's locks and is validated by "
                "outcome-set inclusion (bounded, per scenario); pickle/asyncio/OS sockets modelled; model config bits are probed on the "
                "current source. Liveness is proved in the `_partial` form; the full form is false on the pinned tree (5 known findings).",
        "technique": "Lean 4 proof (inductive invariants + termination measure over an interleaving model) + outcome-set correspondence under a deterministic scheduler",
    },
    "C09": {
        "text": "Lean theorems (induction over all op sequences, all capacities ≥ 1, both policies): len_le_cap, queue_sorted, "
                "seq_strict_mono_out, accounting (permutation of range next), gap_is_lost/gap_count, policy_old/new, getNext_total. "
                "Model tied to QMI_SignalReceiver by op-sequence differential runs (20k scenarios quick) plus a direct oracle.",
        "note": "Trusted: Lean kernel + 3 standard axioms; correspondence harness and its generator; deque(maxlen) and "
                "threading.Condition are modelled/exercised, not verified. Blocking get_next_signal is exercised with real threads only.",
        "technique": "Lean 4 proof (inductive invariant over op sequences) + differential correspondence with the real class",
    },
}
