"""Per-property claims that go into MANIFEST.json (tools/gen_manifest.py)."""

NOTES = ("Every check: (1) regenerates any Gen/*.lean from /repo, (2) lake-builds the property's theorems and model driver, "
         "(3) audits #print axioms ⊆ {propext, Classical.choice, Quot.sound} and greps for sorry/native_decide/axiom, "
         "(4) runs the model driver and the real QMI code on the same generated inputs and diffs, evaluating the property oracle on "
         "every implementation trace, (5) on a broken link searches the implementation for a failing input. See DESIGN.md.")

NOT_YET = {}

CHECKS = {'C01': {'text': 'Lean theorems about an interleaving transition system of the RPC call life cycle (one object, one peer connection, unboundedly '
                 'many calls/callers; removal / stop of either context / disconnect / serialisation faults at any point): at_most_once, own_outcome '
                 '(every configuration); calls_complete — FULL statement for the configuration of the current source: whenever the system is at rest '
                 "every issued call has its outcome, except the calls in the ghost set `lost` (requests dropped by the caller's own stopping "
                 'context), with lost_only_when_client_stopped (`lost = []` unless the client context was stopped) and no_loss (carrier-or-lost '
                 "invariant); activity_terminates (measure: every internal action decreases `mu`, so completion needs no fairness beyond 'enabled "
                 "threads run'); object_survives; kernel-checked hang witnesses for each historical loss path and for the remaining one "
                 '(client_stop_loses_request). 26 theorems. Tie: real contexts/proxies/worker/socket threads under a deterministic scheduler + '
                 "simulated network; for every generated scenario the observed outcome vector must lie in the model's terminal set (the Lean driver "
                 "explores the model exhaustively per scenario); the fault is swept over every yield index; the model's configuration bits are "
                 'probed on the current source on every run.',
         'note': "Trusted: Lean kernel + 3 axioms; scheduler/simnet harness; atomicity of model actions follows the code's locks and is validated by "
                 'outcome-set inclusion (bounded, per scenario); pickle/asyncio/OS sockets modelled; one object + one connection (others are '
                 'independent copies). Fixed in /repo: 5177c53 (force_unlock on an unlocked object killed the worker), dc3d515 (unpicklable '
                 'arguments/results and oversize results left the caller waiting) — reverting either is reported as a violation. Open known finding: '
                 "a call issued while the caller's own context is being stopped can be dropped silently (exactly the `lost` set of the theorem); "
                 'repair judged not small/safe (DESIGN §11.4).',
         'technique': 'Lean 4 proof (inductive carrier-or-lost invariant, structural queue invariants, termination measure over an interleaving '
                      'model) + outcome-set correspondence under a deterministic scheduler'},
 'C02': {'text': 'Lean theorems over the forwarding model (all method names, args, kwargs, aliases, context names, any number of concurrent callers '
                 'and arrival orders): proxy_eq_direct at full strength (outcome of a blocking or non-blocking proxy call = outcome of the direct '
                 'call, local and peer placement, with stubs and helper signature as extracted from the current source, given pickle round-trips the '
                 "call's values), payload_untouched, transfer_ok, round_trip_restores_addresses, kwargs_and_args_preserved, "
                 'stub_sends_own_name(+_gen), gen_helper_params_empty, unique_address_injective, issued_addresses_nodup, incoming_aliases_distinct, '
                 'accept_keeps_routes, reply_goes_to_requester, concurrent_callers_own_outcome. Tie: differential testing of a direct object against '
                 'local/peer proxies (simulated network under the deterministic scheduler; real loopback TCP in thorough) over structured random '
                 'values, concurrent-caller and client-churn (connect/disconnect/reconnect) families, and line-by-line replay of the tapped '
                 'message-level trace on the Lean driver.',
         'note': 'Value fidelity across pickle is VALIDATED DIFFERENTIALLY, NOT PROVED (theorems assume decode(encode v)=v; values plain pickle does '
                 'not reproduce are outside the quantifier, excluded and counted). The keyword-name collision with the helper parameters '
                 '(context/rpc_object_address/method_name/rpc_lock_token) found by this check was fixed in 266e9a5 (positional-only); '
                 'gen_helper_params_empty now guards it and the former failing calls are replayed as a regression test. Reply routing between client '
                 'connections rests on the freshness of $client_N aliases (incoming_aliases_distinct); the churn family checks it on the real code. '
                 'rpc_timeout is a reserved proxy keyword. Trusted: taps/value generator/equality in harness/props/_c02_*.py, stubKwargs as model of '
                 'Python argument binding, lock state as an input (C04), framing (C06), send-failure branches of _SocketManager.send_message (C01).',
         'technique': 'Lean 4 proof (forwarding/routing model, unbounded callers) + AST translator (stub binding, helper signature) + differential '
                      'testing and trace refinement against the real code under a deterministic scheduler'},
 'C03': {'text': 'Lean theorems over all reachable states of an interleaving model of the request path as a pipeline of FIFO stages (unboundedly '
                 'many caller threads, contexts, objects, requests; actions '
                 'start/issue/enqLocal/enqRemote/loopRun/wireDeliver/workerPop/workerFinish): fifo_pipeline (for every caller c and object o the '
                 'stages executed++cur++fifo++wire++ready++hand restricted to (c,o) equal the issue sequence), per_caller_order '
                 '(+_started,_by_caller: executions are a prefix of the issue order, incl. non-blocking calls never waited for), no_loss_no_dup, '
                 'executed_at_most_once, one_at_a_time (pops-finishes in {0,1} after every prefix of every run), exec_only_by_worker / '
                 'single_executing_thread / executed_only_by_finish. Tie: real contexts, proxies, event loops and worker threads under the '
                 'deterministic scheduler + simulated network with a probe object (line-level yield points); taps on the proxy call entry, loop '
                 'hand-off, _PeerTcpConnection.send_message, handle_message, push_rpc_request, the _fifo deque and the worker loop give a linearised '
                 'event log that the Lean driver replays (each event enabled, same queue contents, invariant kept); independent oracle: no overlap, '
                 'per-caller sequence 0,1,2,…, no duplicate/phantom execution, one executing thread per object.',
         'note': 'Trusted: Lean kernel + 3 axioms; detsched/simnet harness and the taps (incl. the logging subclass installed for _RpcThread._fifo). '
                 'Single-workerness is structural in the model (one `cur` slot, `start` guarded) and is checked on the code only by refinement + '
                 'overlap/second-thread oracle on explored schedules (300 quick / 7000 thorough). Assumes each caller thread issues its calls '
                 'through one context; replies, removal, disconnects, lock requests are out of this model (C01/C04).',
         'technique': 'Lean 4 proof (inductive invariant over an interleaving pipeline model) + trace refinement under a deterministic scheduler'},
 'C04': {'text': 'Lean theorems at full strength over every system state (any number of context instances incl. same-named ones, proxies, tokens) '
                 'and, by induction, every finite history: gen_eq_spec (generated lock table = reference for all token values, no cell crashes), '
                 'guard_eq_spec, single_owner, lock_free_object, lock_granted_means_owner, reserved_token_refused, only_owner_executes(+_history), '
                 'refused_without_executing, owner_gets_through, count_changes_only_by_execution, release_only_by_owner_or_force(+_history), '
                 'is_locked_truthful, lock_requests_total, never_hangs, nb_token_in_sync, mkToken_injective, auto_tokens_distinct, '
                 'only_holder_executes. Gen/LockFsm.lean is regenerated every run by executing the real '
                 '_handle_lock_rpc_request/_handle_method_rpc_request on a stub thread for every (action, state, token relation) cell; 400 random '
                 'histories (quick) + exhaustive cell sweep on real QMI_Context instances over loopback TCP, diffed with the model driver and judged '
                 'by an independent ideal-lock oracle; 2-4 concurrent threads under the deterministic scheduler with line-level yield points in '
                 'make_unique_token (weighted/pct policies, change-point sweeps), worker request log replayed on the model.',
         'note': 'No open finding. Fixed in /repo: 5177c53 (force_unlock of an unlocked object killed the worker), 93903ab (same-named client '
                 'contexts shared automatic tokens), 51f8317 (ACCESS_DENIED placeholder as custom token reported a denied lock as granted); each '
                 'reverted fix is re-found as a new violation. Assumed, not proved: identifiers os.urandom gives to distinct context instances '
                 "differ (hypothesis of auto_tokens_distinct / only_holder_executes); no custom token deliberately imitates '$lock_<id>_<n>'. "
                 'Trusted: translator (tokens only compared - checked with randomised tokens), proxy-side model and mkToken tied by correspondence '
                 'only, atomicity of make_unique_token and of one worker request checked over schedules not proved, message transport exercised not '
                 'verified, lock(timeout>0) not modelled.',
         'technique': 'Lean 4 proof (generated finite table + inductive invariants over op histories) + executing translator + differential '
                      'correspondence on real contexts + schedule exploration with trace refinement + ideal-lock oracle'},
 'C05': {'text': 'Lean theorems over every class table (MRO of member tables name↦kind + instance dict) and every name (all strings via an injective '
                 'encoding, proved), for the repaired dispatcher (static lookup, b296ced). For EVERY class: rejected_runs_nothing, '
                 'effects_only_call, invokable_iff_advertised_of_unshadowed, absent_name_rejected, protected_names_never_advertised, '
                 'protected_names_rejected_of_constructible. For well-formed classes: dispatch_sound (∀n, invokable↔advertised ∧ (¬invokable → no '
                 'effects ∧ unknown-RPC reply)), invokable_only_declared, wellFormed_iff. Gen/RpcClasses*.lean regenerated on every run from the '
                 'live classes (94 QMI_RpcObject classes): 94/94 wf_<Class> by kernel evaluation, no exceptions; 110 theorems. Tie: every class '
                 'instance behind the real RpcObjectManager/_RpcThread, hand-built method requests for dir(obj) ∪ dunders ∪ near-misses ∪ random '
                 'strings (34k quick / 140k thorough) with a sys.setprofile tap, diffed against the Lean driver; ~1200 (quick) generated hierarchies '
                 '(properties, cached properties, static/class methods, callables, hooks, overrides, protected names) through the real '
                 'metaclass/descriptor/dispatch code.',
         'note': 'Trusted: Lean kernel + 3 axioms; translator (member classification, AST reading of decorators, fake construction; 12 classes built '
                 'via __new__); inspect.getattr_static / getmembers mirrored and validated differentially; instance attributes assigned after '
                 'construction, non-str names, classes overriding __getattribute__ and the lock-token test are outside. No open findings; 18 fixed '
                 '(b296ced: property getters ran on lookup); the reverted fix is caught with concrete inputs.',
         'technique': 'Lean 4 proof (generic theorems, several unconditional, + generated per-class obligations by decide +kernel) + differential '
                      'correspondence of every shipped and generated class through the real dispatch path'},
 'C06': {'text': 'Lean theorems over all byte strings, segmentations, payload lists, handler/pending/connection tables (induction, no bounds) about '
                 'a branch-by-branch model of _PeerTcpConnection (_receive_data loop, _process_message, close/_clear_pending_requests, send_message, '
                 'receive_handshake) and _SocketManager (incl. send_message failure handling): chunking_invariance / all_segmentations / '
                 'single_bytes (feeding any segmentation = feeding the concatenation: same state, same events), frame_roundtrip, '
                 'delivers_exactly(+_any_segmentation) (handshake ++ frames => exactly the decoded messages, in order, only the source context '
                 'rewritten to the alias, buffer empty), violation_closes + violation_delivers_nothing_more with instances for wrong marker, '
                 'oversize length (size_limit_exact), undecodable / non-message payload, missing / nameless / wrong-direction / repeated handshake '
                 '(second_handshake_offends: after any accepted handshake and any error-free run), foreign source / destination; '
                 'closed_is_absorbing; pending_all_failed (any handler behaviour: table emptied, exactly one addressed error reply per entry, in '
                 'order), close_never_escapes, eof_/violation_/disconnect_/loss_fails_pending; isolation, isolation_events, closed_peer_is_unknown, '
                 'send_isolation; unsendable_request_fails, unsendable_reply_replaced. Tie: the real MessageRouter/_SocketManager/_PeerTcpConnection '
                 'driven single-threaded through in-memory sockets; real pickled QMI messages, 19 fault kinds at random frame index/offset, 8 cut '
                 'modes down to single bytes, random pending sets at loss (violation/EOF/disconnect), handlers that refuse or raise, sends before '
                 'the handshake / over the size limit / on a failing socket, a bystander connection, reduced and real MAX_MESSAGE_SIZE incl. a '
                 '10,000,000-byte frame; every recv of the real code is one op line for the Lean driver (3.2k scenarios / 120k recv quick, 41k / '
                 '1.5M thorough) and an independent reference oracle checks delivery/containment/pending/isolation after every step; search sweeps '
                 'all cut points and fault positions.',
         'note': 'Trusted: Lean kernel + 3 axioms; the fake socket/loop harness (c06_fakes.py) and its taps (deliver_message wrapper, log record of '
                 '_handle_read); pickle as token oracle; TCP FIFO and asyncio reader dispatch modelled; socket-manager code run single-threaded '
                 '(_EventDrivenThread replaced); handler behaviour is a model parameter; receive_handshake tied by correspondence only; error '
                 'replies assumed to fit the size limit. All theorems at full strength on the repaired tree; 3 findings fixed (849271e nameless '
                 'handshake, 6a33dc7 _clear_pending_requests handler exception x2); reverting either fix (or dc3d515) yields a VIOLATION with a '
                 'concrete input.',
         'technique': 'Lean 4 proof (induction over byte streams / frame lists; fuel-based frame loop with unfolding lemmas) + recv-by-recv '
                      'differential correspondence with the real connection layer over in-memory sockets + independent reference oracle'},
 'C07': {'text': 'Lean theorems over an interleaving model of SignalManager (one micro-operation per lock section, unbounded '
                 'contexts/publishers/receivers/threads/connections): key_injective (+remote, prefix test); delivered_iff_in_snapshot(+_done): every '
                 'snapshot _deliver_local takes is delivered to exactly its members, once, labelled with its key; no_delivery_after_unsubscribe '
                 '(unsubscribe_takes_effect, quiet_preserved); per_publisher_thread_order_local (full) and per_publisher_thread_order_partial (all '
                 'receivers, assuming NetworkFifo). Tie: trace refinement — 1-3 real contexts under the deterministic scheduler and simulated '
                 'network, every lock section / loop enqueue / delivery / socket event replayed on the model (1000 scenarios quick), plus an '
                 'independent exactly-once / order / subscribed-only / not-after-unsubscribe oracle on the event log and final queues.',
         'note': 'Partial: the FIFO composition event-loop queue → connection → socket thread across connect/disconnect (hypothesis NetworkFifo, '
                 "also covering 'one snapshot per publication and context') is not mechanised; checked on the implementation by the oracle. "
                 'Modelled, not verified: atomic connect, send failure only after the peer closed, set iteration order as a choice, pickling/framing '
                 '(C06), receiver capacity (C09); trusted: scheduler, simulated network, tap layer (harness/props/pubsub_common.py).',
         'technique': 'Lean 4 inductive invariants over an interleaving transition system + trace refinement of real executions under a '
                      'deterministic scheduler + property oracle'},
 'C08': {'text': 'Same model as C07. Proved: failed_subscribe_leaves_nothing (+ failed_reply_leaves_nothing, failed_local_subscribe_changes_nothing, '
                 'rejected_request_leaves_no_remote_subscriber), removal_ends_both_ends and disconnect_ends_both_ends (per step: tables emptied, a '
                 'notice for every remote subscriber, teardown always runs), subscribe_terminates_partial (each of reply / local send failure / '
                 'connection close releases the waiting call), and quiescent_consistency_false: the full statement is refuted by a kernel-evaluated '
                 'witness trace (subscribe racing with remove_rpc_object). Tie: histories of subscribe/unsubscribe lanes racing with '
                 'remove/make/connect/disconnect/stop on real contexts; after every step drain, dump both tables, compare with the model, probe '
                 'publications (550 histories + targeted race sweep quick). KNOWN-FINDING: DESIGN §7(l) reproduced on the real code.',
         'note': 'Not proved: quiescent_consistency_partial (needs the full request/reply/notice pipeline invariant) and the carrier invariant '
                 'behind subscribe_terminates; both are checked on the implementation only (quiescent table iff, probe deliveries, transmitted-peer '
                 'sets, no deadlock under the scheduler). A context stopping while its own thread subscribes is outside the quantifier. Trusted: '
                 'scheduler, simulated network, tap layer.',
         'technique': 'Lean 4 invariants + kernel-checked counterexample trace + trace/table refinement under a deterministic scheduler with a '
                      'targeted PCT sweep of the racing handler'},
 'C09': {'text': 'Lean theorems (induction over all op sequences, all capacities ≥ 1, both policies): len_le_cap, queue_sorted, seq_strict_mono_out, '
                 'accounting (permutation of range next), gap_is_lost/gap_count, policy_old/new, getNext_total. Model tied to QMI_SignalReceiver by '
                 'op-sequence differential runs (20k scenarios quick) plus a direct oracle.',
         'note': 'Trusted: Lean kernel + 3 standard axioms; correspondence harness and its generator; deque(maxlen) and threading.Condition are '
                 'modelled/exercised, not verified. Blocking get_next_signal is exercised with real threads only.',
         'technique': 'Lean 4 proof (inductive invariant over op sequences) + differential correspondence with the real class'},
 'C10': {'text': 'Lean theorems over all reachable states / all finite histories of an interleaving model of the task lifecycle (task thread: '
                 'initOk/initFail/wake/runEnter/updCheck/updPop/runEnd/mark/threadEnd; runner constructor; serialised runner operations '
                 'startCheck+startKick, stopRegion+stopSet, blocking join, isRunning, setSettings/getSettings/getPending; one action per `with '
                 '_state_cond` region): run_at_most_once(+_hist), run_only_after_start(+_hist), stop_first_never_runs(+_hist), second_start_refused '
                 '/ start_after_stop_refused, first_start_accepted, start_never_asserts, join_returns_only_when_finished, join_raises_iff_exception, '
                 'join_after_stop_first_not_stuck, is_running_iff_running, update_true_iff_posted_since_last and settings_newest_wins (incl. a post '
                 'between the emptiness test and the pop), pending_is_newest. Tie: the real context, task proxy (incl. with-form), QMI_TaskRunner '
                 'and _TaskThread under the deterministic scheduler with scripted task bodies and random runner histories (2.9k scenarios quick / '
                 '22k thorough); taps at every protected region, the stop flag and every settings-deque operation give a linearised event log that '
                 "the Lean driver replays (each event enabled, same result, same state abstraction; a reported 'join waits for ever' must be a model "
                 'state where join is disabled); independent oracle.',
         'note': 'Trusted: Lean kernel + 3 axioms; detsched/simworld harness and the taps. Region = one action; deque(maxlen=1) modelled as an '
                 'Option slot (real deque contents reported); RPC serialisation (C03), signal publication in update_settings (C07), wake-up in '
                 'stop_task (C11), _request_shutdown and QMI_LoopTask are outside the model. No defect found.',
         'technique': 'Lean 4 proof (inductive invariant over an interleaving transition system + history lemmas) + trace refinement under a '
                      'deterministic scheduler + independent property oracle'},
 'C11': {'text': 'Lean theorems over all runs and all interleavings (closure_sound: a set containing the initial states and closed under every '
                 "thread's step contains every reachable state) of systems built from programs REGENERATED on every run from the AST of stop_task, "
                 'wait_for_condition, QMI_Task.sleep, pubsub._wait_for_condition, get_next_signal, QMI_LoopTask.run (Gen/SyncProgs.lean; generic '
                 'interpreter for locks/conditions/events/slot/calls/try-finally). Per system (sleep; get_next_signal with and without timeout + '
                 'publisher; loop task; two stop requests) the kernel computes the reachable set and checks closure and all obligations (decide '
                 '+kernel): no_lost_wakeup, no_deadlock, no_thread_error_and_flag_set, wait_after_stop_does_not_park, released_with_stop_exception, '
                 'sleep_interruptible, loop_task_finalises; negative witness lookup_before_flag_loses_wakeup. Tie: real context/task/proxy under the '
                 'deterministic scheduler with line-level yield points; stop request swept over every yield index (6.7k schedules quick / 68k '
                 'thorough); each primitive-operation trace must be a path of the generated system; oracle: stop exception seen, join returns, 0 s '
                 'virtual time between stop() and release, loop_finalize ran once.',
         'note': 'Trusted: Lean kernel + propext/Quot.sound; translator tr_syncprogs.py (partial evaluation for state RUNNING, data-dependent '
                 'branches as nondeterministic choice) validated by trace following; semantics of threading primitives as modelled, time abstract; '
                 'publisher critical section atomic; liveness in the form no deadlock + no lost wake-up + task-only time-out-free run ends in the '
                 'stop exception within 40 steps, under fairness; kernel-checked systems ≤ 229 states each, bigger products only by native '
                 'exploration. No defect found.',
         'technique': 'Lean 4 proof (generic closure lemma + per-generated-system reachable set and obligations by decide +kernel) + source->model '
                      'translator + systematic schedule sweep / trace refinement under a deterministic scheduler'},
 'C12': {'text': 'Lean theorems over all finite histories with faults at any constructor / release step / stop handler / start step (invariant WF, '
                 'induction): name_unique, duplicate_refused, failed_ctor_no_residue (every state), remove_no_residue, make_remove_no_residue, '
                 'name_free_after_failed_ctor/remove, stop_releases_each_once (count = 1), released_at_most_once, '
                 'stop_ends_all_threads_and_connections, call_never_hangs, stale_proxy_fails_promptly, no_restart, double_start_stop_usage_error, '
                 'failed_start_leaves_nothing (+ start_retry_after_failure), failed_qstart_leaves_nothing, dropped_contexts_empty, '
                 'process_can_start_again (every process history, all start faults); stop‖make clean under all schedules (stop_make_all_schedules). '
                 'Model tied to QMI_Context / context_singleton by state-refinement runs on real contexts under the deterministic scheduler and '
                 'in-memory network (4.2k scenarios quick): after every op the object map, handler map, live managers/threads (scheduler and '
                 "threading.enumerate), sockets, release order and events are compared with the model; stop‖make outcomes must lie in the model's "
                 'outcome set; calls through proxies racing remove()/stop() (local and peer callers, line-level yields in '
                 'RpcObjectManager.handle_message, change-point sweep) checked by the oracle.',
         'note': 'Trusted: Lean kernel + 3 standard axioms; harness (taps, detsched, simnet) and generators. Modelled not verified: OS thread '
                 'teardown, sockets (simnet; UDP bind fault injected), name validity as input flag, SignalManager/$pubsub, non-Exception stop '
                 'handlers and qmi.context().stop() (the two misuses excluded from process_can_start_again). stop‖make theorems are for the '
                 '$context-only population (larger ones by exhaustive exploration in the driver); calls racing remove/stop are explored schedules + '
                 'oracle only. Fixed in /repo: failed-start roll-back (d5615ad, 8 former findings), handler registered under the map lock (104bb5b); '
                 'reverting either commit is reported as a VIOLATION with a concrete input.',
         'technique': 'Lean 4 proof (inductive invariant over op histories; exhaustive kernel decide over schedules lifted to all schedules) + '
                      'refinement correspondence with the real classes under a deterministic scheduler'},
 'C13': {'text': 'Lean theorems about an executable model of QMI_Tcp/Udp/SerialTransport (read, read_until, read_until_timeout, discard_read, open, '
                 'close; device = oracle script of recv results data|timeout|eof with elapsed virtual time, i.e. every packetisation and arrival '
                 'timing), for all states, scripts, terminators (any length), counts, time-outs (None/0/+/-) and all op sequences incl. the device '
                 'sending at any point: conservation (returned/discarded log ++ buffer ++ undelivered = device stream; unconditional for TCP/serial '
                 '= conservation_stream, for UDP when every datagram fits the packet size = conservation_udp, otherwise exactly one datagram lost = '
                 'lost_datagram_step), read_exact, readUntil_shortest (+ chunking invariance), timeout/exception_consumes_nothing, '
                 'readUntilTimeout_le_n for all three transports (+ keeps_rest), closed_never_touches_device, open_close_state_machine / isOpen_run, '
                 'discard_empties_buffer, exhausted_only_when_script_empty. 27 theorems, all full strength. Tie: the three real transports against a '
                 'scripted socket / serial.Serial and virtual time.monotonic; result, exception class, every device interaction, clock, script '
                 'position and _read_buffer diffed with the Lean driver per op; independent oracle: returned bytes are the front of the undelivered '
                 'stream, buffer = undelivered, exactly-n / shortest / at-most-n, a datagram that fits the packet size is never lost or cut, closed '
                 '=> no device call, open/close refusals.',
         'note': "Trusted: Lean kernel + 3 axioms; the scripted device (stream recv <= requested with remainder kept, datagram whole or OSError, b'' "
                 'at EOF, settimeout(<0) ValueError, in_waiting/reset_input_buffer semantics) and virtual clock; bytearray.find/endswith mirrored '
                 'and diffed; open() always succeeds (connect failure not modelled); write() not modelled; packet-size constants read from the live '
                 'classes each run. 0 known findings; 1 fixed (916a4b4: UDP read_until_timeout returned more than n bytes), reverting the fix is '
                 'reported as a new violation with a concrete input.',
         'technique': 'Lean 4 proof (stream-accounting invariant by induction over fuel-recursive loop models and op lists) + op-sequence '
                      'correspondence with device-interaction traces against scripted devices'},
 'C14': {'text': 'Lean theorems, generic over all parser tables passing the decidable checks EnvOk/AllAligned (Gen regenerated from the live parser '
                 'instances, constructor signatures and create_transport AST; both checks re-decided on it every run), all strings, all well-typed '
                 'default dictionaries, both platforms: total (FULL strength: a transport or QMI_TransportDescriptorException, nothing else), '
                 'escapes_classified, faithful/defaults_only_fill/defaults_fill_absent/foreign_defaults_dropped/create_faithful (every attribute = '
                 'typed token, else caller default, else ctor default), roundtrip_usbtmc/tcp/udp/vxi11, hex_id_roundtrip, decimal_roundtrip. Model '
                 'tied to qmi.core.transport by differential runs (120k create_transport cases quick: grammar-valid, one mutation, arbitrary; x '
                 'random defaults x platform; parse_parameter_strings, _parse_parts, int/float/host/inet_pton/_format_resources streams; 5k call '
                 'histories sharing ONE defaults object, as dict or read-only Mapping) and an independent property oracle incl. list->parse round '
                 "trips and 'caller's defaults unchanged'.",
         'note': 'Six defects found by this check were repaired in /repo (c763390, 794f5cc, d053f6d, 4a3416c, 8caa6aa, 72eceb6; each revert is '
                 "re-detected with a concrete input). Still known: USB serial numbers containing ':' are listed as descriptors that do not parse "
                 'back (needs a grammar extension). Trusted: regex/int()/float()/inet_pton re-implementations and the __init__/_validate_* bodies '
                 "are hand-modelled and checked only differentially; gethostbyname('localhost') pinned; lone-surrogate strings and ill-typed "
                 'defaults out of scope; pyvisa stubbed, transports never opened.',
         'technique': 'Lean 4 proof (generic over regenerated tables, decidable table checks by decide, symbolic round-trip proofs) + translator + '
                      'differential correspondence with near-miss and call-history generators + direct oracle'},
 'C15': {'text': 'Composite of part A (SCPI, USBTMC; Props/C15.lean, 27 theorems) and part B (Interbus, APT, T2; Props/C15B.lean, 55 theorems), all '
                 'over unbounded payloads/lengths/splits, no _partial. A: scpi_ask_roundtrip, scpi_missing_terminator_errors, scpi_ask_sound, '
                 'readBinary_roundtrip/encodeBlock (1..9 digits), bad hash/digit count/length/tail => QMI_InstrumentException, '
                 'readBinary_total/sound; USBTMC device_decodes_write(s) (spec device decoder ∘ write_raw = payload for all max_transfer_size ≥ 1), '
                 'writeRaw_aligned4, writeRaw_eom_only_last, btag_cycle, readRaw_reassembles (every split), readRaw_refines_hostSpec, '
                 'incomplete/short-header errors. B (constants, ctypes layouts, escape tables regenerated into Gen/Layouts.lean from the source, '
                 'side conditions by decide): unescape_escape, escape_no_terminator, crc_appended_is_zero (algebraic), crc_detects_single_byte, '
                 'decode_encode, bad_crc_rejected, corrupted_frame_rejected, request_response (fuel MAX_RETRY_COUNT), request_response_delivers; APT '
                 'unpack_pack/pack_unpack, write_data_wire (dest|0x80, length), ask_checks_id/ask_ok_id; T2 batch_split_invariance, counter_spec, '
                 'timestamp_spec. Tie: the real ScpiProtocol, usbtmc.Instrument, Interbus codec/protocol, AptProtocol + packet classes, '
                 '_T2EventDecoder driven through scripted fake transports/endpoints, diffed line by line with the Lean drivers (258k cases quick); '
                 'oracle = independent reference devices written from IEEE 488.2 / USBTMC 1.0 / NKT / APT / PicoQuant documents.',
         'note': 'Trusted: Lean kernel + 3 axioms; translators (AST patterns, fail loudly) and the reference devices; transports below the codecs '
                 'are harness fakes (real transports: C13); struct/ctypes/bytes.replace/numpy shift-mask-cumsum mirrored and differentially checked; '
                 'uint64 wrap out of scope; Rigol/Advantest quirk paths differential only. No known findings. Observation outside the statement: '
                 'read_raw does not validate MsgID/bTag of Bulk-IN headers (theorem readRaw_tag_fields_unchecked).',
         'technique': 'Lean 4 proof (round-trip/soundness laws by induction, algebraic CRC residue, generated-layout obligations by decide) + '
                      'differential correspondence with independent reference devices'},
 'C16': {'text': 'Lean theorems over all lines/texts/trees/type descriptors (mutual structural recursion, no bounds): strip_exact, '
                 'strip_comments_exact, load_ignores_comments, duplicate_key_rejected/load_ok_iff, strip_render_id + load_dump_roundtrip (json as '
                 'parameter), admits_iff (parser = independent inductive spec Admits), admits_functional, roundtrip (parseValue τ (toDict v) = ok '
                 'v), only_config_error at FULL strength + parse_total (every outcome is a structure or a QMI_ConfigurationException), '
                 'error_names_item, offending_is_rejected/accepted_iff_no_offender, nonsized_is_mismatch, hugeint_is_mismatch, float_boundary, '
                 'ctor_revalidation_noop, shipped_wf/shipped_roundtrip for the structs regenerated from config_defs.py. 32 theorems, all full '
                 'strength. Model tied to the code by ~30k quick / ~900k thorough differential cases on real @configstruct classes generated from '
                 'random descriptors, plus a direct statement-level oracle.',
         'note': 'Trusted: Lean kernel + 3 standard axioms; translator (dataclasses.fields -> Gen/CfgDefs.lean) and harness; json.loads/dumps as '
                 'parameters (round trip assumed, dumps(indent=4) layout compared differentially); regex of _strip_comments re-implemented as a '
                 'scanner (differential only); floats opaque; recursion limit, non-string keys, init=False fields, bare list/dict types out of '
                 'scope. 0 known findings; 5 signatures fixed (98ede17 TypeError from len() of a non-sized value in a fixed Tuple field; f71d1e5 '
                 'OverflowError from float() of a huge int); reverting either fix yields a VIOLATION with a concrete input.',
         'technique': 'Lean 4 proof (parser sound+complete against an inductive admission relation, round-trip and error-spec theorems, generated '
                      'per-struct obligations by decide) + differential correspondence + independent property oracle'},
 'C17': {'text': 'Lean theorems (27, all full strength): attr_roundtrip (text attribute value round trip for every valid str/int/bool/float, every '
                 'isprintable classification), reshape_roundtrip, scale_recovered, index_column_is_coordinate, layout_roundtrip for all shapes; '
                 'hdf5_roundtrip, reserved names rejected, empty label ↔ absent attribute; no_silent_overwrite over all histories, '
                 'make_folder_fresh, lex_eq_numeric, find_latest_is_max; recorder_invariant (file ++ local ++ shared = recorded) over all '
                 'interleavings, all_blocks_after_close, writer_finishes. Tie: generated datasets through 7 write/read/convert paths (hdf5, text, '
                 'hdf5→text, text→hdf5, hdf5→text→hdf5 …) in a temp dir, store histories incl. related-label families on a real temp dir, recorder '
                 'with real h5py and the writer thread line-stepped (sys.settrace) at every position; diff with the Lean driver + direct oracle.',
         'note': "Trusted: Lean kernel + 3 axioms; h5py/HDF5, numpy savetxt/loadtxt/reshape, the file system (open 'x'/mkdir atomic), CPython "
                 'repr/float/int and str.isprintable (abstract parameter), strftime; datastore/dataset regexes re-implemented and diffed; recorder '
                 'atomicity taken from the lock in the code. 5 defects found by the check were repaired in /repo (4c93d47 numpy scalars after HDF5 '
                 'read, 1c58093 \\\\U escapes, 37955b4 inexact integers now refused loudly instead of rounded, 4ddf66d line break in attribute name, '
                 '7d3961f `$`-before-newline in datastore regexes; 9 signatures recorded as fixed); each reverted fix is re-detected with a concrete '
                 'input.',
         'technique': 'Lean 4 proof (round-trip laws, history invariants, interleaving invariant of the recorder) + differential correspondence on '
                      'real files + line-stepped trace refinement of the recorder'},
 'C18': {'text': 'Lean theorems for every packet layout passing WellFormed (live ctypes layout, MAGIC, enum, lookup table, recvfrom sizes and the '
                 'is_valid_object_name limit are regenerated into Gen/DiscoveryLayouts.lean on every run; gen_layout_wf by decide): '
                 'glob_sound_complete (state-set matcher = inductive shell-pattern semantics, all patterns/names; brackets reproduce CPython 3.12 '
                 'fnmatch.translate), unpack_total/unpack_complete/unpack_valueError_iff, respond_iff (answers iff both filters match, for EVERY '
                 'context QMI_Context.__init__ admits), admit_only_reportable, echo_fields/echo_admitted, junk_ignored + junk_then_answers, '
                 'client_filters/client_never_self, discovery_end_to_end (uses a proved UTF-8 decode∘encode = id). 24 theorems, all full strength. '
                 'Tied to the code by differential runs of the real _UdpResponder (reader callback on a fake datagram socket, directly and under a '
                 'real asyncio loop), of discover_peer_contexts on a fake socket/selector/clock and of the real QMI_Context constructor (admission), '
                 'a three-way glob diff (Lean / fnmatch.fnmatchcase / responder), exhaustive bracket bodies, every truncation length, tag values, '
                 'bit-level id/timestamp sweeps; direct oracle on every trace.',
         'note': 'Trusted: Lean kernel + 3 standard axioms; translator and harness; asyncio containment of exceptions leaving _handle_read '
                 '(ValueError of the enum lookup, UnicodeDecodeError of a non-UTF-8 filter) is assumed in the model and exercised under a real event '
                 "loop; ctypes, fnmatch/re, UTF-8 and the constructor's name checks are re-implemented and diffed, not verified; UDP/selectors/the "
                 '0.1 s window are faked. Fixed by eeba404 (found by this check): unvalidated workgroup names longer than 64 bytes / containing NUL '
                 'broke answering and the echoed workgroup.',
         'technique': 'Lean 4 proofs (derivative-based matcher vs inductive spec, packet round-trips, invariance under junk, admission => '
                      'reportable, end-to-end composition) + regenerated layout obligation + differential correspondence with the real responder, '
                      'asker and context constructor'},
 'C19': {'text': 'Lean theorems over an abstract open()/close() program language (fuel-based semantics, state = flag, open links, device log; fault '
                 'plan = the k-th potentially-raising step raises kind κ): fault_beyond_end (∀ plan reduces to a finite table), all_plans_of_table; '
                 'consistent_of_safe (a plan-independent abstract run, sound by chk_sound, accepts ⇒ consistent under every plan, any nesting and '
                 'number of links) and its single-link syntactic special case consistent_of_wf; retry_possible, close_after_open(_safe), '
                 'closed_no_io, double_open_close_refused. Per driver class (64 programs regenerated from the AST of open/close on every run): ok_X '
                 ': ∀ plan, Consistent ∧ run complete, hist_X, recover_X, shape_X (safeOpen/safeClose hold for all 64), by decide +kernel; a class '
                 'that violates the property would instead get the kernel-checked negation witness bad_X + exact_X. 291 theorems. Tie: every class '
                 'is instantiated around recording fault-injecting transports; every transport call of the real open() × {timeout, instrument error, '
                 'OS error, junk reply} is swept; executed statements (line trace), exception, is_open() and link flags are diffed against the model '
                 'run under the corresponding plan; plus seeded open/close histories (with faulty opens) and every RPC method on the closed '
                 'instrument.',
         'note': 'Trusted: Lean kernel (axioms used: propext, Quot.sound); translator harness/tr_openprogs.py (conservative: whitelist of pure '
                 'statements, refuses source it does not understand) and the fake transport; `io` statements are one opaque potentially-raising step '
                 '(validated by the per-run correspondence); concrete transports, faults inside close(), multiple faults and BaseException are out '
                 'of scope. The 12 defects found on the pinned tree are repaired (11 fix commits, all in known findings as fixed); reverting any of '
                 'them is reported as a VIOLATION with a concrete fault.',
         'technique': 'Lean 4 proof (generic lemmas + verified abstract interpreter + per-class decide +kernel on programs translated from source) + '
                      'line-trace fault-sweep correspondence with the real drivers'},
 'C20': {'text': 'Lean theorems over all symbol lists / file maps / name tables / device states / name lists / value assignments (induction, no '
                 'bounds): binding_injective, binding_complete (iff), conflicting_definitions_rejected, violation_rejected_with_position '
                 '(file/line/label of the first symbol that names an unknown array, has an unconvertible index, or clashes with an earlier '
                 'definition), analyze_outcomes (binding or ParseException, nothing else), ranges_partition, batch_set_eq_single, '
                 'batch_get_eq_single, touches_exactly_bound_registers (⊆ and ⊇), name_denotes_one_register / names_resolve_injectively, '
                 'start_with_params_eq_single, parse_terminates (unconditional: ≤ length fs + 1 opens for every file map incl. include cycles), '
                 'include_cycle_parsed_once. 15 theorems, all full strength. Tie: five differential streams against the real code (scanner texts, '
                 'include resolution, range lists, ~8k layouts with injected duplicates/conflicts incl. Par_n<->FPar_n rebinding + accessor ops on '
                 'the real Adwin_Base over a fake ADwin library, ~1.5k generated program trees on disk incl. nested/diamond/cyclic/missing includes) '
                 '≈ 23k cases quick / 215k thorough, plus a direct oracle (one-to-one or positioned rejection; open()-budget watchdog + '
                 'include-cycle detection; batch ≡ one-at-a-time; touched = bound).',
         'note': 'Trusted: Lean kernel + 3 standard axioms; harness/generators; the six regexes, splitlines/universal newlines, posixpath '
                 'join/dirname/normpath and int() digit limit are re-implemented in the model and only differentially checked (ASCII + '
                 'line-separator code points; non-ASCII upper()/lower() not modelled); file system = finite path→text map; the ADwin is a total '
                 'register file (Adwin_Base range/dtype validation, numpy dtype unification, 32-bit wrap not modelled). Batch≡single oracle domain: '
                 'bound, case-distinct names and well-typed values. 0 known findings; 3 fixed (48b63c7 include cycle + self-include never '
                 'terminated; 53c483e >4300-digit index -> ValueError); reverting either fix yields a VIOLATION with a concrete input.',
         'technique': 'Lean 4 proof (loop invariants over dict-shaped state, two-phase batch vs fold refinement, measure-function termination of the '
                      'include walk) + differential correspondence with the real parser/manager + watchdog-guarded failing-input search'}}
