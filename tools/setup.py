#!/venv/bin/python
"""MANIFEST.setup_cmd: build the Lean targets of every *claimed* check (theorems + model drivers) from files on disk."""
import importlib, json, os, subprocess, sys
HERE = os.path.dirname(os.path.dirname(os.path.abspath(__file__)))
sys.path.insert(0, HERE)
os.chdir(HERE)
m = json.load(open("MANIFEST.json"))
targets = []
for c in m["checks"]:
    mod = importlib.import_module(f"harness.props.{c['property_id'].lower()}")
    p = mod.PROP
    for t in list(p.lean_modules) + ([p.driver] if p.driver else []) + list(p.extra_drivers):
        if t not in targets:
            targets.append(t)
print("building", len(targets), "targets", flush=True)
r = subprocess.run(["flock", ".lake.lock", "lake", "build", *targets], cwd=os.path.join(HERE, "lean"))
sys.exit(r.returncode)
