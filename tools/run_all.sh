#!/bin/bash
# usage: tools/run_all.sh quick|thorough [seed]   — run every registered check once, print one status line each
tier=${1:-quick}; seed=${2:-0}
cd "$(dirname "$0")/.."
for p in $(/venv/bin/python -c "import json;print(' '.join(c['property_id'] for c in json.load(open('MANIFEST.json'))['checks']))"); do
  s=$(date +%s)
  out=$(VERIF_SEED=$seed ./check $p --tier $tier 2>/dev/null | grep -E "^(OK|VIOLATION|KNOWN)" | cut -c1-150)
  echo "[$p rc=$? $(( $(date +%s) - s ))s] $(echo "$out" | grep -c KNOWN) known; $(echo "$out" | grep -E '^(OK|VIOLATION)' | head -3 | tr '\n' ' ')"
done
