#!/usr/bin/env python3
"""usage: tools/add_entry.py Cxx < entry.json   ({"text":..., "note":..., "technique":...}) — insert/replace in manifest_table.CHECKS"""
import sys, json, re, pprint, os
HERE = os.path.dirname(os.path.dirname(os.path.abspath(__file__)))
sys.path.insert(0, HERE)
pid = sys.argv[1]
e = json.load(sys.stdin)
import importlib
mt = importlib.import_module("tools.manifest_table")
mt.CHECKS[pid] = {"text": e["text"], "note": e["note"], "technique": e["technique"]}
src = open(os.path.join(HERE, "tools/manifest_table.py")).read()
head = src[:src.index("CHECKS = {")]
body = "CHECKS = " + pprint.pformat(dict(sorted(mt.CHECKS.items())), width=150, sort_dicts=False) + "\n"
open(os.path.join(HERE, "tools/manifest_table.py"), "w").write(head + body)
print("ok", pid, len(mt.CHECKS))
