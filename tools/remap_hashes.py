#!/usr/bin/env python3
"""Rewrite commit hashes of /repo fix commits in /verif's text files after a history edit (map in /tmp/hash_map.json)."""
import json, os, sys
m = json.load(open(sys.argv[1] if len(sys.argv) > 1 else "/tmp/hash_map.json"))
n = 0
for root, dirs, files in os.walk("/verif"):
    dirs[:] = [d for d in dirs if d not in (".git", ".lake", "out", "__pycache__", "seeded")]
    for f in files:
        if f.startswith("hash_map") or not f.endswith((".json", ".md", ".txt", ".py", ".lean", ".msg", ".sh")):
            continue
        p = os.path.join(root, f)
        try:
            s = open(p).read()
        except Exception:
            continue
        t = s
        for a, b in m.items():
            t = t.replace(a, b)
        if t != s:
            open(p, "w").write(t); n += 1; print("remapped", p)
print(n, "files")
