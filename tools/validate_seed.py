#!/venv/bin/python
"""Validate a seeded change: tools/validate_seed.py Cxx k  [--tests "<pytest targets>"]
 1. demo.py exits 0 on a pristine scratch worktree, 1 with patch.diff applied
 2. the given test targets pass with the patch (isolated network namespace + private HOME, one process per file)
 3. ./check Cxx (QMI_REPO = patched scratch worktree) reports a VIOLATION
Writes /verif/seeded/Cxx-k/{patch.diff,demo.py,meta.json}."""
import argparse, json, os, shutil, subprocess, sys, glob, time
ap = argparse.ArgumentParser()
ap.add_argument("prop"); ap.add_argument("k"); ap.add_argument("--tests", default="")
ap.add_argument("--skip-check", action="store_true")
ap.add_argument("--key", default="validated_by_integrator")
ap.add_argument("--base", default="04de7e7", help="commit the seeded patch applies to (default: the pinned commit)")
ap.add_argument("--src", default="", help="directory with patch.diff/demo.py/meta.json (default /tmp/seed_<id>_out/<k>)")
a = ap.parse_args()
pid, k = a.prop, a.k
src = a.src or f"/tmp/seed_{pid.lower()}_out/{k}"
wt = f"/tmp/val_{pid.lower()}_{k}"
subprocess.run(["git", "-C", "/repo", "worktree", "remove", "--force", wt], capture_output=True)
subprocess.run(["git", "-C", "/repo", "worktree", "add", "--detach", wt, a.base], check=True, capture_output=True)
env = {**os.environ, "PYTHONPATH": wt, "HOME": f"/tmp/val_home_{pid}_{k}"}
os.makedirs(env["HOME"], exist_ok=True)
res = {}
def demo():
    p = subprocess.run(["/venv/bin/python", f"{src}/demo.py"], cwd=wt, env=env, capture_output=True, text=True, timeout=600)
    return p.returncode, (p.stdout + p.stderr)[-400:]
try:
    res["demo_pristine"] = demo()
    ap_ = subprocess.run(["git", "-C", wt, "apply", f"{src}/patch.diff"], capture_output=True, text=True)
    res["apply"] = ap_.returncode
    if ap_.returncode != 0:
        raise SystemExit(f"{pid} {k}: patch does not apply to {a.base}")
    res["demo_patched"] = demo()
    tests = []
    for t in a.tests.split():
        tests += sorted(glob.glob(os.path.join(wt, t))) if "*" in t else [os.path.join(wt, t)]
    tr = {}
    # baseline of the same test files on a pristine checkout in the same isolated environment (cached)
    bfile = "/tmp/val_baseline.json" if a.base == "04de7e7" else f"/tmp/val_baseline_{a.base}.json"
    base = json.load(open(bfile)) if os.path.exists(bfile) else {}
    pr = "/tmp/val_pristine" if a.base == "04de7e7" else f"/tmp/val_pristine_{a.base}"
    if not os.path.isdir(pr):
        subprocess.run(["git", "-C", "/repo", "worktree", "add", "--detach", pr, a.base], check=True, capture_output=True)
    for t in tests:
        rel = os.path.relpath(t, wt)
        if rel not in base:
            cmd = f"ip link set lo up; ip route add default dev lo; cd {pr} && HOME={env['HOME']} PYTHONPATH={pr} /venv/bin/python -m pytest -q -p no:cacheprovider --timeout=600 {rel} 2>&1 | tail -3"
            p0 = subprocess.run(["unshare", "-rn", "sh", "-c", cmd], capture_output=True, text=True, timeout=3000)
            base[rel] = p0.stdout.strip().splitlines()[-1] if p0.stdout.strip() else p0.stderr[-200:]
            json.dump(base, open(bfile, "w"), indent=1)
    res["tests_pristine_baseline"] = {os.path.relpath(t, wt): base[os.path.relpath(t, wt)] for t in tests}
    for t in tests:
        cmd = f"ip link set lo up; ip route add default dev lo; cd {wt} && HOME={env['HOME']} PYTHONPATH={wt} /venv/bin/python -m pytest -q -p no:cacheprovider --timeout=600 {t} 2>&1 | tail -3"
        p = subprocess.run(["unshare", "-rn", "sh", "-c", cmd], capture_output=True, text=True, timeout=3000)
        tr[os.path.relpath(t, wt)] = p.stdout.strip().splitlines()[-1] if p.stdout.strip() else p.stderr[-200:]
    res["tests_with_patch"] = tr
    if not a.skip_check:
        t0 = time.time()
        p = subprocess.run(["./check", pid], cwd="/verif", env={**os.environ, "QMI_REPO": wt}, capture_output=True, text=True, timeout=3000)
        lines = [l for l in p.stdout.splitlines() if l.startswith(("VIOLATION", "OK"))]
        sigs = []
        for l in lines:
            if "replay=" in l:
                try:
                    d = json.load(open("/verif/" + l.split("replay=")[1].split()[0]))
                    sigs.append(d.get("signature") or ["broken:" + x["name"] for x in d.get("no_longer_checks", [])][:3])
                except Exception as e:
                    sigs.append(repr(e))
        res["check"] = {"exit": p.returncode, "lines": lines[:6], "signatures": sigs[:6], "wall_s": round(time.time() - t0, 1)}
finally:
    subprocess.run(["git", "-C", "/repo", "worktree", "remove", "--force", wt], capture_output=True)
    shutil.rmtree(env["HOME"], ignore_errors=True)
out = f"/verif/seeded/{pid}-{k}"
os.makedirs(out, exist_ok=True)
if os.path.abspath(src) != os.path.abspath(out):
    shutil.copy(f"{src}/patch.diff", out); shutil.copy(f"{src}/demo.py", out)
prev = f"{out}/meta.json"
meta = json.load(open(prev)) if os.path.exists(prev) else (json.load(open(f"{src}/meta.json")) if os.path.exists(f"{src}/meta.json") else {})
res["base_commit"] = a.base
meta[a.key] = res
caught = bool(res.get("check", {}).get("exit") == 1 and any("no-failing-input-found" not in l for l in res["check"]["lines"] if l.startswith("VIOLATION")))
meta["caught_by_check" if a.key == "validated_by_integrator" else "caught_by_check_" + a.key] = ("yes (concrete failing input)" if caught else
                           "broken-link only (no-failing-input-found)" if res.get("check", {}).get("exit") == 1 else
                           "NO" if "check" in res else "not run")
json.dump(meta, open(f"{out}/meta.json", "w"), indent=1)
import re
def norm(x): return re.sub(r" in [0-9.]+s.*", "", x or "")
same = {t: norm(v) == norm(res.get("tests_pristine_baseline", {}).get(t)) for t, v in res.get("tests_with_patch", {}).items()}
meta["tests_same_as_pristine"] = same
json.dump(meta, open(f"{out}/meta.json", "w"), indent=1)
print(pid, k, "demo", res.get("demo_pristine", ["?"])[0], "->", res.get("demo_patched", ["?"])[0], "| tests same as pristine:", all(same.values()), {t: v for t, v in res.get("tests_with_patch", {}).items() if not same[t]}, "| check", res.get("check"))
