#!/usr/bin/env python3
"""Merge the per-property fragments known_findings.d/*.json into the single committed file known_findings.json.
The checks read both (duplicates ignored); known_findings.json is the file the brief asks for."""
import glob, json, os
HERE = os.path.dirname(os.path.dirname(os.path.abspath(__file__)))
k = {"_comment": "findings: genuine defects of /repo that are recorded rather than repaired (matched by property+signature; "
                 "a check prints KNOWN-FINDING for these and exits 0). fixed: defects repaired by a `fix:` commit in /repo; a fixed "
                 "entry suppresses nothing. Never written at run time. Generated from known_findings.d/*.json by tools/merge_known.py.",
     "findings": [], "fixed": []}
for f in sorted(glob.glob(os.path.join(HERE, "known_findings.d", "*.json"))):
    frag = json.load(open(f))
    for x in frag.get("findings", []):
        if x not in k["findings"]:
            k["findings"].append(x)
    for x in frag.get("fixed", []):
        if x not in k["fixed"]:
            k["fixed"].append(x)
json.dump(k, open(os.path.join(HERE, "known_findings.json"), "w"), indent=1)
print(len(k["findings"]), "open findings;", len(k["fixed"]), "fixed entries")
for x in k["findings"]:
    print("  OPEN", x["property"], x["signature"])
