"""Translator for C03: the *shape* of the code that makes "one worker per object" structural.

Reads the AST of every module of the `qmi` package under `core.REPO` and emits `lean/QmiModel/Gen/RpcShape.lean`:
where worker threads are constructed and started, which functions call the request handlers, which operations are applied
to `_RpcThread._fifo` and where, the statement skeleton of `RpcObjectManager.start` and of the request loop of
`_RpcThread.run`, and where `push_rpc_request` is called from.  `Props/C03.lean` proves `gen.ok = true` by `decide`;
an edit that adds a second worker, a call of a handler outside the worker loop, another queue operation … changes the
generated term and the obligation fails.

A source shape the translator does not understand raises `ShapeError` (the check then reports the translator as the
broken link) — it never guesses.
"""
from __future__ import annotations

import ast
import warnings
from pathlib import Path


class ShapeError(Exception):
    pass


HANDLERS = ("_handle_method_rpc_request", "_handle_lock_rpc_request")


def _qual(stack) -> str:
    return ".".join(stack) if stack else "<module>"


class _Walker(ast.NodeVisitor):
    """Collects (module, enclosing function) of the calls / attribute uses we care about."""

    def __init__(self, module: str):
        self.module = module
        self.stack = []
        self.calls = []          # (qualname, callee-name-or-attr, node)
        self.fifo_uses = []      # (qualname, how)
        self.funcs = {}          # qualname -> node

    def _enter(self, node):
        self.stack.append(node.name)
        if isinstance(node, (ast.FunctionDef, ast.AsyncFunctionDef)):
            self.funcs[_qual(self.stack)] = node
        self.generic_visit(node)
        self.stack.pop()

    visit_ClassDef = _enter
    visit_FunctionDef = _enter
    visit_AsyncFunctionDef = _enter

    def visit_Lambda(self, node):
        self.stack.append("<lambda>")
        self.generic_visit(node)
        self.stack.pop()

    def visit_Call(self, node):
        f = node.func
        name = f.attr if isinstance(f, ast.Attribute) else (f.id if isinstance(f, ast.Name) else None)
        if name is not None:
            self.calls.append((_qual(self.stack), name, node))
        self.generic_visit(node)

    def visit_Attribute(self, node):
        if node.attr == "_fifo":
            self.fifo_uses.append((_qual(self.stack), node))
        self.generic_visit(node)


def _parents(tree):
    par = {}
    for n in ast.walk(tree):
        for c in ast.iter_child_nodes(n):
            par[c] = n
    return par


def _is_self_attr(node, attr) -> bool:
    return isinstance(node, ast.Attribute) and node.attr == attr and isinstance(node.value, ast.Name) and node.value.id == "self"


def _stmt_tag_start(st) -> str:
    """Skeleton tag of one statement of RpcObjectManager.start."""
    if isinstance(st, ast.Expr) and isinstance(st.value, ast.Constant) and isinstance(st.value.value, str):
        return "doc"
    if isinstance(st, ast.Assert):
        t = st.test
        if (isinstance(t, ast.Compare) and _is_self_attr(t.left, "_rpc_thread") and len(t.ops) == 1
                and isinstance(t.ops[0], ast.Is) and isinstance(t.comparators[0], ast.Constant) and t.comparators[0].value is None):
            return "assert-no-worker-yet"
        return "assert-other"
    if isinstance(st, ast.Assign) and len(st.targets) == 1:
        tg, v = st.targets[0], st.value
        if _is_self_attr(tg, "_rpc_thread") and isinstance(v, ast.Call) and isinstance(v.func, ast.Name) and v.func.id == "_RpcThread":
            return "create-worker"
        if _is_self_attr(tg, "_running") and isinstance(v, ast.Constant) and v.value is True:
            return "set-running"
        return "assign-other:" + ast.unparse(tg)
    if isinstance(st, ast.Expr) and isinstance(st.value, ast.Call):
        f = st.value.func
        if isinstance(f, ast.Attribute) and f.attr == "start" and _is_self_attr(f.value, "_rpc_thread") and not st.value.args:
            return "start-worker"
        return "call-other:" + ast.unparse(f)
    return "other:" + type(st).__name__


def _run_loop_facts(fn: ast.FunctionDef, par) -> dict:
    """Facts about the request loop of _RpcThread.run."""
    loops = [n for n in fn.body if isinstance(n, ast.While)]
    if len(loops) != 1:
        raise ShapeError(f"_RpcThread.run: expected exactly one top-level while loop, found {len(loops)}")
    loop = loops[0]
    if not (isinstance(loop.test, ast.Constant) and loop.test.value is True):
        raise ShapeError("_RpcThread.run: request loop is not `while True`")
    pops, handler_calls = [], []
    for n in ast.walk(fn):
        if isinstance(n, ast.Call) and isinstance(n.func, ast.Attribute):
            if n.func.attr in ("popleft", "pop") and _is_self_attr(n.func.value, "_fifo"):
                pops.append(n)
            if n.func.attr in HANDLERS:
                handler_calls.append(n)

    def chain(n):
        """ancestors of n inside `fn` (fn itself excluded)"""
        out = []
        while n in par and par[n] is not fn:
            n = par[n]
            out.append(n)
        return out

    def top_stmt_index(n):
        """index in loop.body of the statement containing n (or None)"""
        ch = [n] + chain(n)
        for i, st in enumerate(loop.body):
            if st in ch:
                return i
        return None

    def under_cv(n):
        for a in chain(n):
            if isinstance(a, ast.With) and any(_is_self_attr(it.context_expr, "_cv") for it in a.items):
                return True
        return False

    def nested_scope(n):
        return any(isinstance(a, (ast.FunctionDef, ast.AsyncFunctionDef, ast.Lambda, ast.ClassDef)) and a is not fn for a in chain(n))

    pop_idx = sorted({top_stmt_index(p) for p in pops}, key=lambda x: (x is None, x))
    h_idx = sorted({top_stmt_index(h) for h in handler_calls}, key=lambda x: (x is None, x))
    # the shutdown test that precedes the pop inside the `with self._cv` block
    shutdown_before_pop = False
    if pops and pop_idx and pop_idx[0] is not None and isinstance(loop.body[pop_idx[0]], ast.With):
        w = loop.body[pop_idx[0]]
        seen_break = False
        for st in w.body:
            if isinstance(st, ast.If) and "_shutdown_requested" in ast.unparse(st.test) and any(isinstance(b, ast.Break) for b in st.body):
                seen_break = True
            if any(p in list(ast.walk(st)) for p in pops):
                shutdown_before_pop = seen_break
                break
    return {
        "popsInLoop": len(pops),
        "popKinds": sorted({p.func.attr for p in pops}),
        "popsUnderCv": all(under_cv(p) for p in pops) and bool(pops),
        "popsInLoopBody": all(i is not None for i in pop_idx) and bool(pops),
        "handlersAfterPopSameIteration": bool(handler_calls) and bool(pops) and all(
            i is not None and pop_idx[0] is not None and i > pop_idx[0] for i in h_idx),
        "handlersNotUnderCv": all(not under_cv(h) for h in handler_calls) and bool(handler_calls),
        "noNestedScope": not any(nested_scope(x) for x in pops + handler_calls),
        "shutdownCheckedBeforePop": shutdown_before_pop,
        "handlerCallsInRun": len(handler_calls),
    }


def extract(repo: Path) -> dict:
    pkg = repo / "qmi"
    files = sorted(p for p in pkg.rglob("*.py"))
    if not (pkg / "core" / "rpc.py").exists():
        raise ShapeError("qmi/core/rpc.py not found")
    worker_ctor, thread_start_in_rpc, handler_sites, check_get_sites, push_sites, fifo_ops = [], [], [], [], [], []
    rpc_walker = rpc_tree = None
    for f in files:
        try:
            with warnings.catch_warnings():
                warnings.simplefilter("ignore")
                tree = ast.parse(f.read_text(), filename=str(f))
        except SyntaxError as e:
            raise ShapeError(f"cannot parse {f}: {e}")
        mod = ".".join(f.relative_to(repo).with_suffix("").parts)
        w = _Walker(mod)
        w.visit(tree)
        short = mod[len("qmi.core."):] if mod.startswith("qmi.core.") else mod
        for q, name, node in w.calls:
            site = f"{short}:{q}"
            if name == "_RpcThread":
                worker_ctor.append(site)
            if name in HANDLERS:
                handler_sites.append((site, name))
            if name == "_check_and_get_method":
                check_get_sites.append(site)
            if name == "push_rpc_request":
                push_sites.append(site)
        par = None
        for q, node in w.fifo_uses:
            if par is None:
                par = _parents(tree)
            p = par.get(node)
            site = f"{short}:{q}"
            if isinstance(p, ast.Attribute) and isinstance(par.get(p), ast.Call) and par[p].func is p:
                fifo_ops.append((site, p.attr))
            elif isinstance(p, (ast.Assign, ast.AnnAssign)) and (getattr(p, "target", None) is node or node in getattr(p, "targets", [])):
                v = p.value
                fifo_ops.append((site, "init:" + (ast.unparse(v) if v is not None else "?")))
            elif isinstance(p, ast.UnaryOp) and isinstance(p.op, ast.Not) or isinstance(p, (ast.If, ast.While, ast.BoolOp)):
                fifo_ops.append((site, "truth"))
            else:
                fifo_ops.append((site, "other:" + type(p).__name__))
        if mod == "qmi.core.rpc":
            rpc_walker, rpc_tree = w, tree
    if rpc_walker is None:
        raise ShapeError("qmi.core.rpc not visited")
    par = _parents(rpc_tree)
    start = rpc_walker.funcs.get("RpcObjectManager.start")
    run = rpc_walker.funcs.get("_RpcThread.run")
    hm = rpc_walker.funcs.get("RpcObjectManager.handle_message")
    if start is None or run is None or hm is None:
        raise ShapeError("RpcObjectManager.start / _RpcThread.run / RpcObjectManager.handle_message not found")
    # every `.start()` call and every construction of something named *Thread inside rpc.py
    for q, name, node in rpc_walker.calls:
        if name == "start" and isinstance(node.func, ast.Attribute):
            thread_start_in_rpc.append(f"rpc:{q}:{ast.unparse(node.func.value)}")
        if name.endswith("Thread") and name != "_RpcThread":
            thread_start_in_rpc.append(f"rpc:{q}:new {name}")
    start_skeleton = [t for t in (_stmt_tag_start(st) for st in start.body) if t != "doc"]
    # push_rpc_request inside handle_message: under _stop_lock, after the `_running` test
    push_under_stop_lock = push_after_running_test = False
    for n in ast.walk(hm):
        if isinstance(n, ast.With) and any(_is_self_attr(it.context_expr, "_stop_lock") for it in n.items):
            seen_test = False
            for st in n.body:
                if isinstance(st, ast.If) and "_running" in ast.unparse(st.test) and any(isinstance(b, ast.Raise) for b in st.body):
                    seen_test = True
                if any(isinstance(c, ast.Call) and isinstance(c.func, ast.Attribute) and c.func.attr == "push_rpc_request"
                       for c in ast.walk(st)):
                    push_under_stop_lock = True
                    push_after_running_test = seen_test
    # every call of a method / hook of the live object, and every attribute read on it, in rpc.py and context.py
    object_calls, object_reads, object_passed = [], [], []
    for f in (pkg / "core" / "rpc.py", pkg / "core" / "context.py"):
        with warnings.catch_warnings():
            warnings.simplefilter("ignore")
            tree = ast.parse(f.read_text(), filename=str(f))
        w2 = _Walker(f.stem)
        w2.visit(tree)
        par2 = _parents(tree)

        holds = [False]     # inside a function whose local `rpc_object` is bound to the live object

        def binds_object(fn) -> bool:
            for n in ast.walk(fn):
                if isinstance(n, ast.Assign) and any(isinstance(t, ast.Name) and t.id == "rpc_object" for t in n.targets):
                    v = n.value
                    if _is_self_attr(v, "_rpc_object"):
                        return True
                    if isinstance(v, ast.Call) and isinstance(v.func, ast.Attribute) and v.func.attr in ("rpc_object", "_rpc_object_maker"):
                        return True
            return False

        def is_object(e):
            return _is_self_attr(e, "_rpc_object") or (holds[-1] and isinstance(e, ast.Name) and e.id == "rpc_object")

        stack = []

        def walk(node):
            named = isinstance(node, (ast.ClassDef, ast.FunctionDef, ast.AsyncFunctionDef))
            if named:
                stack.append(node.name)
                holds.append(isinstance(node, (ast.FunctionDef, ast.AsyncFunctionDef)) and binds_object(node))
            if isinstance(node, ast.Attribute) and is_object(node.value):
                site = f"{f.stem}:{_qual(stack)}"
                parent = par2.get(node)
                if isinstance(parent, ast.Call) and parent.func is node:
                    object_calls.append((site, node.attr))
                else:
                    object_reads.append((site, node.attr))
            if isinstance(node, ast.Call):
                for a in node.args:
                    if is_object(a):
                        object_passed.append((f"{f.stem}:{_qual(stack)}", ast.unparse(node.func)))
            for c in ast.iter_child_nodes(node):
                walk(c)
            if named:
                stack.pop()
                holds.pop()
        walk(tree)
    # proxy side: what the public paths of the proxies hand out
    penter = rpc_walker.funcs.get("QMI_RpcProxy.__enter__")
    if penter is None:
        raise ShapeError("QMI_RpcProxy.__enter__ not found")
    enter_returns = [ast.unparse(n.value) if n.value is not None else "None"
                     for n in ast.walk(penter) if isinstance(n, ast.Return)]
    forward_targets = []
    for cls in ("QMI_RpcProxy", "QMI_RpcNonBlockingProxy"):
        f = rpc_walker.funcs.get(f"{cls}.__init__.make_rpc_forward_function")
        if f is None:
            raise ShapeError(f"{cls}.__init__.make_rpc_forward_function not found")
        lambdas = [n for n in ast.walk(f) if isinstance(n, ast.Lambda)]
        if len(lambdas) != 1 or not isinstance(lambdas[0].body, ast.Call) or not isinstance(lambdas[0].body.func, ast.Name):
            raise ShapeError(f"{cls}: forward function is not a single lambda calling one helper")
        forward_targets.append((cls, lambdas[0].body.func.id))
    # every other method of the blocking proxy: the expressions it returns
    proxy_returns = []
    for q, fn in sorted(rpc_walker.funcs.items()):
        if q.startswith("QMI_RpcProxy.") and q.count(".") == 1 and q.split(".")[1] not in ("__init__", "__enter__"):
            for n in ast.walk(fn):
                if isinstance(n, ast.Return):
                    v = n.value
                    kind = ("const" if v is None or isinstance(v, ast.Constant) else
                            "compare" if isinstance(v, (ast.Compare, ast.BoolOp, ast.UnaryOp)) else
                            "text" if isinstance(v, ast.Call) and ast.unparse(v.func) in ("str",) or
                            (isinstance(v, ast.Call) and isinstance(v.func, ast.Attribute) and v.func.attr == "format"
                             and isinstance(v.func.value, ast.Constant)) else
                            "reference:" + ast.unparse(v))
                    proxy_returns.append((q.split(".")[1], kind))
    return {
        "objectCalls": sorted(set(object_calls)),
        "objectReads": sorted(set(object_reads)),
        "objectPassedTo": sorted(set(object_passed)),
        "proxyEnterReturns": enter_returns,
        "proxyForwardTargets": forward_targets,
        "proxyOtherReturns": sorted(set(proxy_returns)),
        "workerCtorSites": sorted(worker_ctor),
        "threadStartsInRpc": sorted(thread_start_in_rpc),
        "startSkeleton": start_skeleton,
        "handlerCallSites": sorted(handler_sites),
        "checkAndGetSites": sorted(check_get_sites),
        "pushSites": sorted(push_sites),
        "fifoOps": sorted(fifo_ops),
        "pushUnderStopLock": push_under_stop_lock,
        "pushAfterRunningTest": push_after_running_test,
        **_run_loop_facts(run, par),
    }


def _s(x: str) -> str:
    return '"' + x.replace("\\", "\\\\").replace('"', '\\"') + '"'


def _slist(xs) -> str:
    return "[" + ", ".join(_s(x) for x in xs) + "]"


def _plist(xs) -> str:
    return "[" + ", ".join(f"({_s(a)}, {_s(b)})" for a, b in xs) + "]"


def _b(x: bool) -> str:
    return "true" if x else "false"


def render(t: dict) -> str:
    L = ["import QmiModel.Model.RpcShape", "/-!",
         "# GENERATED by harness/tr_rpcshape.py (C03 translate) from the AST of the `qmi` package — do not edit",
         "",
         "Where worker threads are created and started, who calls the request handlers, what is done to",
         "`_RpcThread._fifo` and where, the skeleton of `RpcObjectManager.start` and of the request loop of `_RpcThread.run`.",
         "-/", "namespace QmiModel.Gen.RpcShape", "open QmiModel.Pipeline", "",
         "def gen : CodeShape :=",
         f"  {{ workerCtorSites := {_slist(t['workerCtorSites'])}",
         f"    threadStartsInRpc := {_slist(t['threadStartsInRpc'])}",
         f"    startSkeleton := {_slist(t['startSkeleton'])}",
         f"    handlerCallSites := {_plist(t['handlerCallSites'])}",
         f"    checkAndGetSites := {_slist(t['checkAndGetSites'])}",
         f"    pushSites := {_slist(t['pushSites'])}",
         f"    fifoOps := {_plist(t['fifoOps'])}",
         f"    pushUnderStopLock := {_b(t['pushUnderStopLock'])}",
         f"    pushAfterRunningTest := {_b(t['pushAfterRunningTest'])}",
         f"    popsInLoop := {t['popsInLoop']}",
         f"    popKinds := {_slist(t['popKinds'])}",
         f"    popsUnderCv := {_b(t['popsUnderCv'])}",
         f"    popsInLoopBody := {_b(t['popsInLoopBody'])}",
         f"    handlersAfterPopSameIteration := {_b(t['handlersAfterPopSameIteration'])}",
         f"    handlersNotUnderCv := {_b(t['handlersNotUnderCv'])}",
         f"    noNestedScope := {_b(t['noNestedScope'])}",
         f"    shutdownCheckedBeforePop := {_b(t['shutdownCheckedBeforePop'])}",
         f"    handlerCallsInRun := {t['handlerCallsInRun']}",
         f"    objectCalls := {_plist(t['objectCalls'])}",
         f"    objectReads := {_plist(t['objectReads'])}",
         f"    objectPassedTo := {_plist(t['objectPassedTo'])}",
         f"    proxyEnterReturns := {_slist(t['proxyEnterReturns'])}",
         f"    proxyForwardTargets := {_plist(t['proxyForwardTargets'])}",
         f"    proxyOtherReturns := {_plist(t['proxyOtherReturns'])} }}",
         "", "end QmiModel.Gen.RpcShape", ""]
    return "\n".join(L)
