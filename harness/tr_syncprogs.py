"""Translator for property C11: Python source -> lean/QmiModel/Gen/SyncProgs.lean  (DESIGN §2.2).

Reads the *current* AST of

    qmi/core/task.py    _TaskThread.stop_task, _TaskThread.wait_for_condition, QMI_Task.sleep, QMI_LoopTask.run
    qmi/core/pubsub.py  _wait_for_condition, QMI_SignalReceiver.get_next_signal

and compiles each, statement by statement and in source order, into a program of the instruction set of
`QmiModel/Model/Wake.lean`: lock/unlock of which lock, set / read of the stop flag, read / write of the `_wait_cond`
slot, predicate test, `cond.wait(_for)`, `notify_all` on which condition, `Event.wait`, `time.sleep`, raise of the stop
exception, calls between the six functions, and the `try/except/finally` / `with` structure (handler tables, `finally`
bodies duplicated on the normal, `return` and exception paths the way CPython compiles them).

It is a small compiler, not a pattern table: swapping two statements, moving a test out of a `with`, registering the
condition after the first test, replacing `Event.wait` by `time.sleep`, dropping a `finally` ... all change the emitted
program.  Anything it does not understand raises `Untranslatable` (the check then reports the broken translator); it
never guesses.

Assumptions it makes (and records in the generated file):
  * `stop_task` is partially evaluated for `_TaskThread._state == RUNNING` (the task is waiting, hence running; the other
    states belong to C10);
  * thread-affinity guards (`... is not threading.current_thread()`) are evaluated for "called from the task thread";
  * `if`s on data the synchronisation does not depend on (`time_to_sleep > 0`, `self._policy == ...`,
    `self.update_settings()`, `self.update_status()`) become nondeterministic choices (`ldAny`);
  * user hooks of QMI_LoopTask (`loop_prepare`, `loop_iteration`, `loop_finalize`, `process_new_settings`,
    `publish_signals`) are calls of functions whose bodies the modelled system supplies (they may wait themselves);
    `sig_status_updated.publish` and logging are skipped.
"""
from __future__ import annotations

import ast
from dataclasses import dataclass, field
from pathlib import Path
from typing import Optional


class Untranslatable(Exception):
    pass


FUNC_INDEX = {"stopTask": 0, "waitForCond": 1, "sleep": 2, "pubsubWait": 3, "getNextSignal": 4, "loopRun": 5,
              "runnerStop": 6, "requestShutdown": 7}
STATE_NAMES = ("INITIAL", "EXCEPTION_WHILE_INSTANTIATING_TASK", "READY_TO_RUN", "RUNNING", "EXCEPTION_WHILE_RUNNING_TASK",
               "TASK_COMPLETED_NORMALLY", "TASK_STOPPED_BEFORE_START")
ACC_WRITERS = {"ldFlag", "ldWc", "condWait", "evWait", "ldPred", "ldLoc", "ldConst", "neg", "ldAny", "ldIsTask", "call"}
RUNNING_STATE = "RUNNING"
DATA_CALLS = {"time.monotonic", "int", "float", "min", "max", "abs"}
SKIP_HOOKS = {"self.sig_status_updated.publish"}
# user hooks of QMI_LoopTask: calls into functions 8..12 of the model's function table, whose bodies the *system* supplies
# (a hook may itself wait: sleep / get_next_signal inside loop_iteration, process_new_settings, publish_signals)
HOOK_CALLS = {"self.loop_prepare": 8, "self.loop_iteration": 9, "self.loop_finalize": 10, "self.process_new_settings": 11,
              "self.publish_signals": 12}
ANY_CALLS = {"self.update_settings", "self.update_status"}
SYNC_ATTRS = {"_wait_cond", "_wait_cond_lock", "_stop_requested", "_state_cond", "_queue_cond", "_queue", "_state"}


class Label:
    __slots__ = ("pos",)

    def __init__(self):
        self.pos: Optional[int] = None


@dataclass
class Env:
    """What the names of one function denote (the anchors of properties.jsonl)."""
    flags: set = field(default_factory=set)
    locks: dict = field(default_factory=dict)       # expr -> Ref for `with X:` / X.acquire()
    conds: dict = field(default_factory=dict)       # expr -> Ref for wait / notify
    slot: Optional[str] = None
    queue: Optional[str] = None
    preds: set = field(default_factory=set)         # names callable as the predicate
    opt_timeouts: set = field(default_factory=set)  # Optional[float] parameters
    num_timeouts: set = field(default_factory=set)  # float parameters
    params: list = field(default_factory=list)


def u(node) -> str:
    return ast.unparse(node)


class FnCompiler:
    def __init__(self, tr: "Translator", lname: str, fdef: ast.FunctionDef, env: Env, fname: str):
        self.tr, self.lname, self.fdef, self.env, self.fname = tr, lname, fdef, env, fname
        self.code: list = []          # [op, args..., comment]
        self.handlers: list = []      # (lo, hi, Label, catches)
        self.alias: dict = {}         # local name -> ('flag',) | ('thread',) | ('pred',) | ('bool', idx) | ('condopt', idx)
        self.finals: list = []        # enclosing try/with contexts
        self.loops: list = []         # (continue Label, break Label, depth of self.finals)
        self.cur_src = ""
        self.assumptions: list = []
        self.my_locals: list = []
        self.cond_locals: set = set()

    # -- errors / emission ------------------------------------------------------
    def fail(self, node, why: str):
        raise Untranslatable(f"{self.fname}:{getattr(node, 'lineno', '?')} in {self.fdef.name}: {why}: `{u(node)[:160]}`")

    def emit(self, *ins):
        self.code.append(list(ins) + [self.cur_src])
        self.cur_src = ""

    def here(self) -> int:
        return len(self.code)

    def place(self, lab: Label):
        lab.pos = self.here()

    def new_local(self, name: str, kind: str) -> int:
        idx = self.tr.next_local
        self.tr.next_local += 1
        self.tr.local_names.append(f"{self.lname}.{name}")
        self.alias[name] = (kind, idx)
        self.my_locals.append(idx)
        if kind == "condopt":
            if self.cond_locals:
                raise Untranslatable(f"{self.fname}: {self.fdef.name} keeps more than one local loaded from the _wait_cond slot")
            self.cond_locals.add(idx)
        return idx

    def kill_locals(self):
        """Locals go out of scope when the frame is left (keeps dead values out of the model's state)."""
        for i in self.my_locals:
            self.emit("clrCond" if i in self.cond_locals else "clrLoc", i)

    # -- classification of expressions -----------------------------------------
    def is_flag(self, node) -> bool:
        s = u(node)
        return s in self.env.flags or (isinstance(node, ast.Name) and self.alias.get(node.id) == ("flag",))

    def lock_ref(self, node) -> Optional[str]:
        s = u(node)
        if s in self.env.locks:
            return self.env.locks[s]
        if isinstance(node, ast.Name) and self.alias.get(node.id, (None,))[0] == "condopt":
            return f"viaLoc {self.alias[node.id][1]}"
        return None

    def cond_ref(self, node) -> Optional[str]:
        s = u(node)
        if s in self.env.conds:
            return self.env.conds[s]
        if isinstance(node, ast.Name) and self.alias.get(node.id, (None,))[0] == "condopt":
            return f"viaLoc {self.alias[node.id][1]}"
        return None

    def is_pred_name(self, node) -> bool:
        return isinstance(node, ast.Name) and (node.id in self.env.preds or self.alias.get(node.id) == ("pred",))

    def mentions_sync(self, node) -> bool:
        for n in ast.walk(node):
            if isinstance(n, ast.Attribute) and n.attr in SYNC_ATTRS:
                return True
            if isinstance(n, ast.Name) and (n.id in self.env.preds or n.id in self.env.conds or n.id in self.env.opt_timeouts
                                            or self.alias.get(n.id, (None,))[0] in ("flag", "pred", "condopt", "bool")):
                return True
            if isinstance(n, ast.Attribute) and isinstance(n.value, ast.Name) and n.value.id == "threading":
                return True
        return False

    def is_data(self, node) -> bool:
        """An expression the synchronisation does not depend on (numbers, times, settings)."""
        if self.mentions_sync(node):
            return False
        for n in ast.walk(node):
            if isinstance(n, ast.Call) and u(n.func) not in DATA_CALLS:
                return False
            if isinstance(n, (ast.Lambda, ast.Await, ast.Yield, ast.YieldFrom, ast.NamedExpr)):
                return False
        return True

    def timeout_kind(self, node) -> str:
        if isinstance(node, ast.Constant) and node.value is None:
            return ".never"
        if isinstance(node, ast.Name) and node.id in self.env.opt_timeouts:
            return ".param"
        if isinstance(node, ast.Constant) and isinstance(node.value, (int, float)):
            return ".always"
        if isinstance(node, ast.Name) and node.id in self.env.num_timeouts:
            return ".always"
        if self.is_data(node) and not (isinstance(node, ast.Name) and node.id in self.env.params):
            return ".always"
        self.fail(node, "timeout argument not understood")

    def const_eval(self, node) -> Optional[bool]:
        """Partial evaluation under the stated assumptions; None = not a constant."""
        if isinstance(node, ast.Compare) and len(node.ops) == 1:
            l, op, r = node.left, node.ops[0], node.comparators[0]
            cur = "threading.current_thread()"
            if isinstance(op, (ast.Is, ast.IsNot)) and cur in (u(l), u(r)):
                other = u(r) if u(l) == cur else u(l)
                if other == "self" or other.endswith("._thread"):
                    self.note("thread-affinity guards are evaluated for 'called from the task thread'")
                    return isinstance(op, ast.Is)
                self.fail(node, "thread identity test not understood")
            if u(l) == "self.task" and isinstance(op, (ast.Is, ast.IsNot)) and u(r) == "None":
                return isinstance(op, ast.IsNot)       # the task object exists once the thread is RUNNING
        return None

    def state_index(self, node, x) -> int:
        s = u(x)
        if not s.startswith("_TaskThread.State."):
            self.fail(node, "comparison / assignment of self._state with something that is not a _TaskThread.State member")
        name = s.rsplit(".", 1)[1]
        if name not in self.tr.state_index:
            self.fail(node, f"unknown member {name} of _TaskThread.State")
        return self.tr.state_index[name]

    def note(self, s: str):
        if s not in self.tr.assumptions:
            self.tr.assumptions.append(s)

    # -- expressions: value ends up in `acc` ----------------------------------------
    def cexpr(self, node):
        c = self.const_eval(node)
        if c is not None:
            self.emit("ldConst", c)
            return
        if isinstance(node, ast.BoolOp):
            end = Label()
            for i, v in enumerate(node.values):
                self.cexpr(v)
                if i < len(node.values) - 1:
                    self.emit("jt" if isinstance(node.op, ast.Or) else "jf", end)
            self.place(end)
            return
        if isinstance(node, ast.UnaryOp) and isinstance(node.op, ast.Not):
            self.cexpr(node.operand)
            self.emit("neg")
            return
        if isinstance(node, ast.Name):
            a = self.alias.get(node.id)
            if a and a[0] in ("bool", "condopt"):
                self.emit("ldLoc", a[1])
                return
            self.fail(node, "name used as a truth value is not a translated local")
        if isinstance(node, ast.Compare) and len(node.ops) == 1:
            l, op, r = node.left, node.ops[0], node.comparators[0]
            # self._state ==/!=/in/not in <members>   (read under _state_cond)
            if u(l) == "self._state":
                if isinstance(op, (ast.Eq, ast.NotEq)):
                    mask = 1 << self.state_index(node, r)
                elif isinstance(op, (ast.In, ast.NotIn)) and isinstance(r, (ast.Tuple, ast.List, ast.Set)):
                    mask = 0
                    for e in r.elts:
                        mask |= 1 << self.state_index(node, e)
                else:
                    self.fail(node, "test on self._state not understood")
                self.emit("ldStateIn", mask)
                if isinstance(op, (ast.NotEq, ast.NotIn)):
                    self.emit("neg")
                return
            # <slot or local holding it> is [not] None
            if isinstance(op, (ast.Is, ast.IsNot)) and isinstance(r, ast.Constant) and r.value is None:
                if self.env.slot and u(l) == self.env.slot:
                    self.emit("ldWc")
                elif isinstance(l, ast.Name) and self.alias.get(l.id, (None,))[0] == "condopt":
                    self.emit("ldLoc", self.alias[l.id][1])
                else:
                    self.fail(node, "`is None` test on something that is not the _wait_cond slot")
                if isinstance(op, ast.Is):
                    self.emit("neg")
                return
            # len(queue) <op> 0
            if (self.env.queue and isinstance(l, ast.Call) and u(l.func) == "len" and len(l.args) == 1
                    and u(l.args[0]) == self.env.queue and isinstance(r, ast.Constant) and r.value == 0):
                if isinstance(op, (ast.Gt, ast.NotEq)):
                    self.emit("ldPred")
                    return
                if isinstance(op, (ast.Eq, ast.LtE)):
                    self.emit("ldPred")
                    self.emit("neg")
                    return
            if self.is_data(node):
                self.note("tests on data/time (`time_to_sleep > 0`, `self._policy == ...`) are nondeterministic choices")
                self.emit("ldAny")
                return
            self.fail(node, "comparison not understood")
        if isinstance(node, ast.Call):
            return self.ccall(node, want_value=True)
        if isinstance(node, ast.Constant) and isinstance(node.value, bool):
            self.emit("ldConst", node.value)
            return
        self.fail(node, "expression not understood")

    def inline_predicate(self, node):
        """The predicate argument of wait_for: a lambda (its body is compiled in place) or the predicate name."""
        if isinstance(node, ast.Lambda):
            if node.args.args or node.args.vararg or node.args.kwarg:
                self.fail(node, "predicate lambda with parameters")
            self.cexpr(node.body)
        elif self.is_pred_name(node):
            self.emit("ldPred")
        else:
            self.fail(node, "predicate argument not understood")

    def ccall(self, node: ast.Call, want_value: bool):
        f = node.func
        fs = u(f)
        if node.keywords:
            kw = {k.arg: k.value for k in node.keywords}
        else:
            kw = {}
        args = list(node.args)
        # logging
        if fs.startswith("_logger."):
            if want_value:
                self.fail(node, "value of a logging call used")
            return
        if self.is_pred_name(f) and not args and not kw:
            self.emit("ldPred")
            return
        if isinstance(f, ast.Attribute):
            obj, meth = f.value, f.attr
            if self.is_flag(obj):
                if meth in ("is_set", "isSet") and not args:
                    self.emit("ldFlag")
                    return
                if meth == "set" and not args:
                    self.emit("setFlag")
                    return
                if meth == "wait":
                    t = args[0] if args else kw.get("timeout", ast.Constant(None))
                    self.emit("evWait", self.timeout_kind(t))
                    return
                self.fail(node, "operation on the stop flag not understood")
            cr = self.cond_ref(obj)
            if cr is not None and meth in ("notify_all", "notifyAll") and not args and not kw:
                self.emit("notifyAll", cr)
                return
            if cr is not None and meth == "notify":
                # notify(n=1) wakes the n OLDEST waiters only
                n = args[0] if args else kw.get("n", ast.Constant(1))
                if not (isinstance(n, ast.Constant) and isinstance(n.value, int) and not isinstance(n.value, bool)
                        and 0 <= n.value <= 8) or len(args) > 1 or (set(kw) - {"n"}):
                    self.fail(node, "argument of notify() not understood")
                self.emit("notify", cr, n.value)
                return
            if cr is not None and meth == "wait":
                t = args[0] if args else kw.get("timeout", ast.Constant(None))
                self.emit("condWait", cr, self.timeout_kind(t))
                return
            if cr is not None and meth == "wait_for":
                pred = args[0] if args else kw.get("predicate")
                t = args[1] if len(args) > 1 else kw.get("timeout", ast.Constant(None))
                if pred is None:
                    self.fail(node, "wait_for without predicate")
                tk = self.timeout_kind(t)
                top, end = Label(), Label()
                self.emit("timerStart")
                self.place(top)
                self.inline_predicate(pred)
                self.emit("jt", end)
                self.emit("jexp", end)
                self.emit("condWait", cr, tk)
                self.emit("jmp", top)
                self.place(end)
                self.emit("timerStop")
                return
            lr = self.lock_ref(obj)
            if lr is not None and meth == "acquire" and not args and not kw:
                self.emit("lock", lr)
                return
            if lr is not None and meth == "release" and not args:
                self.emit("unlock", lr)
                return
            if self.env.queue and u(obj) == self.env.queue and meth == "popleft" and not args:
                self.emit("pop")
                self.emit("ldConst", True)
                return
            if fs == "time.sleep" and len(args) == 1:
                self.timeout_kind(args[0])
                self.emit("tsleep")
                return
            if fs == "threading.current_thread":
                self.fail(node, "threading.current_thread() outside an understood context")
            # calls between the translated functions
            if meth == "wait_for_condition" and isinstance(obj, ast.Name) and self.alias.get(obj.id) == ("thread",):
                self.check_passthrough(node, args, kw)
                self.emit("call", FUNC_INDEX["waitForCond"])
                return
            if fs == "self.sleep" and len(args) == 1 and self.lname == "loopRun":
                if not self.is_data(args[0]):
                    self.fail(node, "argument of self.sleep not understood")
                self.emit("call", FUNC_INDEX["sleep"])
                return
            if fs == "self.stop_requested" and not args:
                self.tr.require_stop_requested()
                self.emit("ldFlag")
                return
            if fs == "self._task_runner.stop" and not args and self.lname == "loopRun":
                self.emit("call", FUNC_INDEX["runnerStop"])
                return
            if fs == "self._thread.stop_task" and not args and self.lname == "runnerStop":
                self.emit("call", FUNC_INDEX["stopTask"])
                return
            if fs == "self.stop_task" and not args and self.lname == "requestShutdown":
                self.emit("call", FUNC_INDEX["stopTask"])
                return
            if fs in HOOK_CALLS and not args and self.lname == "loopRun":
                self.emit("call", HOOK_CALLS[fs])
                return
            if fs in SKIP_HOOKS:
                for a in args:
                    if not self.is_data(a):
                        self.fail(node, "argument of a skipped hook not understood")
                self.note("sig_status_updated.publish and logging are skipped")
                if want_value:
                    self.fail(node, "value of a skipped hook used")
                return
            if fs in ANY_CALLS and not args:
                self.note("`self.update_settings()` / `self.update_status()` are nondeterministic choices")
                self.emit("ldAny")
                return
        if fs == "_wait_for_condition" and self.lname == "getNextSignal":
            self.check_passthrough(node, args, kw)
            self.emit("call", FUNC_INDEX["pubsubWait"])
            return
        if fs == "isinstance" and len(args) == 2 and isinstance(args[0], ast.Name) \
                and self.alias.get(args[0].id) == ("thread",) and u(args[1]).endswith("_TaskThread"):
            self.emit("ldIsTask")
            return
        self.fail(node, "call not understood")

    def check_passthrough(self, node, args, kw):
        """`f(cond, predicate, timeout)`: the three arguments must be the condition, the predicate and the caller's timeout."""
        if kw:
            order = {"cond": 0, "predicate": 1, "timeout": 2}
            full: list = list(args) + [None] * (3 - len(args))
            for k, v in kw.items():
                if k not in order:
                    self.fail(node, "unknown keyword")
                full[order[k]] = v
            args = full
        if len(args) != 3 or any(a is None for a in args):
            self.fail(node, "expected (cond, predicate, timeout)")
        if self.cond_ref(args[0]) != "cond":
            self.fail(node, "first argument is not the condition the caller holds")
        if not self.is_pred_name(args[1]):
            self.fail(node, "second argument is not the predicate")
        if not (isinstance(args[2], ast.Name) and args[2].id in self.env.opt_timeouts):
            self.fail(node, "third argument is not the caller's timeout")

    # -- statements -----------------------------------------------------------------
    def cbody(self, stmts):
        for s in stmts:
            self.cstmt(s)

    def src_of(self, s) -> str:
        first = u(s).split("\n")[0]
        return first[:110]

    def cstmt(self, s):
        self.cur_src = self.src_of(s)
        if isinstance(s, ast.Expr):
            if isinstance(s.value, ast.Constant) and isinstance(s.value.value, str):
                self.cur_src = ""
                return
            if isinstance(s.value, ast.Call):
                self.ccall(s.value, want_value=False)
                self.cur_src = ""
                return
            self.fail(s, "expression statement not understood")
        if isinstance(s, (ast.Pass, ast.Import, ast.ImportFrom)):
            self.cur_src = ""
            return
        if isinstance(s, ast.Assert):
            c = self.const_eval(s.test)
            if c is True:
                self.cur_src = ""
                return
            if c is False:
                self.fail(s, "assertion is false under the stated assumptions")
            if self.mentions_sync(s.test):
                self.cexpr(s.test)
                self.emit("assertAcc")
                return
            if self.is_data(s.test):
                self.cur_src = ""
                return
            self.fail(s, "assert not understood")
        if isinstance(s, ast.Assign) and len(s.targets) == 1:
            return self.cassign(s, s.targets[0], s.value)
        if isinstance(s, ast.AnnAssign) and s.value is not None:
            return self.cassign(s, s.target, s.value)
        if isinstance(s, ast.AugAssign):
            if self.is_data(s.value) and self.is_data_target(s.target):
                self.cur_src = ""
                return
            self.fail(s, "augmented assignment not understood")
        if isinstance(s, ast.If):
            return self.cif(s)
        if isinstance(s, ast.While):
            return self.cwhile(s)
        if isinstance(s, ast.With):
            return self.cwith(s)
        if isinstance(s, ast.Try):
            return self.ctry(s)
        if isinstance(s, ast.Return):
            return self.creturn(s)
        if isinstance(s, ast.Raise):
            return self.craise(s)
        if isinstance(s, ast.Break):
            if not self.loops:
                self.fail(s, "break outside loop")
            _, brk, depth = self.loops[-1]
            self.exit_through_finals(depth, lambda: self.emit("jmp", brk))
            return
        if isinstance(s, ast.Continue):
            if not self.loops:
                self.fail(s, "continue outside loop")
            cont, _, depth = self.loops[-1]
            self.exit_through_finals(depth, lambda: self.emit("jmp", cont))
            return
        self.fail(s, "statement not understood")

    def is_data_target(self, t) -> bool:
        if isinstance(t, ast.Name):
            return t.id not in self.alias and t.id not in self.env.params
        if isinstance(t, ast.Attribute) and u(t.value) == "self":
            return t.attr not in SYNC_ATTRS
        return False

    def cassign(self, s, target, value):
        ts = u(target)
        if ts == "self._state" and self.lname == "stopTask":
            self.emit("stState", self.state_index(s, value))
            return
        # write of the slot
        if self.env.slot and ts == self.env.slot:
            if isinstance(value, ast.Constant) and value.value is None:
                self.emit("stWc", False)
                return
            if self.cond_ref(value) == "cond":
                self.emit("stWc", True)
                return
            self.fail(s, "value stored into the _wait_cond slot not understood")
        if isinstance(target, ast.Name):
            name = target.id
            if name in self.env.params:
                self.fail(s, "assignment to a parameter")
            if self.is_flag(value):
                self.alias[name] = ("flag",)
                self.cur_src = ""
                return
            if u(value) == "threading.current_thread()":
                self.alias[name] = ("thread",)
                self.cur_src = ""
                return
            if self.env.slot and u(value) == self.env.slot:
                self.emit("ldWc")
                idx = self.alias[name][1] if self.alias.get(name, (None,))[0] == "condopt" else self.new_local(name, "condopt")
                self.emit("stLoc", idx)
                return
            if isinstance(value, ast.Lambda):
                # must be the queue-non-empty predicate
                body = value.body
                if (self.env.queue and isinstance(body, ast.Compare) and len(body.ops) == 1
                        and isinstance(body.ops[0], (ast.Gt, ast.NotEq)) and u(body.left) == f"len({self.env.queue})"
                        and u(body.comparators[0]) == "0" and not value.args.args):
                    self.alias[name] = ("pred",)
                    self.cur_src = ""
                    return
                self.fail(s, "lambda is not the queue-non-empty predicate")
            if name in self.alias and self.alias[name][0] in ("flag", "thread", "pred"):
                self.fail(s, "re-assignment of an aliased name")
            if self.is_data(value) and self.alias.get(name, (None,))[0] not in ("bool", "condopt"):
                self.cur_src = ""
                return
            # boolean local computed from synchronisation state
            self.cexpr(value)
            idx = self.alias[name][1] if self.alias.get(name, (None,))[0] == "bool" else self.new_local(name, "bool")
            self.emit("stLoc", idx)
            return
        if self.is_data_target(target) and self.is_data(value):
            self.cur_src = ""
            return
        self.fail(s, "assignment not understood")

    def cif(self, s: ast.If):
        c = self.const_eval(s.test)
        if c is True:
            return self.cbody(s.body)
        if c is False:
            return self.cbody(s.orelse)
        # a test on pure data with no synchronisation in either branch disappears
        if self.is_data_test(s.test):
            mark = (len(self.code), len(self.handlers), self.tr.next_local)
            src = self.cur_src
            self.cbody(s.body)
            self.cbody(s.orelse)
            if len(self.code) == mark[0] and len(self.handlers) == mark[1]:
                self.cur_src = ""
                return
            del self.code[mark[0]:]
            del self.handlers[mark[1]:]
            self.cur_src = src
        els, end = Label(), Label()
        self.cexpr(s.test)
        self.emit("jf", els)
        self.cbody(s.body)
        if s.orelse:
            self.emit("jmp", end)
            self.place(els)
            self.cbody(s.orelse)
            self.place(end)
        else:
            self.place(els)

    def is_data_test(self, t) -> bool:
        if isinstance(t, ast.Call) and u(t.func) in ANY_CALLS and not t.args:
            return True
        if isinstance(t, ast.UnaryOp) and isinstance(t.op, ast.Not):
            return self.is_data_test(t.operand)
        return self.const_eval(t) is None and self.is_data(t)

    def cwhile(self, s: ast.While):
        if s.orelse:
            self.fail(s, "while/else")
        top, end = Label(), Label()
        self.place(top)
        c = self.const_eval(s.test)
        if isinstance(s.test, ast.Constant) and s.test.value is True:
            c = True
        if c is False:
            return
        if c is None:
            self.cexpr(s.test)
            self.emit("jf", end)
        self.loops.append((top, end, len(self.finals)))
        self.cbody(s.body)
        self.loops.pop()
        self.emit("jmp", top)
        self.place(end)

    # try / with ------------------------------------------------------------------------
    def exit_through_finals(self, down_to: int, then):
        """`return` / `break` / `continue`: run the enclosing finally bodies (innermost first), outside their own
        protected range but inside the outer ones, then transfer control."""
        ctxs = self.finals[down_to:]
        for ctx in reversed(ctxs):
            ctx["ranges"].append((ctx["lo"], self.here()))
            ctx["lo"] = None
            if ctx["final"] is not None:
                saved, self.finals = self.finals, self.finals[: self.finals.index(ctx)]
                ctx["final"]()
                self.finals = saved
        then()
        for ctx in ctxs:
            ctx["lo"] = self.here()

    def protected(self, body, final, excepts, orelse=None):
        """try: body  except K_i: h_i  else: orelse  finally: final   (final / excepts / orelse optional)."""
        end = Label()
        if excepts and final is not None:
            # try/except/else/finally == try{ try/except/else } finally
            return self.protected(lambda: self.protected(body, None, excepts, orelse), final, [])
        ctx = {"lo": self.here(), "ranges": [], "final": final}
        self.finals.append(ctx)
        body()
        self.finals.pop()
        ctx["ranges"].append((ctx["lo"], self.here()))
        if orelse is not None:
            orelse()        # runs when the body ended normally; NOT protected by the except clauses of this try
        if final is not None:
            final()
        self.emit("jmp", end)
        targets = []
        for (kind, hbody) in excepts:
            lab = Label()
            self.place(lab)
            hbody()
            self.emit("jmp", end)
            targets.append((lab, kind))
        if final is not None:
            lab = Label()
            self.place(lab)
            final()
            if not self.finals:
                self.kill_locals()
            self.emit("reraise")
            targets.append((lab, None))
        self.place(end)
        for (lo, hi) in ctx["ranges"]:
            if hi > lo:
                for (lab, kind) in targets:
                    self.handlers.append((lo, hi, lab, kind))

    def cwith(self, s: ast.With):
        if len(s.items) != 1 or s.items[0].optional_vars is not None:
            self.fail(s, "with statement shape")
        lr = self.lock_ref(s.items[0].context_expr)
        if lr is None:
            self.fail(s, "`with` on something that is not a known lock or condition")
        src = self.cur_src
        self.emit("lock", lr)

        def fin():
            self.cur_src = "(exit of `" + src + "`)"
            self.emit("unlock", lr)
        self.protected(lambda: self.cbody(s.body), fin, [])

    def ctry(self, s: ast.Try):
        excepts = []
        for h in s.handlers:
            if h.type is None or h.name is not None:
                self.fail(h, "bare except / except-as")
            t = u(h.type)
            if t == "QMI_TaskStopException":
                kind = ".stop"
            elif t == "QMI_TimeoutException":
                kind = ".timeout"
            else:
                self.fail(h, "handler for an exception type that is not modelled")
            excepts.append((kind, (lambda hb: (lambda: self.cbody(hb)))(h.body)))
        final = (lambda: self.cbody(s.finalbody)) if s.finalbody else None
        if final is None and not excepts:
            self.fail(s, "try without handlers")
        self.cur_src = ""
        if s.orelse and not excepts:
            self.fail(s, "try/else without except")
        orelse = (lambda: self.cbody(s.orelse)) if s.orelse else None
        self.protected(lambda: self.cbody(s.body), final, excepts, orelse)

    def creturn(self, s: ast.Return):
        src = self.cur_src
        if s.value is None or (isinstance(s.value, ast.Constant) and s.value.value is None):
            pass
        elif self.is_data(s.value):
            pass
        else:
            self.cexpr(s.value)
        need_save = any(c["final"] is not None for c in self.finals)
        tmp = None
        if need_save and s.value is not None:
            # does any finally body overwrite acc?  (measure by compiling into a scratch buffer)
            mark = len(self.code), len(self.handlers), self.tr.next_local
            saved_finals = [dict(c, ranges=list(c["ranges"])) for c in self.finals]
            self.exit_through_finals(0, lambda: None)
            clobber = any(ins[0] in ACC_WRITERS for ins in self.code[mark[0]:])
            del self.code[mark[0]:]
            del self.handlers[mark[1]:]
            for c, sc in zip(self.finals, saved_finals):
                c["lo"], c["ranges"] = sc["lo"], sc["ranges"]
            if clobber:
                tmp = self.new_local(f"$ret{len(self.code)}", "bool")
                self.emit("stLoc", tmp)

        def fin():
            if tmp is not None:
                self.emit("ldLoc", tmp)
            self.kill_locals()
            self.cur_src = src
            self.emit("ret")
        self.exit_through_finals(0, fin)

    def craise(self, s: ast.Raise):
        if s.exc is None:
            self.fail(s, "bare raise")
        e = s.exc
        name = u(e.func) if isinstance(e, ast.Call) else u(e)
        if name not in ("QMI_TaskStopException", "QMI_TimeoutException"):
            self.fail(s, "raise of an exception type that is not modelled")
        if not self.finals:
            src, self.cur_src = self.cur_src, ""
            self.kill_locals()
            self.cur_src = src
        self.emit("raise", ".stop" if name == "QMI_TaskStopException" else ".timeout")

    # -- whole function ----------------------------------------------------------------------
    def compile(self):
        self.cbody(self.fdef.body)
        self.kill_locals()
        self.cur_src = "(end of function)"
        self.emit("ret")
        # resolve labels
        out = []
        for ins in self.code:
            op, *args, src = ins
            args = [a.pos if isinstance(a, Label) else a for a in args]
            if any(a is None for a in args):
                raise Untranslatable(f"{self.lname}: unresolved label")
            out.append((op, args, src))
        hs = [(lo, hi, lab.pos, kind) for (lo, hi, lab, kind) in self.handlers]
        return out, hs


def _lean_arg(a) -> str:
    if isinstance(a, bool):
        return "true" if a else "false"
    if isinstance(a, int):
        return str(a)
    s = str(a)
    if " " in s and not s.startswith("("):
        return f"(.{s})" if not s.startswith(".") else f"({s})"
    return s if s.startswith(".") else "." + s


class Translator:
    def __init__(self, repo: Path):
        self.repo = Path(repo)
        self.next_local = 0
        self.local_names: list = []
        self.assumptions: list = []
        self.task_src = (self.repo / "qmi/core/task.py").read_text()
        self.pubsub_src = (self.repo / "qmi/core/pubsub.py").read_text()
        self.task_ast = ast.parse(self.task_src)
        self.pubsub_ast = ast.parse(self.pubsub_src)
        self._checked: set = set()

    @staticmethod
    def find(tree, cls: Optional[str], fn: str, fname: str) -> ast.FunctionDef:
        body = tree.body
        if cls is not None:
            cs = [n for n in body if isinstance(n, ast.ClassDef) and n.name == cls]
            if len(cs) != 1:
                raise Untranslatable(f"{fname}: class {cls} not found exactly once")
            body = cs[0].body
        fs = [n for n in body if isinstance(n, ast.FunctionDef) and n.name == fn]
        if len(fs) != 1:
            raise Untranslatable(f"{fname}: function {cls + '.' if cls else ''}{fn} not found exactly once")
        if fs[0].decorator_list and [u(d) for d in fs[0].decorator_list] != ["rpc_method"]:
            raise Untranslatable(f"{fname}: {fn} has decorators {[u(d) for d in fs[0].decorator_list]}")
        return fs[0]

    @staticmethod
    def _stmts(fdef):
        return [s for s in fdef.body
                if not (isinstance(s, ast.Expr) and isinstance(s.value, ast.Constant) and isinstance(s.value.value, str))
                and not (isinstance(s, ast.Expr) and isinstance(s.value, ast.Call) and u(s.value.func).startswith("_logger."))]

    def read_states(self):
        """Members of _TaskThread.State in definition order (their index is the model's encoding of `_state`)."""
        cs = [n for n in self.task_ast.body if isinstance(n, ast.ClassDef) and n.name == "_TaskThread"]
        es = [n for n in (cs[0].body if cs else []) if isinstance(n, ast.ClassDef) and n.name == "State"]
        if len(es) != 1:
            raise Untranslatable("qmi/core/task.py: _TaskThread.State not found")
        names = []
        for st in es[0].body:
            if isinstance(st, ast.Assign) and len(st.targets) == 1 and isinstance(st.targets[0], ast.Name):
                names.append(st.targets[0].id)
            elif isinstance(st, ast.Expr) and isinstance(st.value, ast.Constant):
                continue
            else:
                raise Untranslatable(f"qmi/core/task.py: _TaskThread.State has a member definition that is not understood: {u(st)[:80]}")
        if sorted(names) != sorted(STATE_NAMES):
            raise Untranslatable(f"qmi/core/task.py: _TaskThread.State members are {names}, expected {list(STATE_NAMES)}")
        self.state_names = names
        self.state_index = {n: i for i, n in enumerate(names)}

    def require_stop_requested(self):
        if "stop_requested" in self._checked:
            return
        f = self.find(self.task_ast, "QMI_Task", "stop_requested", "qmi/core/task.py")
        st = self._stmts(f)
        if len(st) != 1 or not isinstance(st[0], ast.Return) or u(st[0].value) != "self._stop_requested.is_set()":
            raise Untranslatable("qmi/core/task.py: QMI_Task.stop_requested is no longer `return self._stop_requested.is_set()`")
        self._checked.add("stop_requested")

    def require_runner_stop(self):
        if "runner_stop" in self._checked:
            return
        f = self.find(self.task_ast, "QMI_TaskRunner", "stop", "qmi/core/task.py")
        st = self._stmts(f)
        if len(st) != 1 or not isinstance(st[0], ast.Expr) or u(st[0].value) != "self._thread.stop_task()":
            raise Untranslatable("qmi/core/task.py: QMI_TaskRunner.stop is no longer `self._thread.stop_task()`")
        f = self.find(self.task_ast, "_TaskThread", "_request_shutdown", "qmi/core/task.py")
        st = self._stmts(f)
        if len(st) != 1 or not isinstance(st[0], ast.Expr) or u(st[0].value) != "self.stop_task()":
            raise Untranslatable("qmi/core/task.py: _TaskThread._request_shutdown is no longer `self.stop_task()`")
        self._checked.add("runner_stop")

    @staticmethod
    def params_of(fdef) -> list:
        return [a.arg for a in fdef.args.args]

    def check_params(self, fdef, expected, fname):
        got = self.params_of(fdef)
        if got != expected or fdef.args.vararg or fdef.args.kwarg or fdef.args.kwonlyargs:
            raise Untranslatable(f"{fname}: {fdef.name} has parameters {got}, expected {expected}")

    def run(self):
        T, P = "qmi/core/task.py", "qmi/core/pubsub.py"
        specs = []
        self.read_states()
        f = self.find(self.task_ast, "_TaskThread", "stop_task", T)
        self.check_params(f, ["self"], T)
        specs.append(("stopTask", f, T, Env(
            flags={"self.task._stop_requested"},
            locks={"self._wait_cond_lock": "wcl", "self._state_cond": "sc"},
            conds={"self._state_cond": "sc"}, slot="self._wait_cond", params=["self"])))
        f = self.find(self.task_ast, "_TaskThread", "wait_for_condition", T)
        self.check_params(f, ["self", "cond", "predicate", "timeout"], T)
        specs.append(("waitForCond", f, T, Env(
            flags={"self.task._stop_requested"},
            locks={"self._wait_cond_lock": "wcl", "self._state_cond": "sc", "cond": "cond"},
            conds={"cond": "cond"}, slot="self._wait_cond", preds={"predicate"}, opt_timeouts={"timeout"},
            params=["self", "cond", "predicate", "timeout"])))
        f = self.find(self.task_ast, "QMI_Task", "sleep", T)
        self.check_params(f, ["self", "duration"], T)
        specs.append(("sleep", f, T, Env(flags={"self._stop_requested"}, num_timeouts={"duration"},
                                         params=["self", "duration"])))
        f = self.find(self.pubsub_ast, None, "_wait_for_condition", P)
        self.check_params(f, ["cond", "predicate", "timeout"], P)
        specs.append(("pubsubWait", f, P, Env(locks={"cond": "cond"}, conds={"cond": "cond"}, preds={"predicate"},
                                              opt_timeouts={"timeout"}, params=["cond", "predicate", "timeout"])))
        f = self.find(self.pubsub_ast, "QMI_SignalReceiver", "get_next_signal", P)
        self.check_params(f, ["self", "timeout"], P)
        specs.append(("getNextSignal", f, P, Env(locks={"self._queue_cond": "cond"}, conds={"self._queue_cond": "cond"},
                                                 queue="self._queue", opt_timeouts={"timeout"},
                                                 params=["self", "timeout"])))
        f = self.find(self.task_ast, "QMI_LoopTask", "run", T)
        self.check_params(f, ["self"], T)
        specs.append(("loopRun", f, T, Env(flags={"self._stop_requested"}, params=["self"])))
        # the stop request's way to stop_task: QMI_TaskRunner.stop (what the proxy's stop() executes on the RPC worker) and
        # _TaskThread._request_shutdown (interpreter shutdown)
        f = self.find(self.task_ast, "QMI_TaskRunner", "stop", T)
        self.check_params(f, ["self"], T)
        specs.append(("runnerStop", f, T, Env(params=["self"])))
        f = self.find(self.task_ast, "_TaskThread", "_request_shutdown", T)
        self.check_params(f, ["self"], T)
        specs.append(("requestShutdown", f, T, Env(params=["self"])))
        progs = []
        for (lname, fdef, fname, env) in specs:
            c = FnCompiler(self, lname, fdef, env, fname)
            code, hs = c.compile()
            if len(code) > 120:
                raise Untranslatable(f"{fname}: {fdef.name} compiles to {len(code)} instructions (limit 120)")
            progs.append((lname, fdef, fname, code, hs))
        if self.next_local > 6:
            raise Untranslatable(f"{self.next_local} boolean locals needed (the state key of the model covers 6)")
        return progs

    def lean(self) -> str:
        progs = self.run()
        out = ["import QmiModel.Model.Wake",
               "/-! GENERATED by harness/tr_syncprogs.py from qmi/core/task.py and qmi/core/pubsub.py — do not edit.",
               "",
               "Each definition is the compiled statement sequence of the named function (see Model/Wake.lean for the",
               "instruction set).  Assumptions made by the translator:"]
        out += [f"  * {a}" for a in self.assumptions]
        out += [f"Boolean locals: " + ", ".join(f"{i} = {n}" for i, n in enumerate(self.local_names)), "-/",
                "namespace QmiModel.Gen.SyncProgs", "open QmiModel.Wake", ""]
        for (lname, fdef, fname, code, hs) in progs:
            cls = ""
            out.append(f"/-- `{fdef.name}` of {fname} -/")
            out.append(f"def {lname} : Func := {{")
            out.append("  code := [")
            for i, (op, args, src) in enumerate(code):
                a = " ".join(_lean_arg(x) for x in args)
                ins = f".{op}" + (f" {a}" if a else "")
                sep = "," if i < len(code) - 1 else ""
                cm = f"  -- {src}" if src else ""
                out.append(f"    /- {i:2d} -/ {ins}{sep}{cm}")
            out.append("  ],")
            hl = ", ".join(f"⟨{lo}, {hi}, {t}, {'none' if k is None else 'some ' + k}⟩" for (lo, hi, t, k) in hs)
            out.append(f"  handlers := [{hl}] }}")
            out.append("")
        out.append("/-- members of `_TaskThread.State` in definition order; the index is the value of `St.tstate` -/")
        out.append("def stateNames : List String := [" + ", ".join(f'"{n}"' for n in self.state_names) + "]")
        short = {"INITIAL": "stInitial", "EXCEPTION_WHILE_INSTANTIATING_TASK": "stExcInit", "READY_TO_RUN": "stReady",
                 "RUNNING": "stRunning", "EXCEPTION_WHILE_RUNNING_TASK": "stExcRun", "TASK_COMPLETED_NORMALLY": "stCompleted",
                 "TASK_STOPPED_BEFORE_START": "stStoppedBeforeStart"}
        for n in STATE_NAMES:
            out.append(f"def {short[n]} : Nat := {self.state_index[n]}")
        out.append("")
        out.append("def funcs : List Func := [" + ", ".join(p[0] for p in progs) + "]")
        out.append("")
        out.append("end QmiModel.Gen.SyncProgs")
        return "\n".join(out) + "\n"


def translate(repo: Path) -> str:
    return Translator(repo).lean()


if __name__ == "__main__":
    import sys
    print(translate(Path(sys.argv[1] if len(sys.argv) > 1 else "/repo")))
