"""C19 — REAL transport classes over fake OS / library endpoints.

`harness/c19_dyn.py` replaces the transport object; that leaves the transports' own state guards (the second line of
defence most drivers rely on) and the auto-reconnect behaviour of the third-party libraries outside the experiment.
Here the driver is built with the real `create_transport` and the real `QMI_TcpTransport`, `QMI_UdpTransport`,
`QMI_SerialTransport`, `QMI_Vxi11Transport` (real python-vxi11 `Instrument`, fake `CoreClient`) and
`QMI_PyUsbTmcTransport` (real `qmi.core.usbtmc.Instrument.read_raw/write_raw`, fake USB bulk endpoints); only the
OS / wire level is replaced by an in-process device that records every operation and every established link.

Oracle (`closed_histories`): on an instrument that was never opened, and on one that was opened and closed again,
every RPC method must leave the endpoint log untouched, no link established, `is_open()` False.
"""
from __future__ import annotations

import array
import inspect
import struct
import sys
import threading
from typing import Any, Optional

from harness import c19_dyn as D

KINDS = {
    "tcp": "tcp:localhost:1234",
    "udp": "udp:localhost:1234",
    "serial": "serial:/dev/ttyS0",
    "usbtmc": "usbtmc:vendorid=0x1313:productid=0x8078:serialnr=P0000001",
    "vxi11": "vxi11:localhost",
}


class Device:
    """The fake device behind all endpoints of one experiment."""

    def __init__(self, script=None):
        self.log: list = []            # (op, transport-class.method that caused it)
        self.links: set = set()        # live endpoint objects / link ids
        self.rx = bytearray()
        self.script = script
        self.owner = threading.get_ident()
        self.budget = 4000
        self.objects: set = set()      # endpoint objects (sockets, ports, RPC clients) created and not yet closed
        self.fail: dict = {}           # establishment op -> way it fails (every occurrence, so retries fail as well)
        self.os_calls: list = []       # names of the OS / library calls seen since the list was last cleared
        self.fail_at = None            # (index into os_calls, way): that call fails; way = oserror | gaierror | timeout
        self.bound: set = set()        # local ports currently bound
        self.created: list = []        # every socket object created since the list was last cleared

    def failing(self, what: str) -> Optional[str]:
        """Called once by every OS-level call of the fakes: records it, tells whether (and how) it has to fail."""
        i = len(self.os_calls)
        self.os_calls.append(what)
        if self.fail_at is not None and self.fail_at[0] == i:
            return self.fail_at[1]
        return self.fail.get(what)

    @staticmethod
    def exc_for(way: str, default: Optional[BaseException] = None) -> BaseException:
        import socket as _s
        if way == "timeout":
            return _s.timeout("timed out")
        if way == "gaierror":
            return _s.gaierror(-2, "Name or service not known")
        if way == "refused":
            return ConnectionRefusedError(111, "Connection refused")
        if way == "unreachable":
            return OSError(113, "No route to host")
        return default if default is not None else OSError(5, "Input/output error")

    def _who(self) -> str:
        from qmi.core.transport import QMI_Transport
        f = sys._getframe(2)
        who = "?"
        while f is not None:
            s = f.f_locals.get("self")
            if isinstance(s, QMI_Transport):
                owner = next((k.__name__ for k in type(s).__mro__ if f.f_code.co_name in k.__dict__), type(s).__name__)
                who = f"{owner}.{f.f_code.co_name}"      # the outermost (public) transport method, by defining class
            f = f.f_back
        return who

    def op(self, what: str):
        if threading.get_ident() != self.owner:
            raise OSError("C19 endpoint: call from a foreign thread refused")
        self.budget -= 1
        if self.budget < 0:
            raise D.Budget("more than 4000 endpoint operations")
        self.log.append((what, self._who()))

    def connected(self, key):
        self.links.add(key)
        if self.script is not None:
            g = self.script.greeting
            self.rx = bytearray(g.get("*", b"") or next(iter(g.values()), b""))
        else:
            self.rx = bytearray()

    def written(self, data: bytes):
        if self.script is not None:
            r = self.script.on_write(bytes(data))
            if r:
                self.rx.extend(r)
        else:
            self.rx.extend(b"0\r\n")

    def take(self, n: int) -> bytes:
        out = bytes(self.rx[:n])
        del self.rx[:n]
        return out


# ---------------------------------------------------------------------------
# socket
# ---------------------------------------------------------------------------

def make_socket_shim(dev: Device):
    import socket as real

    class FakeSocket:
        _fd = [100]

        def __init__(self, family=None, type_=None, *a):
            dev.op("socket()")
            way = dev.failing("socket()")
            if way:
                raise dev.exc_for(way, OSError(24, "Too many open files"))
            self._timeout: Optional[float] = None
            self._closed = False
            self._port = None
            FakeSocket._fd[0] += 1
            self._fileno = FakeSocket._fd[0]
            dev.objects.add(self)
            dev.created.append(self)

        def fileno(self):
            return -1 if self._closed else self._fileno

        def settimeout(self, t):
            way = dev.failing("settimeout")
            if way:
                raise dev.exc_for(way)
            self._timeout = t

        def setsockopt(self, *a):
            way = dev.failing("setsockopt")
            if way:
                raise dev.exc_for(way)

        def bind(self, addr):
            dev.op("bind")
            way = dev.failing("bind")
            if way:
                raise dev.exc_for(way, OSError(98, "Address already in use"))
            if addr[1] in dev.bound:
                raise OSError(98, "Address already in use")
            dev.bound.add(addr[1])
            self._port = addr[1]
            dev.connected(id(self))

        def connect(self, addr):
            dev.op("connect")
            way = dev.failing("connect")
            if way == "timeout":
                # the caller gives up, the kernel goes on connecting: unless this socket is closed the connection
                # gets established later on a descriptor nobody looks at any more
                dev.connected(id(self))
                raise real.timeout("timed out")
            if way:
                raise dev.exc_for(way)
            dev.connected(id(self))

        def close(self):
            dev.op("close")
            dev.links.discard(id(self))
            dev.objects.discard(self)
            dev.bound.discard(self._port)
            self._closed = True

        def _need(self):
            if self._closed or id(self) not in dev.links:
                raise OSError(9, "Bad file descriptor")

        def sendall(self, data):
            dev.op("send")
            self._need()
            dev.written(data)

        send = sendall

        def sendto(self, data, addr):
            dev.op("send")
            self._need()
            dev.written(data)

        def recv(self, n):
            dev.op("recv")
            self._need()
            if not dev.rx:
                if self._timeout == 0:
                    raise BlockingIOError()
                raise real.timeout("timed out")
            return dev.take(n)

        def recvfrom(self, n):
            return self.recv(n), ("127.0.0.1", 1234)

    def _resolver(name, result):
        def f(*a, **k):
            dev.op(name)
            way = dev.failing(name)
            if way:
                raise dev.exc_for(way, real.gaierror(-2, "Name or service not known"))
            return result(*a, **k)
        return f

    def _create_connection(address, timeout=None, *a, **k):
        sock = FakeSocket(real.AF_INET, real.SOCK_STREAM)
        try:
            sock.settimeout(timeout)
            sock.connect(address)
        except BaseException:
            sock.close()
            raise
        return sock

    class Shim:
        socket = FakeSocket
        timeout = real.timeout
        error = real.error
        AF_INET, AF_INET6 = real.AF_INET, real.AF_INET6
        SOCK_STREAM, SOCK_DGRAM = real.SOCK_STREAM, real.SOCK_DGRAM
        IPPROTO_TCP, TCP_NODELAY = real.IPPROTO_TCP, real.TCP_NODELAY
        inet_pton = staticmethod(real.inet_pton)
        gaierror = real.gaierror

        gethostbyname = staticmethod(_resolver("gethostbyname", lambda host: "127.0.0.1"))
        gethostbyname_ex = staticmethod(_resolver("gethostbyname_ex", lambda host: (host, [], ["127.0.0.1"])))
        getaddrinfo = staticmethod(_resolver("getaddrinfo", lambda host, port, *a, **k: [
            (real.AF_INET, real.SOCK_STREAM, 6, "", ("127.0.0.1", int(port or 0)))]))
        create_connection = staticmethod(_create_connection)

        def __getattr__(self, k):
            return getattr(real, k)
    return Shim()


# ---------------------------------------------------------------------------
# serial
# ---------------------------------------------------------------------------

def make_serial_shim(dev: Device):
    import serial as real

    class FakeSerial:
        def __init__(self, port=None, **kw):
            dev.op("Serial()")
            way = dev.failing("Serial()")
            if way:
                raise dev.exc_for(way, real.SerialException(f"could not open port {port}")) if way == "timeout" \
                    else real.SerialException(f"could not open port {port}")
            dev.objects.add(self)
            dev.connected(id(self))
            self.timeout = kw.get("timeout")
            self.is_open = True

        def _need(self):
            if id(self) not in dev.links:
                raise real.SerialException("port is closed")

        @property
        def in_waiting(self):
            dev.op("in_waiting")
            self._need()
            return len(dev.rx)

        def read(self, n=1):
            dev.op("read")
            self._need()
            return dev.take(n)

        def write(self, data):
            dev.op("write")
            self._need()
            dev.written(data)
            return len(data)

        def reset_input_buffer(self):
            dev.op("reset_input_buffer")
            self._need()
            dev.rx.clear()

        def flush(self):
            dev.op("flush")

        def close(self):
            dev.op("close")
            dev.links.discard(id(self))
            dev.objects.discard(self)
            self.is_open = False

    class Shim:
        Serial = FakeSerial

        def __getattr__(self, k):
            return getattr(real, k)
    return Shim()


# ---------------------------------------------------------------------------
# VXI-11: the real vxi11.Instrument over a fake CoreClient
# ---------------------------------------------------------------------------

def make_vxi11_coreclient(dev: Device):
    import vxi11.vxi11 as V

    class _Sock:
        def settimeout(self, t):
            pass

    class FakeCoreClient:
        _next = [100]

        def __init__(self, host, port=0):
            dev.op("rpc-connect")
            way = dev.failing("rpc-connect")
            if way:
                raise dev.exc_for("refused" if way == "oserror" else way)
            self.sock = _Sock()
            dev.objects.add(self)

        def create_link(self, client_id, lock_device, lock_timeout, name):
            dev.op("create_link")
            way = dev.failing("create_link")
            if way in ("error", "oserror"):
                return 9, 0, 0, 0              # "out of resources": the device has no free link
            if way:
                raise dev.exc_for(way)
            FakeCoreClient._next[0] += 1
            dev.connected(("vxi", FakeCoreClient._next[0]))
            return 0, FakeCoreClient._next[0], 0, 1024

        def destroy_link(self, link):
            dev.op("destroy_link")
            dev.links.discard(("vxi", link))
            return 0

        def close(self):
            dev.op("rpc-disconnect")
            dev.objects.discard(self)

        def device_write(self, link, timeout, lock_timeout, flags, data):
            dev.op("device_write")
            dev.written(bytes(data))
            return 0, len(data)

        def device_read(self, link, request_size, timeout, lock_timeout, flags, term_char):
            dev.op("device_read")
            if not dev.rx:
                return 15, 0, b""            # I/O timeout
            if flags & V.OP_FLAG_TERMCHAR_SET:
                i = dev.rx.find(bytes([term_char]))
                if i >= 0:
                    return 0, V.RX_CHR, dev.take(i + 1)
            return 0, V.RX_END, dev.take(request_size)

        def device_clear(self, *a):
            dev.op("device_clear")
            return 0
    return FakeCoreClient


# ---------------------------------------------------------------------------
# USBTMC: the real qmi.core.usbtmc.Instrument.read_raw/write_raw over fake bulk endpoints
# ---------------------------------------------------------------------------

def make_usbtmc_instrument(dev: Device):
    import usb.core
    from qmi.core import usbtmc as U

    class _Out:
        def __init__(self, inst):
            self.inst = inst

        def write(self, req, timeout=None):
            req = bytes(req)
            msgid, btag = req[0], req[1]
            size = struct.unpack_from("<L", req, 4)[0]
            if msgid == 1:                       # DEV_DEP_MSG_OUT
                dev.op("bulk-out")
                dev.written(req[12:12 + size])
            else:                                # REQUEST_DEV_DEP_MSG_IN
                dev.op("bulk-in-request")
                self.inst._pending = (btag, size)
            return len(req)

    class _In:
        def __init__(self, inst):
            self.inst = inst

        def read(self, n, timeout=None):
            dev.op("bulk-in")
            btag, size = getattr(self.inst, "_pending", (1, n))
            data = dev.take(size)
            hdr = struct.pack("<BBBxLBxxx", 2, btag, (~btag) & 0xFF, len(data), 1)
            return array.array("B", hdr + data + b"\0" * ((4 - len(data) % 4) % 4))

    class _Dev:
        idVendor, idProduct = 0x1313, 0x8078

        def ctrl_transfer(self, *a, **k):
            dev.op("ctrl_transfer")
            return array.array("B", [1, 0, 0, 0, 0, 0, 0, 0])

    class FakeUsbTmcInstrument(U.Instrument):
        """open()/close() replaced (no libusb); read_raw()/write_raw() with their `if not self.connected: self.open()`
        are the library's own."""

        def __init__(self, *args, **kwargs):
            U.Instrument.__init__(self, _Dev())          # a device object is given: the library does not search the bus
            self.idVendor, self.idProduct = 0x1313, 0x8078

        def open(self):
            if self.connected:
                return
            dev.op("usb-open")
            if dev.failing("usb-open"):
                raise U.UsbtmcException("Device not found", "init")
            dev.connected(("usb", id(self)))
            self.bulk_out_ep, self.bulk_in_ep = _Out(self), _In(self)
            self.connected = True

        def close(self):
            if not self.connected:
                return
            dev.op("usb-close")
            dev.links.discard(("usb", id(self)))
            self.connected = False

        def clear(self):
            dev.op("usb-clear")
    return FakeUsbTmcInstrument


class Patched:
    """Context manager: the endpoint libraries inside qmi.core.transport* point at the fake device."""

    def __init__(self, dev: Device):
        self.dev = dev
        self.saved: list = []

    def _set(self, obj, name, val):
        self.saved.append((obj, name, getattr(obj, name)))
        setattr(obj, name, val)

    def __enter__(self):
        import qmi.core.transport as T0
        self._set(T0, "socket", make_socket_shim(self.dev))
        self._set(T0, "serial", make_serial_shim(self.dev))
        try:
            import vxi11.vxi11 as V
            self._set(V, "CoreClient", make_vxi11_coreclient(self.dev))
        except Exception:
            pass
        try:
            import qmi.core.transport_usbtmc_pyusb as P
            fake = make_usbtmc_instrument(self.dev)

            class _Ns:
                Instrument = fake

                def __getattr__(self, k):
                    from qmi.core import usbtmc as U
                    return getattr(U, k)
            self._set(P, "usbtmc", _Ns())
        except Exception:
            pass
        return self

    def __exit__(self, *a):
        for obj, name, val in reversed(self.saved):
            setattr(obj, name, val)
        return False


# ---------------------------------------------------------------------------
# histories on closed instruments
# ---------------------------------------------------------------------------

def _build_real(cls, variant_present, descriptor: str, builder: "D.Builder"):
    """Construct the driver with the real create_transport and the given descriptor for every transport parameter."""
    last = None
    for kw in builder._kwargs_candidates(cls, variant_present):
        kw = {k: (descriptor if isinstance(v, str) and v in D.DESCRIPTORS else v) for k, v in kw.items()}
        try:
            return cls(D._StubContext(), "dut", **kw)
        except Exception as e:
            last = e
    raise RuntimeError(f"{type(last).__name__}: {last}")


def closed_histories(cls, variant: str, kind: str, builder: "D.Builder", methods: list, stats) -> list:
    """Run `never opened → every RPC method` and `open → close → every RPC method` on the real transport of `kind`.
    Returns [(history, method, transport-method that touched the endpoint, detail)] for every violation."""
    from qmi.core.transport import QMI_Transport
    present = dict(D.variants_of(cls)).get(variant)
    dev = Device(D.script_for(cls))
    out = []
    with Patched(dev), D.VirtualTime(), D._Alarm(60):
        try:
            inst = _build_real(cls, present, KINDS[kind], builder)
        except Exception:
            stats(f"endpoint_{kind}_not_constructible")
            return out
        transports = [v for v in vars(inst).values() if isinstance(v, QMI_Transport)]
        if not transports:
            stats(f"endpoint_{kind}_no_transport")
            return out
        stats(f"endpoint_{kind}_instances")

        def sweep(history: str):
            for name in methods:
                args = D.generic_args(getattr(cls, name))
                if args is None:
                    continue
                n0 = len(dev.log)
                try:
                    getattr(inst, name)(*args)
                except (D.Budget, D.Watchdog):
                    raise
                except BaseException:
                    pass
                stats("endpoint_rpc_calls_on_closed_instrument")
                bad_io = dev.log[n0:]
                held = bool(dev.links) or any(t._is_open for t in transports)
                flag = bool(inst.is_open())
                if bad_io or held or flag:
                    who = bad_io[0][1] if bad_io else "?"
                    out.append((history, name, who,
                                f"endpoint operations {[o for o, _ in bad_io][:6]}, links established: {len(dev.links)}, "
                                f"transport flags {[t._is_open for t in transports]}, is_open()={flag}"))
                    return False
            return True

        try:
            if not sweep("never-opened"):
                return out
            try:
                inst.open()
            except (D.Budget, D.Watchdog):
                raise
            except BaseException:
                stats(f"endpoint_{kind}_open_failed")
            if inst.is_open():
                stats(f"endpoint_{kind}_opened")
                try:
                    inst.close()
                except (D.Budget, D.Watchdog):
                    raise
                except BaseException:
                    pass
            if inst.is_open() or dev.links or any(t._is_open for t in transports):
                stats(f"endpoint_{kind}_not_cleanly_closed(skipped)")
                return out
            sweep("open-close")
        except (D.Budget, D.Watchdog):
            stats(f"endpoint_{kind}_aborted_by_guard")
    return out


# ---------------------------------------------------------------------------
# faults during link establishment, judged at the endpoint level
# ---------------------------------------------------------------------------

def _ways(name: str) -> list:
    return ["oserror", "timeout"] + (["gaierror"] if name.startswith("get") else [])


def establish_faults(cls, variant: str, kind: str, builder, stats) -> list:
    """Faults at EVERY OS / library call made while the link is established, discovered from the live code: a fault-free
    open() on the real transport records the call sequence seen by the wrapped `socket` / `serial` / vxi11 / usbtmc
    endpoints (socket(), settimeout, setsockopt, gethostbyname/getaddrinfo, bind, connect/create_connection, Serial(),
    rpc-connect, create_link, usb-open …); then open() is re-run once per recorded call index and way (OSError, timeout,
    and gaierror for the resolver calls) with exactly that call failing.  After each failed open():

      * every socket object created during that open() is closed (fileno() == -1), no port/RPC client/link is held;
      * every transport flag is False and is_open() is False;
      * close() behaves as on a never-opened object (same refusal, no OS call);
      * a second open() on the same object succeeds, and so does a fresh object on the same local port.

    cls = None: the bare transport object (create_transport).  Returns [(op, way, transport-method, clause, detail)]."""
    from qmi.core.transport import QMI_Transport

    def make(dev):
        if cls is None:
            from qmi.core.transport import create_transport
            t = create_transport(KINDS[kind])
            return None, [t], t.open, t.close, (lambda: False)
        inst = _build_real(cls, dict(D.variants_of(cls)).get(variant), KINDS[kind], builder)
        ts = [v for v in vars(inst).values() if isinstance(v, QMI_Transport)]
        return inst, ts, inst.open, inst.close, (lambda: bool(inst.is_open()))

    def attempt(f):
        try:
            f()
            return None
        except (D.Budget, D.Watchdog):
            raise
        except BaseException as e:
            return e

    out = []
    script = D.script_for(cls) if cls is not None else None
    # 1. record the call sequence of a fault-free open(), and how close() refuses on a never-opened object
    dev = Device(script)
    with Patched(dev), D.VirtualTime(), D._Alarm(120):
        try:
            inst, transports, do_open, do_close, is_open = make(dev)
        except Exception:
            stats(f"establish_{kind}_not_constructible")
            return out
        if not transports:
            return out
        try:
            never = attempt(do_close)
            never_type = type(never).__name__ if never is not None else "no exception"
            dev.os_calls = []
            e0 = attempt(do_open)
            seq = list(dev.os_calls)
            if e0 is not None or not all(t._is_open for t in transports):
                stats(f"establish_{kind}_fault_free_open_fails")
                return out
            attempt(do_close)
        except (D.Budget, D.Watchdog):
            stats(f"establish_{kind}_aborted_by_guard")
            return out
    stats(f"establish_{kind}_os_calls_per_open", len(seq))
    # 2. one run per recorded call and way
    for idx, name in enumerate(seq):
        for way in _ways(name):
            dev = Device(script)
            with Patched(dev), D.VirtualTime(), D._Alarm(120):
                try:
                    inst, transports, do_open, do_close, is_open = make(dev)
                    dev.os_calls, dev.created = [], []
                    dev.fail_at = (idx, way)
                    raised = attempt(do_open)
                    dev.fail_at = None
                    stats("establish_fault_runs")
                    stats(f"establish_{kind}_{name}_{way}_" + ("raised" if raised is not None else "open_succeeded"))
                    who = type(transports[0]).__name__ + "._open_transport"
                    flags = [bool(t._is_open) for t in transports]
                    filenos = [sk.fileno() for sk in dev.created]
                    clause = None
                    if raised is None:
                        # the failing call was tolerated: then the instrument must simply be open, and closable
                        if not (all(flags) and (cls is None or is_open())):
                            clause = "open() returned although the link was not established"
                        else:
                            attempt(do_close)
                            if dev.objects or dev.links or dev.bound:
                                clause = "endpoint left un-closed after open()/close()"
                    elif cls is not None and is_open() and all(flags):
                        # the call failed after the link was up and the flag set (I/O of a post-flag sequence): the
                        # instrument is fully open, which the property allows — close() must then work
                        c = attempt(do_close)
                        if c is not None or dev.objects or dev.links or dev.bound:
                            clause = "fully open after the failed open(), but close() does not release everything"
                        raised = None if clause is None else raised
                        if clause is None:
                            continue
                    else:
                        if is_open() or any(flags):
                            clause = "inconsistent open flags after a failed link establishment"
                        elif dev.objects or dev.links or dev.bound or any(fn != -1 for fn in filenos):
                            clause = "endpoint left un-closed"
                        else:
                            n0 = len(dev.os_calls)
                            c = attempt(do_close)
                            ct = type(c).__name__ if c is not None else "no exception"
                            if ct != never_type or len(dev.os_calls) != n0:
                                clause = f"close() after the failed open() ({ct}) differs from a never-opened object ({never_type})"
                    if clause is None and raised is not None:
                        e2 = attempt(do_open)
                        if e2 is not None:
                            clause = f"second open() on the same object fails ({type(e2).__name__}: {str(e2)[:60]})"
                        else:
                            attempt(do_close)
                            if dev.objects or dev.links or dev.bound:
                                clause = "endpoint left un-closed after a later successful open()/close()"
                    if clause is None or clause.startswith("endpoint left un-closed"):
                        # a fresh object on the same local port / device
                        try:
                            _i2, ts2, open2, close2, _io2 = make(dev)
                            e3 = attempt(open2)
                            if e3 is not None and clause is None:
                                clause = f"a fresh object for the same local port cannot open ({type(e3).__name__}: {str(e3)[:60]})"
                            elif e3 is not None:
                                clause += f"; a fresh object then fails with {type(e3).__name__}: {str(e3)[:50]}"
                            else:
                                attempt(close2)
                        except (D.Budget, D.Watchdog):
                            raise
                        except Exception:
                            pass
                    if clause:
                        out.append((name, way, who, clause,
                                    f"OS call #{idx + 1} of open() ({name}) fails; open() {'raised ' + type(raised).__name__ if raised is not None else 'returned'}; sockets created "
                                    f"during that open(): fileno() = {filenos}; un-closed endpoint objects: {len(dev.objects)}, "
                                    f"established links: {len(dev.links)}, bound ports: {sorted(dev.bound)}, transport flags {flags}, "
                                    f"is_open()={is_open()}"))
                except (D.Budget, D.Watchdog):
                    stats(f"establish_{kind}_aborted_by_guard")
                except Exception as e:
                    stats("establish_harness_errors")
                    stats(f"establish_harness_error_{type(e).__name__}")
    return out
