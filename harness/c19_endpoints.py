"""C19 — REAL transport classes over fake OS / library endpoints.

`harness/c19_dyn.py` replaces the transport object; that leaves the transports' own state guards (the second line of
defence most drivers rely on) and the auto-reconnect behaviour of the third-party libraries outside the experiment.
Here the driver is built with the real `create_transport` and the real `QMI_TcpTransport`, `QMI_UdpTransport`,
`QMI_SerialTransport`, `QMI_Vxi11Transport` (real python-vxi11 `Instrument`, fake `CoreClient`) and
`QMI_PyUsbTmcTransport` (real `qmi.core.usbtmc.Instrument.read_raw/write_raw`, fake USB bulk endpoints); only the
OS / wire level is replaced by an in-process device that records every operation and every established link.

Oracle (`closed_histories`): on an instrument that was never opened, and on one that was opened and closed again,
every RPC method must leave the endpoint log untouched, no link established, `is_open()` False.
"""
from __future__ import annotations

import array
import inspect
import struct
import sys
import threading
from typing import Any, Optional

from harness import c19_dyn as D

KINDS = {
    "tcp": "tcp:localhost:1234",
    "udp": "udp:localhost:1234",
    "serial": "serial:/dev/ttyS0",
    "usbtmc": "usbtmc:vendorid=0x1313:productid=0x8078:serialnr=P0000001",
    "vxi11": "vxi11:localhost",
}


class Device:
    """The fake device behind all endpoints of one experiment."""

    def __init__(self, script=None):
        self.log: list = []            # (op, transport-class.method that caused it)
        self.links: set = set()        # live endpoint objects / link ids
        self.rx = bytearray()
        self.script = script
        self.owner = threading.get_ident()
        self.budget = 4000
        self.objects: set = set()      # endpoint objects (sockets, ports, RPC clients) created and not yet closed
        self.fail: dict = {}           # establishment op -> way it fails (every occurrence, so retries fail as well)

    def failing(self, what: str) -> Optional[str]:
        return self.fail.get(what)

    def _who(self) -> str:
        from qmi.core.transport import QMI_Transport
        f = sys._getframe(2)
        who = "?"
        while f is not None:
            s = f.f_locals.get("self")
            if isinstance(s, QMI_Transport):
                owner = next((k.__name__ for k in type(s).__mro__ if f.f_code.co_name in k.__dict__), type(s).__name__)
                who = f"{owner}.{f.f_code.co_name}"      # the outermost (public) transport method, by defining class
            f = f.f_back
        return who

    def op(self, what: str):
        if threading.get_ident() != self.owner:
            raise OSError("C19 endpoint: call from a foreign thread refused")
        self.budget -= 1
        if self.budget < 0:
            raise D.Budget("more than 4000 endpoint operations")
        self.log.append((what, self._who()))

    def connected(self, key):
        self.links.add(key)
        if self.script is not None:
            g = self.script.greeting
            self.rx = bytearray(g.get("*", b"") or next(iter(g.values()), b""))
        else:
            self.rx = bytearray()

    def written(self, data: bytes):
        if self.script is not None:
            r = self.script.on_write(bytes(data))
            if r:
                self.rx.extend(r)
        else:
            self.rx.extend(b"0\r\n")

    def take(self, n: int) -> bytes:
        out = bytes(self.rx[:n])
        del self.rx[:n]
        return out


# ---------------------------------------------------------------------------
# socket
# ---------------------------------------------------------------------------

def make_socket_shim(dev: Device):
    import socket as real

    class FakeSocket:
        def __init__(self, family=None, type_=None, *a):
            dev.op("socket()")
            if dev.failing("socket()"):
                raise OSError(24, "Too many open files")
            self._timeout: Optional[float] = None
            self._closed = False
            dev.objects.add(self)

        def settimeout(self, t):
            self._timeout = t

        def setsockopt(self, *a):
            pass

        def bind(self, addr):
            dev.op("bind")
            if dev.failing("bind"):
                raise OSError(98, "Address already in use")
            dev.connected(id(self))

        def connect(self, addr):
            dev.op("connect")
            way = dev.failing("connect")
            if way == "timeout":
                # the caller gives up, the kernel goes on connecting: unless this socket is closed the connection
                # gets established later on a descriptor nobody looks at any more
                dev.connected(id(self))
                raise real.timeout("timed out")
            if way == "refused":
                raise ConnectionRefusedError(111, "Connection refused")
            if way == "unreachable":
                raise OSError(113, "No route to host")
            dev.connected(id(self))

        def close(self):
            dev.op("close")
            dev.links.discard(id(self))
            dev.objects.discard(self)
            self._closed = True

        def _need(self):
            if self._closed or id(self) not in dev.links:
                raise OSError(9, "Bad file descriptor")

        def sendall(self, data):
            dev.op("send")
            self._need()
            dev.written(data)

        send = sendall

        def sendto(self, data, addr):
            dev.op("send")
            self._need()
            dev.written(data)

        def recv(self, n):
            dev.op("recv")
            self._need()
            if not dev.rx:
                if self._timeout == 0:
                    raise BlockingIOError()
                raise real.timeout("timed out")
            return dev.take(n)

        def recvfrom(self, n):
            return self.recv(n), ("127.0.0.1", 1234)

    class Shim:
        socket = FakeSocket
        timeout = real.timeout
        error = real.error
        AF_INET, AF_INET6 = real.AF_INET, real.AF_INET6
        SOCK_STREAM, SOCK_DGRAM = real.SOCK_STREAM, real.SOCK_DGRAM
        IPPROTO_TCP, TCP_NODELAY = real.IPPROTO_TCP, real.TCP_NODELAY
        inet_pton = staticmethod(real.inet_pton)
        gaierror = real.gaierror

        def __getattr__(self, k):
            return getattr(real, k)
    return Shim()


# ---------------------------------------------------------------------------
# serial
# ---------------------------------------------------------------------------

def make_serial_shim(dev: Device):
    import serial as real

    class FakeSerial:
        def __init__(self, port=None, **kw):
            dev.op("Serial()")
            if dev.failing("Serial()"):
                raise real.SerialException(f"could not open port {port}")
            dev.objects.add(self)
            dev.connected(id(self))
            self.timeout = kw.get("timeout")
            self.is_open = True

        def _need(self):
            if id(self) not in dev.links:
                raise real.SerialException("port is closed")

        @property
        def in_waiting(self):
            dev.op("in_waiting")
            self._need()
            return len(dev.rx)

        def read(self, n=1):
            dev.op("read")
            self._need()
            return dev.take(n)

        def write(self, data):
            dev.op("write")
            self._need()
            dev.written(data)
            return len(data)

        def reset_input_buffer(self):
            dev.op("reset_input_buffer")
            self._need()
            dev.rx.clear()

        def flush(self):
            dev.op("flush")

        def close(self):
            dev.op("close")
            dev.links.discard(id(self))
            dev.objects.discard(self)
            self.is_open = False

    class Shim:
        Serial = FakeSerial

        def __getattr__(self, k):
            return getattr(real, k)
    return Shim()


# ---------------------------------------------------------------------------
# VXI-11: the real vxi11.Instrument over a fake CoreClient
# ---------------------------------------------------------------------------

def make_vxi11_coreclient(dev: Device):
    import vxi11.vxi11 as V

    class _Sock:
        def settimeout(self, t):
            pass

    class FakeCoreClient:
        _next = [100]

        def __init__(self, host, port=0):
            dev.op("rpc-connect")
            way = dev.failing("rpc-connect")
            if way == "refused":
                raise ConnectionRefusedError(111, "Connection refused")
            if way == "timeout":
                import socket as _s
                raise _s.timeout("timed out")
            self.sock = _Sock()
            dev.objects.add(self)

        def create_link(self, client_id, lock_device, lock_timeout, name):
            dev.op("create_link")
            way = dev.failing("create_link")
            if way == "error":
                return 9, 0, 0, 0              # "out of resources": the device has no free link
            if way == "timeout":
                import socket as _s
                raise _s.timeout("timed out")
            FakeCoreClient._next[0] += 1
            dev.connected(("vxi", FakeCoreClient._next[0]))
            return 0, FakeCoreClient._next[0], 0, 1024

        def destroy_link(self, link):
            dev.op("destroy_link")
            dev.links.discard(("vxi", link))
            return 0

        def close(self):
            dev.op("rpc-disconnect")
            dev.objects.discard(self)

        def device_write(self, link, timeout, lock_timeout, flags, data):
            dev.op("device_write")
            dev.written(bytes(data))
            return 0, len(data)

        def device_read(self, link, request_size, timeout, lock_timeout, flags, term_char):
            dev.op("device_read")
            if not dev.rx:
                return 15, 0, b""            # I/O timeout
            if flags & V.OP_FLAG_TERMCHAR_SET:
                i = dev.rx.find(bytes([term_char]))
                if i >= 0:
                    return 0, V.RX_CHR, dev.take(i + 1)
            return 0, V.RX_END, dev.take(request_size)

        def device_clear(self, *a):
            dev.op("device_clear")
            return 0
    return FakeCoreClient


# ---------------------------------------------------------------------------
# USBTMC: the real qmi.core.usbtmc.Instrument.read_raw/write_raw over fake bulk endpoints
# ---------------------------------------------------------------------------

def make_usbtmc_instrument(dev: Device):
    import usb.core
    from qmi.core import usbtmc as U

    class _Out:
        def __init__(self, inst):
            self.inst = inst

        def write(self, req, timeout=None):
            req = bytes(req)
            msgid, btag = req[0], req[1]
            size = struct.unpack_from("<L", req, 4)[0]
            if msgid == 1:                       # DEV_DEP_MSG_OUT
                dev.op("bulk-out")
                dev.written(req[12:12 + size])
            else:                                # REQUEST_DEV_DEP_MSG_IN
                dev.op("bulk-in-request")
                self.inst._pending = (btag, size)
            return len(req)

    class _In:
        def __init__(self, inst):
            self.inst = inst

        def read(self, n, timeout=None):
            dev.op("bulk-in")
            btag, size = getattr(self.inst, "_pending", (1, n))
            data = dev.take(size)
            hdr = struct.pack("<BBBxLBxxx", 2, btag, (~btag) & 0xFF, len(data), 1)
            return array.array("B", hdr + data + b"\0" * ((4 - len(data) % 4) % 4))

    class _Dev:
        idVendor, idProduct = 0x1313, 0x8078

        def ctrl_transfer(self, *a, **k):
            dev.op("ctrl_transfer")
            return array.array("B", [1, 0, 0, 0, 0, 0, 0, 0])

    class FakeUsbTmcInstrument(U.Instrument):
        """open()/close() replaced (no libusb); read_raw()/write_raw() with their `if not self.connected: self.open()`
        are the library's own."""

        def __init__(self, *args, **kwargs):
            U.Instrument.__init__(self, _Dev())          # a device object is given: the library does not search the bus
            self.idVendor, self.idProduct = 0x1313, 0x8078

        def open(self):
            if self.connected:
                return
            dev.op("usb-open")
            if dev.failing("usb-open"):
                raise U.UsbtmcException("Device not found", "init")
            dev.connected(("usb", id(self)))
            self.bulk_out_ep, self.bulk_in_ep = _Out(self), _In(self)
            self.connected = True

        def close(self):
            if not self.connected:
                return
            dev.op("usb-close")
            dev.links.discard(("usb", id(self)))
            self.connected = False

        def clear(self):
            dev.op("usb-clear")
    return FakeUsbTmcInstrument


class Patched:
    """Context manager: the endpoint libraries inside qmi.core.transport* point at the fake device."""

    def __init__(self, dev: Device):
        self.dev = dev
        self.saved: list = []

    def _set(self, obj, name, val):
        self.saved.append((obj, name, getattr(obj, name)))
        setattr(obj, name, val)

    def __enter__(self):
        import qmi.core.transport as T0
        self._set(T0, "socket", make_socket_shim(self.dev))
        self._set(T0, "serial", make_serial_shim(self.dev))
        try:
            import vxi11.vxi11 as V
            self._set(V, "CoreClient", make_vxi11_coreclient(self.dev))
        except Exception:
            pass
        try:
            import qmi.core.transport_usbtmc_pyusb as P
            fake = make_usbtmc_instrument(self.dev)

            class _Ns:
                Instrument = fake

                def __getattr__(self, k):
                    from qmi.core import usbtmc as U
                    return getattr(U, k)
            self._set(P, "usbtmc", _Ns())
        except Exception:
            pass
        return self

    def __exit__(self, *a):
        for obj, name, val in reversed(self.saved):
            setattr(obj, name, val)
        return False


# ---------------------------------------------------------------------------
# histories on closed instruments
# ---------------------------------------------------------------------------

def _build_real(cls, variant_present, descriptor: str, builder: "D.Builder"):
    """Construct the driver with the real create_transport and the given descriptor for every transport parameter."""
    last = None
    for kw in builder._kwargs_candidates(cls, variant_present):
        kw = {k: (descriptor if isinstance(v, str) and v in D.DESCRIPTORS else v) for k, v in kw.items()}
        try:
            return cls(D._StubContext(), "dut", **kw)
        except Exception as e:
            last = e
    raise RuntimeError(f"{type(last).__name__}: {last}")


def closed_histories(cls, variant: str, kind: str, builder: "D.Builder", methods: list, stats) -> list:
    """Run `never opened → every RPC method` and `open → close → every RPC method` on the real transport of `kind`.
    Returns [(history, method, transport-method that touched the endpoint, detail)] for every violation."""
    from qmi.core.transport import QMI_Transport
    present = dict(D.variants_of(cls)).get(variant)
    dev = Device(D.script_for(cls))
    out = []
    with Patched(dev), D.VirtualTime(), D._Alarm(60):
        try:
            inst = _build_real(cls, present, KINDS[kind], builder)
        except Exception:
            stats(f"endpoint_{kind}_not_constructible")
            return out
        transports = [v for v in vars(inst).values() if isinstance(v, QMI_Transport)]
        if not transports:
            stats(f"endpoint_{kind}_no_transport")
            return out
        stats(f"endpoint_{kind}_instances")

        def sweep(history: str):
            for name in methods:
                args = D.generic_args(getattr(cls, name))
                if args is None:
                    continue
                n0 = len(dev.log)
                try:
                    getattr(inst, name)(*args)
                except (D.Budget, D.Watchdog):
                    raise
                except BaseException:
                    pass
                stats("endpoint_rpc_calls_on_closed_instrument")
                bad_io = dev.log[n0:]
                held = bool(dev.links) or any(t._is_open for t in transports)
                flag = bool(inst.is_open())
                if bad_io or held or flag:
                    who = bad_io[0][1] if bad_io else "?"
                    out.append((history, name, who,
                                f"endpoint operations {[o for o, _ in bad_io][:6]}, links established: {len(dev.links)}, "
                                f"transport flags {[t._is_open for t in transports]}, is_open()={flag}"))
                    return False
            return True

        try:
            if not sweep("never-opened"):
                return out
            try:
                inst.open()
            except (D.Budget, D.Watchdog):
                raise
            except BaseException:
                stats(f"endpoint_{kind}_open_failed")
            if inst.is_open():
                stats(f"endpoint_{kind}_opened")
                try:
                    inst.close()
                except (D.Budget, D.Watchdog):
                    raise
                except BaseException:
                    pass
            if inst.is_open() or dev.links or any(t._is_open for t in transports):
                stats(f"endpoint_{kind}_not_cleanly_closed(skipped)")
                return out
            sweep("open-close")
        except (D.Budget, D.Watchdog):
            stats(f"endpoint_{kind}_aborted_by_guard")
    return out


# ---------------------------------------------------------------------------
# faults during link establishment, judged at the endpoint level
# ---------------------------------------------------------------------------

ESTABLISH = {
    "tcp": [("socket()", "oserror"), ("connect", "timeout"), ("connect", "refused"), ("connect", "unreachable")],
    "udp": [("socket()", "oserror"), ("bind", "oserror")],
    "serial": [("Serial()", "oserror")],
    "vxi11": [("rpc-connect", "refused"), ("rpc-connect", "timeout"), ("create_link", "error"), ("create_link", "timeout")],
    "usbtmc": [("usb-open", "oserror")],
}


def establish_faults(cls, variant: str, kind: str, builder, stats) -> list:
    """Every endpoint operation of link establishment fails in each way (refused / unreachable / timeout with a late
    connection / no resources …) while the driver's open() runs on the real transport.  Oracle on the endpoint level:
    after the failed open() nothing the transport created is left un-closed, no link exists, is_open() is False and
    every transport flag is False; afterwards a fault-free open()/close() works and leaves nothing behind either.
    cls = None: the bare transport object (create_transport).  Returns [(op, way, transport-method, clause, detail)]."""
    from qmi.core.transport import QMI_Transport
    out = []
    for op, way in ESTABLISH[kind]:
        dev = Device(D.script_for(cls) if cls is not None else None)
        with Patched(dev), D.VirtualTime(), D._Alarm(60):
            try:
                if cls is None:
                    from qmi.core.transport import create_transport
                    inst = None
                    transports = [create_transport(KINDS[kind])]
                    do_open, do_close = transports[0].open, transports[0].close
                    is_open = lambda: False                          # noqa: E731
                else:
                    inst = _build_real(cls, dict(D.variants_of(cls)).get(variant), KINDS[kind], builder)
                    transports = [v for v in vars(inst).values() if isinstance(v, QMI_Transport)]
                    do_open, do_close, is_open = inst.open, inst.close, (lambda: bool(inst.is_open()))
            except Exception:
                stats(f"establish_{kind}_not_constructible")
                return out
            if not transports:
                return out
            dev.fail = {op: way}
            try:
                try:
                    do_open()
                    raised = None
                except (D.Budget, D.Watchdog):
                    raise
                except BaseException as e:
                    raised = e
                stats("establish_fault_runs")
                stats(f"establish_{kind}_{op}_{way}_" + ("raised" if raised is not None else "open_succeeded"))
                who = type(transports[0]).__name__ + "._open_transport"
                flags = [bool(t._is_open) for t in transports]
                clause = None
                if raised is not None:
                    if is_open() or any(flags):
                        clause = "marked open after a failed link establishment"
                    elif dev.objects or dev.links:
                        clause = "endpoint left un-closed"
                else:
                    if dev.fail and not (all(flags) and (cls is None or is_open())):
                        clause = "open() returned although the link was not established"
                if clause is None and raised is not None:
                    # the instrument must be usable again once the device is reachable
                    dev.fail = {}
                    try:
                        do_open()
                        do_close()
                        if dev.objects or dev.links:
                            clause = "endpoint left un-closed after a later successful open()/close()"
                    except (D.Budget, D.Watchdog):
                        raise
                    except BaseException as e2:
                        if cls is None:
                            clause = f"retry after the failed open() fails ({type(e2).__name__})"
                        else:
                            stats("establish_retry_failed(handshake)")
                if clause:
                    out.append((op, way, who, clause,
                                f"open() {'raised ' + type(raised).__name__ if raised is not None else 'returned'}; un-closed endpoint "
                                f"objects: {len(dev.objects)}, established links: {len(dev.links)}, transport flags {flags}, "
                                f"is_open()={is_open()}"))
            except (D.Budget, D.Watchdog):
                stats(f"establish_{kind}_aborted_by_guard")
    return out
