"""C06 — in-memory stand-ins for sockets / the asyncio loop / the socket-manager thread, and `SimCtx`, which
drives the *real* `MessageRouter` + `_SocketManager` + `_PeerTcpConnection` of `qmi.core.messaging`
single-threaded and writes down, for every operation, the op line for the Lean driver `drv_c06` and the
canonicalised observation of what the real code did (same format as `Drv/C06.lean`).

No real network, no threads: `recv` returns exactly the bytes the scenario made available (at most the
requested count), the "event loop" calls the registered reader while the socket is readable and records any
exception that leaves the callback (asyncio would pass it to the loop's exception handler).
"""
from __future__ import annotations

import collections
import copy
import logging
import pickle
import re
import traceback
import types


class Budget(BaseException):
    """a fake was called more often than any terminating run needs"""


class WouldBlock(BaseException):
    """`recv` on an empty, still-open fake socket: the real call would block for ever"""


def hx(b: bytes) -> str:
    return bytes(b).hex() if len(b) else "-"


class FakeSock:
    def __init__(self, owner, fd: int, local=("127.0.0.1", 40000), peer=("127.0.0.1", 50000)):
        self.owner = owner
        self.fd = fd
        self.local = local
        self.peer = peer
        self.inbuf = bytearray()
        self.out = bytearray()
        self.closed = False
        self.eof = False
        self.fail_send = False
        self.recv_log: list[bytes] = []
        self.req_log: list[int] = []   # the byte counts recv was asked for (parallel to recv_log)
        self.fail_sockopt = False
        self.eof_if_starved = False    # blocking phase: the peer sends nothing more and goes away
        self.split_rng = None          # PRNG used to shorten reads (blocking handshake phase)
        self.calls = 0
        self.timeout = None

    # -- socket API used by qmi.core.messaging
    def fileno(self):
        return self.fd

    def getsockname(self):
        return self.local

    def getpeername(self):
        return self.peer

    def setsockopt(self, *a):
        if self.fail_sockopt:
            self.fail_sockopt = False
            raise OSError(22, "Invalid argument")

    def setblocking(self, b):
        pass

    def settimeout(self, t):
        self.timeout = t

    def recv(self, n):
        self.calls += 1
        if self.calls > 200000:
            raise Budget("recv budget")
        if self.closed:
            raise OSError(9, "Bad file descriptor")
        if self.inbuf:
            k = min(n, len(self.inbuf))
            if self.split_rng is not None and k > 1 and self.split_rng.random() < 0.6:
                k = self.split_rng.randint(1, k)
            data = bytes(self.inbuf[:k])
            del self.inbuf[:k]
            self.recv_log.append(data)
            self.req_log.append(n)
            return data
        if self.eof or self.eof_if_starved:
            self.recv_log.append(b"")
            self.req_log.append(n)
            self.owner.events.append(("Z",))
            return b""
        raise WouldBlock()

    def sendall(self, data):
        if self.closed:
            raise OSError(9, "Bad file descriptor")
        if self.fail_send:
            raise BrokenPipeError(32, "Broken pipe")
        self.out.extend(data)
        self.owner.events.append(("S", self, bytes(data)))

    def close(self):
        self.closed = True


class FakeListenSock:
    """the TCP server socket handed to `_SocketManager.add_tcp_server` / `_TcpServer`"""

    def __init__(self, fd):
        self.fd = fd
        self.queue = collections.deque()
        self.fail_accept = False
        self.closed = False

    def fileno(self):
        return self.fd

    def setblocking(self, b):
        pass

    def getsockname(self):
        return ("0.0.0.0", 5000)

    def accept(self):
        if self.fail_accept:
            self.fail_accept = False
            raise ConnectionAbortedError(103, "Software caused connection abort")
        if not self.queue:
            raise BlockingIOError()
        s = self.queue.popleft()
        return s, s.peer

    def close(self):
        self.closed = True


def predict_err_sizes(M, rname: str, m) -> dict:
    """pickled size of the error reply `send_error_reply` makes when request `m` (as sent by the peer) cannot be
    delivered: {'ud': unknown destination, 'rf': refused by the handler}.  The text of the router's own exception
    is taken from a scratch router without handlers (no side effects)."""
    out = {}
    try:
        M.MessageRouter(rname, "wg").deliver_message(m)
        return out
    except M.QMI_MessageDeliveryException as e:
        texts = {"ud": str(e), "rf": "refused-by-handler"}
    except Exception:
        return out
    # pickle shares equal strings only when they are the same object: in the real reply the destination context is
    # the connection's peer_context_name, an object of its own (matters when the peer's name equals ours)
    peer_name = m.source_address.context_id
    if isinstance(peer_name, str):
        peer_name = (peer_name + "x")[:-1]
    for k, text in texts.items():
        reply = M.QMI_ErrorReplyMessage(source_address=m.destination_address,
                                        destination_address=M.QMI_MessageHandlerAddress(
                                            peer_name, m.source_address.object_id),
                                        request_id=m.request_id, error_msg=text)
        out[k] = len(pickle.dumps(reply))
    return out


class FakeLoop:
    def __init__(self):
        self.readers: dict = {}
        self.ready = collections.deque()
        self.stopped = False

    def add_reader(self, fd, cb, *args):
        self.readers[fd] = (cb, args)

    def remove_reader(self, fd):
        return self.readers.pop(fd, None) is not None

    def call_soon_threadsafe(self, cb, *args):
        self.ready.append((cb, args))

    def stop(self):
        self.stopped = True

    def close(self):
        pass


class FakeThread:
    """stands in for `_EventDrivenThread`: everything runs at once in the calling thread"""

    def __init__(self, loop):
        self.event_loop = loop

    def run_in_thread_arg(self, func, arg):
        func(arg)

    def run_in_thread(self, func):
        func()

    def run_in_thread_wait(self, func):
        return func()


class Intern:
    def __init__(self):
        self.tabs: dict = {}

    def get(self, tab: str, key) -> int:
        t = self.tabs.setdefault(tab, {})
        if key not in t:
            t[key] = len(t)
        return t[key]

    def name(self, s) -> str:
        if s is None:
            return "-"
        if isinstance(s, str):
            m = re.fullmatch(r"\$client_([0-9]+)", s)
            if m and str(int(m.group(1))) == m.group(1):
                return f"c{m.group(1)}"
            if s.startswith("$"):
                return f"d{self.get('dollar', s)}"
        return f"n{self.get('name', s if isinstance(s, str) else repr(s))}"


HKINDS = ("accept", "refuse", "crash", "crashOnErr", "refuseReq")


def slots_of(m) -> dict:
    out = {}
    for cls in type(m).__mro__:
        for s in getattr(cls, "__slots__", ()):
            if hasattr(m, s):
                out[s] = getattr(m, s)
    return out


def content_key(m) -> tuple:
    """everything of a message the connection layer must not touch"""
    d = slots_of(m)
    rest = tuple((k, repr(v)) for k, v in sorted(d.items())
                 if k not in ("source_address", "destination_address", "request_id"))
    return (type(m).__module__ + "." + type(m).__qualname__, rest)


def snapshot(m) -> tuple:
    d = slots_of(m)
    return (type(m).__module__ + "." + type(m).__qualname__, tuple((k, repr(v)) for k, v in sorted(d.items())))


class SimCtx:
    """one real `MessageRouter` with its `_SocketManager`, driven synchronously"""

    def __init__(self, M, name: str, maxsize: int):
        self.M = M
        self.name = name
        self.maxsize = maxsize
        self.I = Intern()
        self.events: list = []
        self.arrivals: list = []       # (step, obj, message, snapshot, behaviour)
        self.step = -1
        self.escaped: list = []        # (where, exception) that left a loop callback / a harness-made call
        self.lines: list[str] = []
        self.outs: list[str] = []
        self.loop = FakeLoop()
        self.router = M.MessageRouter(name, "wg")
        self.removed_cb: list = []
        self.router.set_peer_context_callbacks(lambda n: None, self._on_removed)
        self.sm = M._SocketManager(self.loop, self.router)
        self.router._socket_manager = self.sm
        self.router._thread = FakeThread(self.loop)
        self._real_deliver = self.router.deliver_message
        self.router.deliver_message = self._deliver          # event tap (instance attribute; the real method runs)
        self.handlers: dict = {}
        self.socks: dict = {}
        self.conns: dict = {}
        self.defined: set = set()
        self.next_fd = 100
        import qmi
        self._op("init %s %d %d" % (self.I.name(name), maxsize, self.I.get("ver", qmi.__version__)), "ok")
        # the real TCP server object on a fake listening socket
        self.lsock = FakeListenSock(99)
        self.sm.add_tcp_server(self.lsock)

    # -- plumbing -----------------------------------------------------------------------------------------
    def _op(self, line: str, out: str):
        self.lines.append(line)
        self.outs.append(out)

    def _on_removed(self, alias):
        self.events.append(("R", alias))

    def _deliver(self, message):
        mark = len(self.events)
        try:
            return self._real_deliver(message)
        except self.M.QMI_MessageDeliveryException as e:
            if len(self.events) == mark:
                self.events.append(("U", message, self._body_of_text(str(e))))
            raise

    @staticmethod
    def _body_of_text(s: str) -> str:
        if "closed while waiting for reply" in s:
            return "cw"
        if "unknown destination" in s:
            return "ud"
        if "non-local destination" in s:
            return "nl"
        if s == "refused-by-handler":
            return "rf"
        if s.startswith("Unknown message destination context"):
            return "uc"
        if re.match(r"^[A-Za-z]*(Error|Exception): ", s):
            return "sf"
        return "?"

    # -- canonical forms ----------------------------------------------------------------------------------
    def kind_of(self, m) -> str:
        M = self.M
        if isinstance(m, M.QMI_RequestMessage):
            return "q"
        if isinstance(m, M.QMI_ErrorReplyMessage):
            return "e"
        if isinstance(m, M.QMI_ReplyMessage):
            return "p"
        return "o"

    def body_of(self, m) -> str:
        if isinstance(m, self.M.QMI_ErrorReplyMessage):
            b = self._body_of_text(m.error_msg)
            if b == "cw":
                mm = re.fullmatch(r"Connection to (.*) closed while waiting for reply", m.error_msg)
                who = mm.group(1) if mm else "?"
                return "cw" + ("-" if who == "None" else self.I.name(who))
            if b != "?":
                return b
        return "t%d" % self.I.get("tag", content_key(m))

    def msg(self, m) -> str:
        k = self.kind_of(m)
        rid = self.I.get("rid", m.request_id) if k != "o" else 0
        return "%s,%d,%s,%d,%s,%d,%s" % (
            k, rid, self.I.name(m.source_address.context_id), self.I.get("obj", m.source_address.object_id),
            self.I.name(m.destination_address.context_id), self.I.get("obj", m.destination_address.object_id),
            self.body_of(m))

    def why_of(self, exc, tb=None) -> str:
        t, s = type(exc).__name__, str(exc)
        if t == "QMI_RuntimeException":
            for key, w in (("Protocol violation", "marker"), ("too big", "oversize"),
                           ("Expecting handshake", "nohs"),
                           ("server handshake from connecting client", "hsdir-server"),
                           ("client handshake while connecting as client", "hsdir-client"),
                           ("Unexpected handshake", "hs2"), ("closed by peer before handshake", "eof"),
                           ("Invalid context name", "hsname"),
                           ("Got handshake from context", "wrongname")):
                if key in s:
                    return w
        if t == "QMI_MessageDeliveryException":
            if "Unexpected destination context" in s:
                return "baddst"
            if "Unexpected source context" in s:
                return "badsrc"
        if t == "QMI_UsageException" and "Duplicate connection" in s:
            return "duplicate"
        if t == "QMI_UsageException" and "Invalid peer context name" in s:
            return "invalidname"
        if t == "ValueError" and s == "Expected QMI_Message":
            return "notmsg"
        if t == "AssertionError":
            return "peernone"
        tb = tb if tb is not None else exc.__traceback__
        fr = traceback.extract_tb(tb)
        if fr and fr[-1].name == "_process_message" and fr[-1].line and "pickle.loads" in fr[-1].line:
            return "undecodable"
        # exceptions raised inside pickle's own python-level helpers (find_class, __setstate__, ...)
        for f in fr:
            if f.name == "_process_message" and f.line and "pickle.loads" in f.line:
                return "undecodable"
        return "exc:" + t

    def canon(self, evs, mode: str) -> str:
        out = []
        for e in evs:
            if e[0] == "D":
                out.append("D:%s:%s" % (self.msg(e[1]), e[2]))
            elif e[0] == "U":
                b = e[2]
                out.append("U:%s:%s" % (self.msg(e[1]), b))
            elif e[0] == "S":
                out.append(self._canon_sent(e[2], mode))
            elif e[0] == "X":
                out.append("X:" + e[1])
            elif e[0] == "Z":
                if mode == "recv":
                    out.append("Z")
            elif e[0] == "R":
                out.append("R:" + self.I.name(e[1]))
            elif e[0] == "V":
                out.append("V")
            elif e[0] == "!":
                out.append("!")
        return " ".join(out) if out else "-"

    def _canon_sent(self, data: bytes, mode: str) -> str:
        if mode == "send":
            # the message itself is shown as bytes; an error reply the socket manager sends in place of an
            # unsendable reply is shown decoded
            try:
                if len(data) >= 9 and data[0] == 0x50 and int.from_bytes(data[1:9], "little") == len(data) - 9:
                    m = pickle.loads(data[9:])
                    if isinstance(m, self.M.QMI_ErrorReplyMessage) and self._body_of_text(m.error_msg) == "sf":
                        return "E:" + self.msg(m)
            except Exception:
                pass
            return "S:" + hx(data)
        try:
            if len(data) >= 9 and data[0] == 0x50 and int.from_bytes(data[1:9], "little") == len(data) - 9:
                m = pickle.loads(data[9:])
                if isinstance(m, self.M.QMI_InitialHandshakeMessage):
                    ok = (m.source_address == (self.name, "$router") and m.destination_address == ("", "")
                          and isinstance(m.is_server_handshake, bool))
                    return "H:%d" % int(m.is_server_handshake) if ok else "H:garbled"
                if isinstance(m, self.M.QMI_ErrorReplyMessage):
                    return "E:" + self.msg(m)
        except Exception:
            pass
        return "S:" + hx(data)

    def state(self, cid) -> str:
        conn, sock = self.conns.get(cid), self.socks.get(cid)
        if conn is None:
            return "noconn"
        closed = sock.closed
        pend = ",".join("%d/%d/%s/%d" % (self.I.get("rid", rid), self.I.get("obj", src.object_id),
                                         self.I.name(dst.context_id), self.I.get("obj", dst.object_id))
                        for rid, (src, dst) in conn._pending_requests.items()) or "-"
        known = self.sm._peer_context_map.get(conn.peer_context_alias) is conn
        ver = "-" if conn.peer_context_version is None else str(self.I.get("ver", conn.peer_context_version))
        return "closed=%d buf=%d alias=%s peer=%s ver=%s pend=%s known=%d" % (
            int(closed), 0 if closed else len(conn._recv_buf), self.I.name(conn.peer_context_alias),
            self.I.name(conn.peer_context_name), ver, pend, int(known))

    # -- decode table -------------------------------------------------------------------------------------
    def classify(self, payload: bytes):
        """('undec',) | ('notmsg',) | ('hs', name, version, server) | ('msg', message)  — by pickle itself"""
        try:
            m = pickle.loads(payload)
        except Exception:
            return ("undec",)
        M = self.M
        if not isinstance(m, M.QMI_Message):
            return ("notmsg",)
        if isinstance(m, M.QMI_InitialHandshakeMessage):
            return ("hs", m.source_address.context_id, m.version, bool(m.is_server_handshake))
        return ("msg", m)

    def define(self, payload: bytes):
        payload = bytes(payload)
        if payload in self.defined:
            return
        self.defined.add(payload)
        c = self.classify(payload)
        if c[0] == "undec":
            return
        if c[0] == "notmsg":
            self._op("def %s notmsg" % hx(payload), "ok")
        elif c[0] == "hs":
            self._op("def %s hs %s %d %d" % (hx(payload), self.I.name(c[1]), self.I.get("ver", c[2]), int(c[3])), "ok")
        else:
            m = c[1]
            k = self.kind_of(m)
            self._op("def %s msg %s %d %s %d %s %d %d" % (
                hx(payload), k, self.I.get("rid", m.request_id) if k != "o" else 0,
                self.I.name(m.source_address.context_id), self.I.get("obj", m.source_address.object_id),
                self.I.name(m.destination_address.context_id), self.I.get("obj", m.destination_address.object_id),
                self.I.get("tag", content_key(m))), "ok")
            if k == "q" and m.destination_address.context_id == self.name:
                for b, n in predict_err_sizes(self.M, self.name, m).items():
                    self._op("esz %s %s %d" % (hx(payload), b, n), "ok")

    # -- operations ---------------------------------------------------------------------------------------
    def hadd(self, obj: str, hkind: str):
        M = self.M
        ctx = self

        class Rec(M.QMI_MessageHandler):
            def handle_message(self, message):
                k = ctx.kind_of(message)
                beh = {"accept": "a", "refuse": "r", "crash": "c",
                       "crashOnErr": "c" if k == "e" else "a",
                       "refuseReq": "r" if k == "q" else "a"}[hkind]
                ctx.events.append(("D", message, beh))
                ctx.arrivals.append((ctx.step, self.address.object_id, message, snapshot(message), beh))
                if beh == "r":
                    raise M.QMI_MessageDeliveryException("refused-by-handler")
                if beh == "c":
                    raise RuntimeError("handler crashed")

        h = Rec(M.QMI_MessageHandlerAddress(self.name, obj))
        self.router.register_message_handler(h)
        self.handlers[obj] = h
        self._op("hadd %d %s" % (self.I.get("obj", obj), hkind), "ok")

    def hdel(self, obj: str):
        self.router.unregister_message_handler(self.handlers.pop(obj))
        self._op("hdel %d" % self.I.get("obj", obj), "ok")

    def _spy(self):
        """record the `_PeerTcpConnection` objects the real code creates (subclass, no behaviour change)"""
        M = self.M
        made = []
        orig = M._PeerTcpConnection

        class Spy(orig):
            def __init__(s, *a, **k):
                super().__init__(*a, **k)
                made.append(s)
        Spy.__name__ = orig.__name__
        Spy.__qualname__ = orig.__qualname__
        M._PeerTcpConnection = Spy
        return made, orig

    def new_sock(self) -> FakeSock:
        self.next_fd += 1
        return FakeSock(self, self.next_fd)

    def _call(self, where: str, fn):
        """run something the event loop would run; an exception that comes out has escaped to the loop"""
        try:
            fn()
        except Exception as e:
            self.events.append(("!", e))
            self.escaped.append((where, e))

    def peers_line(self):
        ids = {id(c): k for k, c in self.conns.items()}
        cur = " ".join("%s=%d" % (self.I.name(a), ids.get(id(c), -1)) for a, c in self.sm._peer_context_map.items())
        self._op("peers", cur or "-")

    def accept(self, cid, send_ok=True, accept_fails=False, nodelay_fails=False):
        """a client connects: the event loop calls the real `_TcpServer._handle_read` of the listening socket"""
        sock = self.new_sock()
        sock.fail_send = not send_ok
        sock.fail_sockopt = nodelay_fails
        self.lsock.fail_accept = accept_fails
        if not accept_fails:
            self.lsock.queue.append(sock)
            self.socks[cid] = sock
        made, orig = self._spy()
        mark = len(self.events)
        try:
            cb, args = self.loop.readers[self.lsock.fd]
            self._call("tcp_server_reader", lambda: cb(*args))
        finally:
            self.M._PeerTcpConnection = orig
        sock.fail_send = False
        if accept_fails:
            # accept() raised: logged; nothing is created, registered or counted
            self.peers_line()
            return None
        if made:
            self.conns[cid] = made[0]
        self._op("accept %d %d" % (cid, int(send_ok)),
                 "%s | %s" % (self.canon(self.events[mark:], "hs"), self.state(cid)))
        return sock

    def connect(self, cid, peer_name: str, preload: bytes, eof: bool, rng):
        """the real `MessageRouter.connect_to_peer`; `socket.create_connection` returns a preloaded fake"""
        M = self.M
        sock = self.new_sock()
        sock.inbuf.extend(preload)
        sock.eof = eof
        sock.eof_if_starved = True
        sock.split_rng = rng
        self.socks[cid] = sock
        made, orig = self._spy()
        real_socket = M.socket
        shim = types.SimpleNamespace(create_connection=lambda addr, timeout=None: sock,
                                     IPPROTO_TCP=real_socket.IPPROTO_TCP, TCP_NODELAY=real_socket.TCP_NODELAY,
                                     socket=real_socket.socket, timeout=real_socket.timeout)
        M.socket = shim
        mark = len(self.events)
        res = "ok"
        exc = None
        try:
            self.router.connect_to_peer(peer_name, "127.0.0.1:5000")
        except WouldBlock:
            res = "exc:needmore"
            exc = WouldBlock()
        except Exception as e:   # noqa
            res = "exc:" + self.why_of(e)
            exc = e
        finally:
            M.socket = real_socket
            M._PeerTcpConnection = orig
        sock.split_rng = None
        sock.eof_if_starved = False
        if made:
            self.conns[cid] = made[0]
        chunks = " ".join("%d:%s" % (n, hx(c)) for n, c in zip(sock.req_log, sock.recv_log))
        sock.recv_log.clear()
        sock.req_log.clear()
        self._op(("connect %d %s %s" % (cid, self.I.name(peer_name), chunks)).rstrip(),
                 "%s | %s | %s | reqs=ok" % (self.canon(self.events[mark:], "hs"), res, self.state(cid)))
        return sock, exc

    def pump(self, cid):
        """the event loop: call the reader of connection `cid` while its socket is readable"""
        sock = self.socks[cid]
        n = 0
        limit = len(sock.inbuf) + 8      # every call of a sane reader takes at least one byte or closes
        while sock.fd in self.loop.readers and not sock.closed and (sock.inbuf or sock.eof):
            n += 1
            if n > limit:
                raise Budget("reader never drains the socket")
            mark = len(self.events)
            nrecv = len(sock.recv_log)
            cb, args = self.loop.readers[sock.fd]
            self._call("reader", lambda: cb(*args))
            new = sock.recv_log[nrecv:]
            evs = self.canon(self.events[mark:], "recv")
            st = self.state(cid)
            if len(new) == 1:
                self._op("recv %d %s" % (cid, hx(new[0])), "%s | %s" % (evs, st))
            else:
                self._op("recv %d %s" % (cid, hx(b"".join(new))), "recv-calls=%d %s | %s" % (len(new), evs, st))
                if not new:
                    break
        sock.recv_log.clear()
        sock.req_log.clear()

    def send(self, cid_alias: str, message, payload_expected: bytes, send_ok=True, sock=None):
        if sock is not None:
            sock.fail_send = not send_ok
        mark = len(self.events)
        before = snapshot(message)
        self._call("send_message", lambda: self.sm.send_message(message))
        if sock is not None:
            sock.fail_send = False
        k = self.kind_of(message)
        line = "send %s %d %d %s %d %d %s %d" % (
            k, self.I.get("rid", message.request_id) if k != "o" else 0,
            self.I.get("obj", message.source_address.object_id),
            self.I.name(message.destination_address.context_id),
            self.I.get("obj", message.destination_address.object_id),
            self.I.get("tag", content_key(message)), hx(payload_expected), int(send_ok))
        self._op(line, self.canon(self.events[mark:], "send"))
        return before == snapshot(message)

    def close_all(self):
        """router / context stop: the event loop runs `_SocketManager.close_all`"""
        mark = len(self.events)
        self._call("close_all", lambda: self.sm.close_all())
        self._op("closeall", self.canon(self.events[mark:], "recv"))
        for cid in sorted(self.conns):
            self._op("state %d" % cid, self.state(cid))

    def disconnect(self, alias: str):
        mark = len(self.events)
        res = None
        try:
            self.sm.disconnect_from_peer(alias)
        except self.M.QMI_UnknownNameException:
            res = "exc:QMI_UnknownNameException"
        except Exception as e:
            self.events.append(("!", e))
            self.escaped.append(("disconnect_from_peer", e))
        self._op("disc %s" % self.I.name(alias), res or self.canon(self.events[mark:], "recv"))


class LogTap(logging.Handler):
    """records the exception `_handle_read` caught (logged with exc_info) as an ('X', why) event"""

    def __init__(self):
        super().__init__(level=logging.DEBUG)
        self.ctx = None

    def emit(self, record):
        ctx = self.ctx
        if ctx is None:
            return
        if record.exc_info and record.funcName == "_handle_read" and record.levelno == logging.INFO:
            # (`_PeerTcpConnection._handle_read` logs at INFO; `_TcpServer._handle_read` logs its errors at ERROR)
            exc = record.exc_info[1]
            ctx.events.append(("X", ctx.why_of(exc, record.exc_info[2])))
        elif record.funcName == "connect_to_peer" and record.levelno == logging.WARNING:
            ctx.events.append(("V",))


def mkframe(payload: bytes, length=None) -> bytes:
    """the wire format as the protocol defines it (harness-side reference, independent of the code under test)"""
    n = len(payload) if length is None else length
    return b"P" + n.to_bytes(8, "little") + payload
