"""Convenience layer over detsched + simnet: run one scenario with real QMI contexts under full schedule control.

    from harness.simworld import run_scenario, Outcome
    out = run_scenario(seed, body)            # body(world) runs as managed thread "main"
    out.value / out.deadlock / out.budget / out.error / out.sched (events, choices, steps) / out.net (loop_exceptions)

`world.context(name, server=True)` creates+starts a QMI_Context (stopped automatically, best effort, at the end);
`world.connect(cli, srv)`; `world.spawn(fn, name)` starts a managed caller thread; `world.sched.log(...)` appends to the
linearised event log.  Everything random derives from `seed`.
"""
from __future__ import annotations

import logging
import random
from dataclasses import dataclass, field
from typing import Any, Callable, Optional

from harness import detsched as D, simnet as S


@dataclass
class Outcome:
    value: Any = None
    deadlock: Optional[str] = None
    budget: bool = False
    error: Optional[BaseException] = None       # exception that escaped body()
    sched: Optional[D.Sched] = None
    net: Optional[S.Net] = None
    thread_errors: list = field(default_factory=list)


class World:
    def __init__(self, sched: D.Sched, net: S.Net, rng: random.Random):
        self.sched, self.net, self.rng = sched, net, rng
        self.contexts: list = []

    def context(self, name: str, server: bool = False, start: bool = True, config=None):
        from qmi.core.context import QMI_Context
        from qmi.core.config_defs import CfgQmi, CfgContext
        if config is None and server:
            config = CfgQmi(contexts={name: CfgContext(tcp_server_port=0)})
        ctx = QMI_Context(name, config) if config is not None else QMI_Context(name)
        if start:
            ctx.start()
        self.contexts.append(ctx)
        return ctx

    def connect(self, cli, srv, peer_name: Optional[str] = None) -> None:
        cli.connect_to_peer(peer_name or srv.name, "localhost:%d" % srv.get_tcp_server_port())

    def spawn(self, fn: Callable[[], Any], name: str = "caller") -> D.ManagedThread:
        return self.sched.spawn(fn, name)

    def stop_all(self) -> None:
        for ctx in reversed(self.contexts):
            try:
                if getattr(ctx, "_active", False):
                    ctx.stop()
            except D.SchedAbort:
                raise
            except BaseException:
                pass


def run_scenario(seed, body: Callable[[World], Any], policy: str = "weighted", max_steps: int = 100000,
                 split_prob: float = 0.7, eager_timeouts: float = 0.0, change_points=None, trace_funcs=(),
                 extra_modules=(), quiet: bool = True, cleanup: bool = True, pct_depth: int = 2,
                 pct_horizon: int = 400) -> Outcome:
    rng = random.Random(f"world:{seed}")
    codes = {getattr(f, "__code__", f) for f in trace_funcs}
    sched = D.Sched(seed, policy=policy, max_steps=max_steps, eager_timeouts=eager_timeouts,
                    change_points=change_points, trace_codes=codes, pct_depth=pct_depth, pct_horizon=pct_horizon)
    out = Outcome(sched=sched)
    prev_disable = logging.root.manager.disable
    if quiet:
        logging.disable(logging.CRITICAL)
    try:
        with D.patched(extra_modules=extra_modules), S.patched(random.Random(f"net:{seed}"), split_prob) as net:
            out.net = net
            world = World(sched, net, rng)

            def main():
                try:
                    return body(world)
                finally:
                    if cleanup and not sched.aborting:
                        world.stop_all()
            try:
                out.value = sched.run(main)
            except D.Deadlock as e:
                out.deadlock = str(e)
            except D.StepBudget:
                out.budget = True
            except D.SchedAbort:
                out.deadlock = sched.deadlock or "aborted"
            except BaseException as e:  # noqa
                out.error = e
            if out.deadlock is None and sched.deadlock is not None:
                out.deadlock = sched.deadlock        # detected in another thread while main was about to finish
            if sched.budget_exceeded:
                out.budget = True
            out.thread_errors = list(sched.errors)
    finally:
        logging.disable(prev_disable)
    return out
