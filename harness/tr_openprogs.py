"""C19 translator: AST of `open`/`close` of every transport-based driver class  →  abstract programs
(`lean/QmiModel/Gen/OpenProgs.lean`) and their per-class obligations (`Gen/OpenProgsObligations.lean`).

Conservative by construction:
  * a statement is `pure` only if it is on the short whitelist below (logging, `time.sleep`, assignments of
    call-free expressions, `pass`); every other simple statement is a potentially-raising step (`io`);
  * a compound statement (if/for/while/with) without any state-changing operation inside collapses to one `io`
    (or `pure`); with one inside it is only understood when it is `if self.<transport> is [not] None` (resolved per
    constructor variant) or a `try … except …` with a single handler;
  * a call of a helper method that (transitively) opens/closes something is inlined when its body is itself
    translatable, unrolled by concrete evaluation when it is a retry loop around the link opening, and refused otherwise;
  * source it does not understand raises `Untranslatable` for that class — it never guesses.

The Python mirror of the Lean semantics (`exec_prog`) is only used to *predict* which theorem to state for a
class (`ok_X` or the negation witness with the computed plan); Lean's kernel checks whichever is stated.
"""
from __future__ import annotations

import ast
import inspect
import sys
from dataclasses import dataclass, field
from typing import Any, Optional

from harness import c19_dyn as D

KINDS = ["timeout", "instr", "os", "value", "other", "invalidOp"]


class Untranslatable(Exception):
    pass


# ---------------------------------------------------------------------------
# IR
# ---------------------------------------------------------------------------

@dataclass
class Atom:
    id: int
    kind: str                 # pure io checkClosed checkOpen tOpen tClose superOpen superClose
    t: Optional[int] = None
    src: str = ""
    owner: str = ""
    lineno: int = 0

    def lean(self) -> str:
        a = f".{self.kind}" if self.t is None else f"(.{self.kind} {self.t})"
        return f".atom {self.id} {a}"


@dataclass
class Try:
    id: int
    body: list
    catches: list             # kinds
    handler: list
    exit: tuple               # ('reraise',) | ('raiseK', kind) | ('swallow',)

    def lean(self) -> str:
        ex = {"reraise": ".reraise", "swallow": ".swallow"}.get(self.exit[0]) or f"(.raiseK .{self.exit[1]})"
        return (f".try_ {lean_list(self.body)} [{', '.join('.' + k for k in self.catches)}] "
                f"{lean_list(self.handler)} {ex}")


def lean_list(stmts: list) -> str:
    return "[" + ", ".join(s.lean() for s in stmts) + "]"


@dataclass
class Program:
    name: str                  # Lean-safe name, e.g. Bristol_871A__scpi
    cls: Any
    variant: str
    links: list                # transport attrs, index = link number
    open: list
    close: list
    maps: dict                 # 'open' / 'close' -> [FuncMap]
    open_owner: str = ""

    def atoms(self, which: str) -> dict:
        out = {}

        def walk(lst):
            for s in lst:
                if isinstance(s, Atom):
                    out[s.id] = s
                else:
                    walk(s.body)
                    walk(s.handler)
        walk(getattr(self, which))
        return out


def lean_name(cls_name: str, variant: str) -> str:
    v = "".join(c if c.isalnum() else "_" for c in variant)
    return cls_name + ("__" + v if v else "")


# ---------------------------------------------------------------------------
# classification helpers
# ---------------------------------------------------------------------------

PURE_CALL_RECEIVERS = {"_logger", "logger", "logging", "warnings"}


def _is_self_attr(e, attr: Optional[str] = None) -> bool:
    return (isinstance(e, ast.Attribute) and isinstance(e.value, ast.Name) and e.value.id == "self"
            and (attr is None or e.attr == attr))


def _is_super_call(e, name: str) -> bool:
    return (isinstance(e, ast.Call) and isinstance(e.func, ast.Attribute) and e.func.attr == name
            and isinstance(e.func.value, ast.Call) and isinstance(e.func.value.func, ast.Name)
            and e.func.value.func.id == "super" and not e.func.value.args)


def pure_call(c: ast.Call) -> bool:
    f = c.func
    if isinstance(f, ast.Attribute):
        # _logger.info(...), logging.getLogger(...), warnings.warn(...)
        if isinstance(f.value, ast.Name) and f.value.id in PURE_CALL_RECEIVERS:
            return all(pure_expr(a) for a in c.args) and all(pure_expr(k.value) for k in c.keywords)
        # time.sleep(<pure>)
        if isinstance(f.value, ast.Name) and f.value.id == "time" and f.attr == "sleep":
            return all(pure_expr(a) for a in c.args)
        # "…{}…".format(<pure>)
        if isinstance(f.value, ast.Constant) and isinstance(f.value.value, str) and f.attr == "format":
            return all(pure_expr(a) for a in c.args) and all(pure_expr(k.value) for k in c.keywords)
    if isinstance(f, ast.Name) and f.id == "sleep":
        return all(pure_expr(a) for a in c.args)
    return False


def pure_expr(e) -> bool:
    """Expression that cannot raise (modulo attribute access on `self`, which we take as a plain field read)."""
    if e is None or isinstance(e, (ast.Constant, ast.Name, ast.Lambda)):
        return True
    if isinstance(e, ast.Attribute):
        return pure_expr(e.value)
    if isinstance(e, ast.Call):
        return pure_call(e)
    if isinstance(e, ast.UnaryOp):
        return pure_expr(e.operand)
    if isinstance(e, ast.BoolOp):
        return all(pure_expr(v) for v in e.values)
    if isinstance(e, ast.Compare):
        return pure_expr(e.left) and all(pure_expr(c) for c in e.comparators) and \
            all(isinstance(o, (ast.Is, ast.IsNot, ast.Eq, ast.NotEq)) for o in e.ops)
    if isinstance(e, ast.BinOp):
        return False          # arithmetic / formatting on operands of unknown type may raise: keep conservative
    if isinstance(e, (ast.Tuple, ast.List, ast.Set)):
        return all(pure_expr(x) for x in e.elts)
    if isinstance(e, ast.Dict):
        return all(pure_expr(x) for x in e.keys if x is not None) and all(pure_expr(x) for x in e.values)
    if isinstance(e, ast.JoinedStr):
        return all(pure_expr(v) for v in e.values)
    if isinstance(e, ast.FormattedValue):
        return pure_expr(e.value)
    if isinstance(e, ast.IfExp):
        return pure_expr(e.test) and pure_expr(e.body) and pure_expr(e.orelse)
    return False


# ---------------------------------------------------------------------------
# the translator proper
# ---------------------------------------------------------------------------

class ClassTranslator:
    def __init__(self, cls, variant: str, present: frozenset):
        from qmi.core.instrument import QMI_Instrument
        self.QMI_Instrument = QMI_Instrument
        self.cls = cls
        self.variant = variant
        self.all_tattrs = [a for a, _, _ in D.transport_params(cls)]
        self.links = [a for a in self.all_tattrs if a in present]
        self.present = present
        self.maps: list = []
        self._stateop_cache: dict = {}

    # -- resolution ---------------------------------------------------------
    def _resolve(self, name: str):
        """(function, defining class) of self.<name> by the MRO, or (None, None)."""
        for k in self.cls.__mro__:
            if name in k.__dict__:
                v = k.__dict__[name]
                if isinstance(v, (staticmethod, classmethod)):
                    v = v.__func__
                if inspect.isfunction(v):
                    return v, k
                return None, k
        return None, None

    def _fdef_of(self, fn):
        import textwrap
        lines, first = inspect.getsourcelines(fn)
        tree = ast.parse(textwrap.dedent("".join(lines)))
        return tree.body[0]

    # -- state-changing operations -----------------------------------------
    def has_state_ops(self, node, depth: int = 0, stack: tuple = ()) -> bool:
        nodes = node if isinstance(node, list) else [node]
        for root in nodes:
            for n in ast.walk(root):
                if isinstance(n, ast.Call):
                    f = n.func
                    if isinstance(f, ast.Attribute) and f.attr in ("open", "close", "__enter__", "__exit__"):
                        # anything.open()/close(): a link, the instrument itself or something we do not know
                        return True
                    if isinstance(f, ast.Name) and f.id in ("create_transport", "setattr"):
                        return True
                    if _is_self_attr(f):
                        key = f.attr
                        if key in stack:
                            continue
                        if key not in self._stateop_cache:
                            fn, _ = self._resolve(key)
                            if fn is None or depth > 8:
                                self._stateop_cache[key] = False
                            else:
                                try:
                                    fd = self._fdef_of(fn)
                                    self._stateop_cache[key] = self.has_state_ops(fd.body, depth + 1, stack + (key,))
                                except (OSError, TypeError, SyntaxError):
                                    self._stateop_cache[key] = False
                        if self._stateop_cache[key]:
                            return True
                if isinstance(n, ast.Attribute) and n.attr == "_is_open" and isinstance(n.ctx, (ast.Store, ast.Del)):
                    return True
                if isinstance(n, ast.With):
                    for it in n.items:
                        ce = it.context_expr
                        if _is_self_attr(ce) and ce.attr in self.all_tattrs or (isinstance(ce, ast.Name) and ce.id == "self"):
                            return True
        return False

    @staticmethod
    def has_escape(node) -> bool:
        """`return` (or a loop escape that leaves the statement) inside a statement we want to collapse."""
        nodes = node if isinstance(node, list) else [node]

        def walk(n, in_loop):
            if isinstance(n, (ast.FunctionDef, ast.AsyncFunctionDef, ast.Lambda, ast.ClassDef)):
                return False
            if isinstance(n, ast.Return):
                return True
            if isinstance(n, (ast.Break, ast.Continue)) and not in_loop:
                return True
            il = in_loop or isinstance(n, (ast.For, ast.While))
            return any(walk(c, il) for c in ast.iter_child_nodes(n))
        return any(walk(n, False) for n in nodes)

    # -- exception classes ---------------------------------------------------
    def _eval_in_module(self, owner, expr):
        mod = sys.modules[owner.__module__]
        return eval(compile(ast.Expression(expr), "<c19>", "eval"), dict(mod.__dict__))

    def _reps(self) -> dict:
        from qmi.core.exceptions import QMI_TimeoutException, QMI_InstrumentException, QMI_InvalidOperationException

        class _C19OtherException(Exception):
            pass
        return {"timeout": QMI_TimeoutException, "instr": QMI_InstrumentException, "os": OSError,
                "value": ValueError, "other": _C19OtherException, "invalidOp": QMI_InvalidOperationException}

    def _kind_of_class(self, c) -> str:
        from qmi.core.exceptions import QMI_TimeoutException, QMI_InstrumentException, QMI_InvalidOperationException
        for k, base in (("timeout", QMI_TimeoutException), ("instr", QMI_InstrumentException),
                        ("invalidOp", QMI_InvalidOperationException), ("os", OSError), ("value", ValueError)):
            if isinstance(c, type) and issubclass(c, base):
                return k
        return "other"

    # -- presence tests ------------------------------------------------------
    def _presence(self, test) -> Optional[bool]:
        """Value of `self.<transport> is [not] None` / `self.<transport>` / `not self.<transport>` in this variant."""
        if isinstance(test, ast.Compare) and len(test.ops) == 1 and _is_self_attr(test.left) \
                and test.left.attr in self.all_tattrs \
                and isinstance(test.comparators[0], ast.Constant) and test.comparators[0].value is None:
            pres = test.left.attr in self.present
            if isinstance(test.ops[0], ast.IsNot):
                return pres
            if isinstance(test.ops[0], ast.Is):
                return not pres
        if _is_self_attr(test) and test.attr in self.all_tattrs:
            return test.attr in self.present
        if isinstance(test, ast.UnaryOp) and isinstance(test.op, ast.Not):
            v = self._presence(test.operand)
            return None if v is None else not v
        return None

    # -- functions -----------------------------------------------------------
    def translate_function(self, owner, name: str, fn=None) -> list:
        base = 1000 * len(self.maps)
        if fn is None:
            fm = D.build_func_map(owner, name, base)
        else:
            fm = _func_map_of(fn, owner, name, base)
        self.maps.append(fm)
        ids = {id(n): i for i, n, _ in fm.stmts}
        top = [n for i, n, p in fm.stmts if p == 0]
        return self._stmts(top, owner, name, ids, fm)

    def _where(self, owner, s) -> str:
        return f"{owner.__name__} line {getattr(s, 'lineno', '?')}: `{ast.unparse(s).splitlines()[0][:90]}`"

    def _stmts(self, stmts: list, owner, fname: str, ids: dict, fm, in_handler: bool = False) -> list:
        out = []
        n = len(stmts)
        for idx, s in enumerate(stmts):
            sid = ids[id(s)]
            src = ast.unparse(s).splitlines()[0][:100]
            mk = lambda kind, t=None: Atom(sid, kind, t, src, owner.__name__, s.lineno)  # noqa: E731

            if isinstance(s, ast.Pass):
                out.append(mk("pure"))
            elif isinstance(s, ast.Return):
                if s.value is not None and not pure_expr(s.value):
                    raise Untranslatable(f"return with a computed value: {self._where(owner, s)}")
                if idx != n - 1 or in_handler or ids_parent(fm, sid) != 0:
                    raise Untranslatable(f"return that is not the last statement of the function: {self._where(owner, s)}")
            elif isinstance(s, ast.Expr) and isinstance(s.value, ast.Constant):
                out.append(mk("pure"))
            elif isinstance(s, ast.Expr) and isinstance(s.value, ast.Call):
                out += self._call_stmt(s, s.value, owner, fname, mk)
            elif isinstance(s, (ast.Assign, ast.AnnAssign, ast.AugAssign)):
                targets = s.targets if isinstance(s, ast.Assign) else [s.target]
                for tg in targets:
                    for sub in ast.walk(tg):
                        if isinstance(sub, ast.Attribute) and sub.attr == "_is_open":
                            raise Untranslatable(f"direct write to _is_open: {self._where(owner, s)}")
                        if _is_self_attr(sub) and sub.attr in self.all_tattrs:
                            raise Untranslatable(f"transport attribute re-bound: {self._where(owner, s)}")
                if self.has_state_ops(s):
                    raise Untranslatable(f"assignment whose value opens/closes something: {self._where(owner, s)}")
                val = s.value
                simple_targets = all(isinstance(tg, (ast.Name, ast.Attribute)) and
                                     (isinstance(tg, ast.Name) or pure_expr(tg.value)) for tg in targets)
                if isinstance(s, ast.AugAssign):
                    out.append(mk("io"))
                else:
                    out.append(mk("pure" if (simple_targets and pure_expr(val)) else "io"))
            elif isinstance(s, ast.Try) and s.finalbody and not s.handlers and not s.orelse:
                # try: A finally: B   ≡   try: A except <everything>: B; raise   followed by B on the normal path
                # (the statements of B appear twice in the program, with the same ids)
                if any(isinstance(x, (ast.Return, ast.Break, ast.Continue)) for n in s.body + s.finalbody for x in ast.walk(n)):
                    raise Untranslatable(f"return/break inside try/finally: {self._where(owner, s)}")
                body = self._stmts(s.body, owner, fname, ids, fm)
                fin = self._stmts(s.finalbody, owner, fname, ids, fm, in_handler=True)
                out.append(Try(sid, body, list(KINDS), fin, ("reraise",)))
                out += self._stmts(s.finalbody, owner, fname, ids, fm)
            elif isinstance(s, ast.Try):
                out.append(self._try(s, owner, fname, ids, fm, sid))
            elif isinstance(s, ast.If):
                pres = self._presence(s.test)
                if not self.has_state_ops(s):
                    if self.has_escape(s):
                        raise Untranslatable(f"conditional return/break: {self._where(owner, s)}")
                    allpure = pure_expr(s.test) and self._all_pure(s.body + s.orelse, owner, fname, ids, fm)
                    out.append(mk("pure" if allpure else "io"))
                elif pres is not None:
                    branch = s.body if pres else s.orelse
                    out += self._stmts(branch, owner, fname, ids, fm, in_handler)
                else:
                    raise Untranslatable(f"`if` on a condition the translator cannot resolve around a state change: "
                                         f"{self._where(owner, s)}")
            elif isinstance(s, (ast.For, ast.While, ast.With)):
                if self.has_state_ops(s) or self.has_escape(s):
                    raise Untranslatable(f"loop/with around a state change or return: {self._where(owner, s)}")
                out.append(mk("io"))
            elif isinstance(s, ast.Assert):
                out.append(mk("pure" if isinstance(s.test, ast.Constant) and s.test.value else "io"))
            elif isinstance(s, ast.Raise):
                raise Untranslatable(f"unconditional raise outside an except block: {self._where(owner, s)}")
            elif isinstance(s, (ast.Import, ast.ImportFrom, ast.Global, ast.Nonlocal)):
                out.append(mk("io" if isinstance(s, (ast.Import, ast.ImportFrom)) else "pure"))
            elif isinstance(s, ast.Expr):
                if self.has_state_ops(s):
                    raise Untranslatable(f"expression statement with a state change: {self._where(owner, s)}")
                out.append(mk("pure" if pure_expr(s.value) else "io"))
            else:
                raise Untranslatable(f"statement kind {type(s).__name__}: {self._where(owner, s)}")
        return out

    def _all_pure(self, stmts, owner, fname, ids, fm) -> bool:
        try:
            tr = self._stmts(stmts, owner, fname, ids, fm)
        except Untranslatable:
            return False
        return all(isinstance(a, Atom) and a.kind == "pure" for a in tr)

    def _call_stmt(self, s, call: ast.Call, owner, fname: str, mk) -> list:
        f = call.func
        # super().open() / super().close()
        for nm, atom in (("open", "superOpen"), ("close", "superClose")):
            if _is_super_call(call, nm):
                if nm != fname:
                    raise Untranslatable(f"super().{nm}() inside {fname}(): {self._where(owner, s)}")
                mro = list(self.cls.__mro__)
                nxt = next((k for k in mro[mro.index(owner) + 1:] if nm in k.__dict__), None)
                if nxt is self.QMI_Instrument:
                    self._check_base_unpatched(nm)
                    return [mk(atom)]
                if nxt is None or not nxt.__module__.startswith("qmi.instruments."):
                    raise Untranslatable(f"super().{nm}() resolves to {nxt}: {self._where(owner, s)}")
                return self.translate_function(nxt, nm)          # inline the parent driver's open()/close()
        if isinstance(f, ast.Attribute):
            # self._check_is_closed() / self._check_is_open()
            if _is_self_attr(f) and f.attr in ("_check_is_closed", "_check_is_open") and not call.args:
                fn, k = self._resolve(f.attr)
                if k is not self.QMI_Instrument:
                    raise Untranslatable(f"{f.attr} overridden in {k}: {self._where(owner, s)}")
                return [mk("checkClosed" if f.attr == "_check_is_closed" else "checkOpen")]
            # self.<transport>.open() / .close()
            if f.attr in ("open", "close") and _is_self_attr(f.value):
                a = f.value.attr
                if a in self.all_tattrs:
                    if a not in self.present:
                        raise Untranslatable(f"unguarded use of an absent optional transport: {self._where(owner, s)}")
                    if call.args or call.keywords:
                        raise Untranslatable(f"transport open/close with arguments: {self._where(owner, s)}")
                    return [mk("tOpen" if f.attr == "open" else "tClose", self.links.index(a))]
                raise Untranslatable(f".{f.attr}() on something that is not a known transport: {self._where(owner, s)}")
            if f.attr in ("open", "close") and not _is_self_attr(f.value):
                raise Untranslatable(f".{f.attr}() on an unknown object: {self._where(owner, s)}")
            # self.<helper>(...)
            if _is_self_attr(f):
                if f.attr in ("open", "close"):
                    raise Untranslatable(f"self.{f.attr}() inside {fname}(): {self._where(owner, s)}")
                if self.has_state_ops(s):
                    fn, k = self._resolve(f.attr)
                    if fn is None:
                        raise Untranslatable(f"helper with a state change cannot be resolved: {self._where(owner, s)}")
                    fd = self._fdef_of(fn)
                    if any(isinstance(x, (ast.While, ast.For)) for x in ast.walk(fd)) and not call.args and not call.keywords:
                        # a helper that loops around the link opening (retries): unrolled by concrete evaluation
                        return self._unroll_retry_helper(k, f.attr, fn)
                    if not all(pure_expr(a) for a in call.args) or not all(pure_expr(kw.value) for kw in call.keywords):
                        raise Untranslatable(f"state-changing helper called with computed arguments: {self._where(owner, s)}")
                    return self.translate_function(k, f.attr, fn)        # inline a straight-line helper
                return [mk("io")]
        if self.has_state_ops(s):
            raise Untranslatable(f"call with a state change the translator does not understand: {self._where(owner, s)}")
        return [mk("pure" if pure_call(call) else "io")]

    def _check_base_unpatched(self, nm: str):
        """QMI_Instrument.open/close must still be `check; flag := …` — that is what superOpen/superClose mean."""
        fn = self.QMI_Instrument.__dict__[nm]
        body = D.body_without_docstring(self._fdef_of(fn))
        want = {"open": ("_check_is_closed", True), "close": ("_check_is_open", False)}[nm]
        ok = (len(body) == 2 and isinstance(body[0], ast.Expr) and isinstance(body[0].value, ast.Call)
              and _is_self_attr(body[0].value.func, want[0])
              and isinstance(body[1], ast.Assign) and _is_self_attr(body[1].targets[0], "_is_open")
              and isinstance(body[1].value, ast.Constant) and body[1].value.value is want[1])
        if not ok:
            raise Untranslatable(f"QMI_Instrument.{nm} is no longer `self.{want[0]}(); self._is_open = {want[1]}`")
        for chk, neg in (("_check_is_closed", False), ("_check_is_open", True)):
            b = D.body_without_docstring(self._fdef_of(self.QMI_Instrument.__dict__[chk]))
            t = b[0].test if b and isinstance(b[0], ast.If) else None
            good = t is not None and len(b) == 1 and (
                (not neg and _is_self_attr(t, "_is_open")) or
                (neg and isinstance(t, ast.UnaryOp) and isinstance(t.op, ast.Not) and _is_self_attr(t.operand, "_is_open")))
            good = good and any(isinstance(x, ast.Raise) for x in b[0].body) and not b[0].orelse
            if not good:
                raise Untranslatable(f"QMI_Instrument.{chk} is no longer `if [not] self._is_open: raise …`")

    # -- retry loops around the link opening: unrolled by concrete evaluation --------------------------------------
    def _unroll_retry_helper(self, owner, name: str, fn) -> list:
        """A helper whose only state-changing operation is `self.<T>.open()` inside loops with concrete counters
        (`while True … return`, `while retry <= MAX`, `for _ in range(MAX)` …).  Every control path is enumerated by running
        the body on concrete values, the outcome of each open attempt being the only unknown.  Accepted when the paths
        are exactly  F^i S → normal return (i < n)  and  F^n → raise;  the result is n nested attempts

            try: tOpen  except <all>: <statements run after the failure>; <next attempt>      (last attempt: re-raise)

        so that every attempt is a fault point of its own (a plan "fails k times, then succeeds" is a multi-fault plan).
        Anything else — a path that raises after the link was opened, returns without opening, kind-specific handlers,
        unbounded retries, values the evaluator cannot compute — is refused with the offending path."""
        base = 1000 * len(self.maps)
        fm = _func_map_of(fn, owner, name, base)
        self.maps.append(fm)
        ids = {id(n): i for i, n, _ in fm.stmts}
        top = [n for i, n, p in fm.stmts if p == 0]
        where = f"{owner.__name__}.{name}"
        cls = self.cls
        tattrs = self.all_tattrs
        reps = self._reps()
        tr = self

        class _Raise(Exception):
            def __init__(self, kind=None):
                self.kind = kind            # None = the injected fault itself

        class _Return(Exception):
            pass

        class _Break(Exception):
            pass

        class _Continue(Exception):
            pass

        class _Fork(Exception):
            pass

        class _SelfProxy:
            def __getattr__(self, a):
                v = getattr(cls, a)
                if isinstance(v, (int, float, str, bool, type(None))):
                    return v
                raise Untranslatable(f"{where}: the evaluator cannot use self.{a}")

        MARK = object()

        def run(oracle):
            env = {"self": _SelfProxy()}
            events = []            # ("stmt", node) | ("open", node, ok)
            state = {"n": 0, "attr": None}

            def ev(e):
                try:
                    return eval(compile(ast.fix_missing_locations(ast.Expression(e)), "<c19>", "eval"),
                                {"__builtins__": {"range": range, "len": len, "min": min, "max": max, "int": int}}, env)
                except Untranslatable:
                    raise
                except Exception as ex:
                    raise Untranslatable(f"{where}: cannot evaluate `{ast.unparse(e)}` ({type(ex).__name__})")

            def block(stmts, cur=None):
                for st in stmts:
                    if isinstance(st, ast.Pass):
                        continue
                    if isinstance(st, ast.Expr) and isinstance(st.value, ast.Constant):
                        continue
                    if isinstance(st, ast.Expr) and isinstance(st.value, ast.Call):
                        c = st.value
                        f = c.func
                        if isinstance(f, ast.Attribute) and f.attr == "open" and _is_self_attr(f.value) and f.value.attr in tattrs \
                                and not c.args:
                            if state["attr"] not in (None, f.value.attr):
                                raise Untranslatable(f"{where}: opens more than one transport")
                            state["attr"] = f.value.attr
                            i = state["n"]
                            if i >= len(oracle):
                                raise _Fork()
                            state["n"] += 1
                            events.append(("open", st, oracle[i]))
                            if not oracle[i]:
                                raise _Raise(None)
                            continue
                        if pure_call(c):
                            events.append(("stmt", st))
                            continue
                        raise Untranslatable(f"{where}: statement the evaluator does not run: `{ast.unparse(st)[:70]}`")
                    if isinstance(st, ast.Assign) and len(st.targets) == 1 and isinstance(st.targets[0], ast.Name):
                        env[st.targets[0].id] = ev(st.value)
                        events.append(("stmt", st))
                        continue
                    if isinstance(st, ast.AugAssign) and isinstance(st.target, ast.Name):
                        cur_v = env[st.target.id]
                        env[st.target.id] = ev(ast.BinOp(left=ast.Constant(cur_v), op=st.op, right=st.value))
                        events.append(("stmt", st))
                        continue
                    if isinstance(st, ast.If):
                        block(st.body if ev(st.test) else st.orelse, cur)
                        continue
                    if isinstance(st, ast.While):
                        it = 0
                        while ev(st.test):
                            it += 1
                            if it > 64:
                                raise Untranslatable(f"{where}: unbounded retry loop")
                            try:
                                block(st.body, cur)
                            except _Break:
                                break
                            except _Continue:
                                continue
                        else:
                            block(st.orelse, cur)
                        continue
                    if isinstance(st, ast.For) and isinstance(st.target, ast.Name):
                        seq = list(ev(st.iter))
                        if len(seq) > 64:
                            raise Untranslatable(f"{where}: unbounded retry loop")
                        for v in seq:
                            env[st.target.id] = v
                            try:
                                block(st.body, cur)
                            except _Break:
                                break
                            except _Continue:
                                continue
                        else:
                            block(st.orelse, cur)
                        continue
                    if isinstance(st, ast.Try) and not st.finalbody and not st.orelse:
                        try:
                            block(st.body, cur)
                        except _Raise as r:
                            h = st.handlers[0] if st.handlers else None
                            if h is None:
                                raise
                            if h.type is not None:
                                caught = tr._eval_in_module(owner, h.type)
                                if not all(issubclass(reps[k], caught) for k in KINDS):
                                    raise Untranslatable(f"{where}: the retry handler `except {ast.unparse(h.type)}` is kind-specific")
                            if len(st.handlers) > 1:
                                raise Untranslatable(f"{where}: several handlers in a retry loop")
                            if h.name:
                                env[h.name] = MARK
                            block(h.body, r)
                        continue
                    if isinstance(st, ast.Raise):
                        if st.exc is None:
                            if cur is None:
                                raise Untranslatable(f"{where}: bare raise outside a handler")
                            raise _Raise(cur.kind)
                        if isinstance(st.exc, ast.Name) and env.get(st.exc.id) is MARK:
                            raise _Raise(None)
                        target = st.exc.func if isinstance(st.exc, ast.Call) else st.exc
                        try:
                            c = tr._eval_in_module(owner, target)
                        except Exception:
                            raise Untranslatable(f"{where}: cannot evaluate the raised class `{ast.unparse(target)}`")
                        raise _Raise(tr._kind_of_class(c))
                    if isinstance(st, ast.Return) and st.value is None:
                        raise _Return()
                    if isinstance(st, ast.Break):
                        raise _Break()
                    if isinstance(st, ast.Continue):
                        raise _Continue()
                    raise Untranslatable(f"{where}: statement the evaluator does not run: `{ast.unparse(st)[:70]}`")

            try:
                block(top)
                out = ("end", None)
            except _Return:
                out = ("end", None)
            except _Raise as r:
                out = ("raise", r.kind)
            except (_Break, _Continue):
                raise Untranslatable(f"{where}: break/continue outside a loop")
            return events, out, state["attr"]

        paths = []
        todo = [[]]
        while todo:
            orc = todo.pop()
            if len(orc) > 40:
                raise Untranslatable(f"{where}: unbounded retry loop")
            try:
                events, out, attr = run(orc)
            except _Fork:
                todo.append(orc + [True])
                todo.append(orc + [False])
                continue
            used = [e[2] for e in events if e[0] == "open"]
            paths.append((used, events, out, attr))

        def show(used):
            return "".join("S" if u else "F" for u in used) or "(no attempt)"
        allfail = [p for p in paths if p[0] and not any(p[0])]
        if len(allfail) != 1:
            raise Untranslatable(f"{where}: no unique all-attempts-fail path")
        n = len(allfail[0][0])
        for used, events, out, attr in paths:
            if any(used):
                if used.count(True) > 1 or not used[-1] and True in used:
                    raise Untranslatable(f"{where}: path {show(used)}: the link is opened again after it was opened")
                if out[0] == "raise":
                    raise Untranslatable(f"{where}: path {show(used)}: raises although the link has just been opened "
                                         f"(the link stays open behind a failed open())")
            elif out[0] != "raise":
                raise Untranslatable(f"{where}: path {show(used)}: returns normally without having opened the link")
        succ = {len(p[0]) - 1: p for p in paths if any(p[0])}
        if sorted(succ) != list(range(n)):
            raise Untranslatable(f"{where}: success paths {sorted(show(p[0]) for p in succ.values())} do not cover every attempt 1…{n}")
        attr = allfail[0][3]
        if attr not in self.present:
            raise Untranslatable(f"{where}: retry-open of an absent transport")
        t = self.links.index(attr)

        def atom_of(node, kind, tt=None):
            return Atom(ids[id(node)], kind, tt, ast.unparse(node).splitlines()[0][:100], owner.__name__, node.lineno)

        # segments of the all-fail path: P0, open#1, H1, open#2, …, open#n, Hn
        segs, cur, opens = [], [], []
        for e in allfail[0][1]:
            if e[0] == "open":
                segs.append(cur)
                cur = []
                opens.append(e[1])
            else:
                cur.append(e[1])
        segs.append(cur)
        # statements after the successful attempt must not depend on which attempt succeeded
        def post(p):
            evs = p[1]
            k = max(i for i, e in enumerate(evs) if e[0] == "open")
            return [ids[id(e[1])] for e in evs[k + 1:]]
        posts = {tuple(post(p)) for p in succ.values()}
        if len(posts) != 1:
            raise Untranslatable(f"{where}: the statements after a successful attempt depend on the attempt number")
        post_nodes = [e[1] for e in succ[0][1][max(i for i, e in enumerate(succ[0][1]) if e[0] == "open") + 1:]]
        kind = allfail[0][2][1]
        exit_ = ("reraise",) if kind is None else ("raiseK", kind)

        def attempt(j):         # j = 1 … n
            body = [atom_of(opens[j - 1], "tOpen", t)]
            handler = [atom_of(x, "pure") for x in segs[j]]
            if j == n:
                if not handler and exit_ == ("reraise",):
                    return body[0]
                return Try(ids[id(opens[j - 1])], body, list(KINDS), handler, exit_)
            return Try(ids[id(opens[j - 1])], body, list(KINDS), handler + [attempt(j + 1)], ("swallow",))
        return [atom_of(x, "pure") for x in segs[0]] + [attempt(1)] + [atom_of(x, "pure") for x in post_nodes]

    def _try(self, s: ast.Try, owner, fname, ids, fm, sid) -> Try:
        if s.finalbody or s.orelse:
            raise Untranslatable(f"try with else/finally: {self._where(owner, s)}")
        if len(s.handlers) != 1:
            raise Untranslatable(f"try with {len(s.handlers)} handlers: {self._where(owner, s)}")
        h = s.handlers[0]
        reps = self._reps()
        if h.type is None:
            catches = list(KINDS)
        else:
            try:
                caught = self._eval_in_module(owner, h.type)
            except Exception as e:
                raise Untranslatable(f"cannot evaluate the except clause `{ast.unparse(h.type)}` ({e}): {self._where(owner, s)}")
            if not (isinstance(caught, type) or (isinstance(caught, tuple) and all(isinstance(c, type) for c in caught))):
                raise Untranslatable(f"except clause is not a class/tuple of classes: {self._where(owner, s)}")
            catches = [k for k in KINDS if issubclass(reps[k], caught)]
        hb = list(h.body)
        exit_: tuple = ("swallow",)
        if hb and isinstance(hb[-1], ast.Raise):
            r = hb.pop()
            if r.exc is None or (isinstance(r.exc, ast.Name) and h.name and r.exc.id == h.name):
                exit_ = ("reraise",)
            else:
                target = r.exc.func if isinstance(r.exc, ast.Call) else r.exc
                try:
                    c = self._eval_in_module(owner, target)
                except Exception as e:
                    raise Untranslatable(f"cannot evaluate the raised class ({e}): {self._where(owner, r)}")
                exit_ = ("raiseK", self._kind_of_class(c))
        if any(isinstance(x, ast.Raise) for n in hb for x in ast.walk(n)) and self.has_state_ops(hb):
            raise Untranslatable(f"conditional raise inside a handler that changes state: {self._where(owner, s)}")
        body = self._stmts(s.body, owner, fname, ids, fm)
        handler = self._stmts(hb, owner, fname, ids, fm, in_handler=True)
        return Try(sid, body, catches, handler, exit_)


def ids_parent(fm, sid: int) -> int:
    return fm.parent(sid)


def _func_map_of(fn, owner, name: str, base: int):
    """FuncMap of an arbitrary helper function (same construction as D.build_func_map)."""
    import textwrap
    fn = inspect.unwrap(fn)
    lines, first = inspect.getsourcelines(fn)
    tree = ast.parse(textwrap.dedent("".join(lines)))
    ast.increment_lineno(tree, first - 1)
    fdef = tree.body[0]
    stmts = []
    counter = [0]

    def walk(lst, parent):
        for s in lst:
            counter[0] += 1
            sid = base + counter[0]
            stmts.append((sid, s, parent))
            for fld in ("body", "orelse", "finalbody"):
                sub = getattr(s, fld, None)
                if isinstance(sub, list) and sub and isinstance(sub[0], ast.stmt):
                    walk(sub, sid)
            for h in getattr(s, "handlers", []) or []:
                walk(h.body, sid)
    walk(D.body_without_docstring(fdef), 0)
    return D.FuncMap(owner, name, fn.__code__, base, stmts, fdef.lineno)


def translate_class(cls, variant: str, present: frozenset) -> Program:
    from qmi.core.instrument import QMI_Instrument
    progs = {}
    maps = {}
    owner_name = ""
    for which in ("open", "close"):
        tr = ClassTranslator(cls, variant, present)
        owner = next(k for k in cls.__mro__ if which in k.__dict__)
        if owner is QMI_Instrument:
            raise Untranslatable(f"{cls.__name__} does not define {which}() although it creates a transport")
        if not inspect.isfunction(inspect.unwrap(owner.__dict__[which])):
            raise Untranslatable(f"{cls.__name__}.{which} is not a plain function")
        progs[which] = tr.translate_function(owner, which)
        maps[which] = tr.maps
        links = tr.links
        if which == "open":
            owner_name = owner.__name__
    if not links:
        raise Untranslatable(f"{cls.__name__}[{variant}]: no transport attribute found in __init__")
    return Program(lean_name(cls.__name__, variant), cls, variant, links, progs["open"], progs["close"], maps, owner_name)


# ---------------------------------------------------------------------------
# Python mirror of Model/OpenProg.lean (prediction only)
# ---------------------------------------------------------------------------

@dataclass
class MState:
    flag: bool = False
    links: list = field(default_factory=list)
    iolog: list = field(default_factory=list)
    trace: list = field(default_factory=list)
    cnt: int = 0

    def copy(self):
        return MState(self.flag, list(self.links), list(self.iolog), list(self.trace), self.cnt)


def _fault(plan, s: MState):
    """plan: None | (k, kind) | {k: kind, …}  (mirror of `noFault`, `single k κ`, an arbitrary plan)"""
    if plan is None:
        return None
    if isinstance(plan, dict):
        return plan.get(s.cnt)
    return plan[1] if s.cnt == plan[0] else None


def step_atom(plan, a: Atom, s: MState):
    s.trace.append(a.id)
    k = a.kind
    if k == "pure":
        return "ok"
    if k == "checkClosed":
        return "invalidOp" if s.flag else "ok"
    if k == "checkOpen":
        return "ok" if s.flag else "invalidOp"
    if k == "superOpen":
        if s.flag:
            return "invalidOp"
        s.flag = True
        return "ok"
    if k == "superClose":
        if not s.flag:
            return "invalidOp"
        s.flag = False
        return "ok"
    if k == "tOpen":
        if a.t in s.links:
            return "invalidOp"
        f = _fault(plan, s)
        s.cnt += 1
        if f:
            return f
        s.links.insert(0, a.t)
        s.iolog.append(a.id)
        return "ok"
    if k == "tClose":
        if a.t not in s.links:
            return "invalidOp"
        f = _fault(plan, s)
        s.cnt += 1
        s.links = [x for x in s.links if x != a.t]
        s.iolog.append(a.id)
        return f or "ok"
    if k == "io":
        f = _fault(plan, s)
        if s.links:
            s.iolog.append(a.id)
        s.cnt += 1
        return f or "ok"
    raise ValueError(k)


def exec_prog(plan, prog: list, s: MState) -> str:
    """Returns 'ok' or the kind raised; mutates s."""
    for st in prog:
        if isinstance(st, Atom):
            r = step_atom(plan, st, s)
            if r != "ok":
                return r
        else:
            r = exec_prog(plan, st.body, s)
            if r == "ok":
                continue
            if r in st.catches:
                r2 = exec_prog(plan, st.handler, s)
                if r2 != "ok":
                    return r2
                if st.exit[0] == "reraise":
                    return r
                if st.exit[0] == "raiseK":
                    return st.exit[1]
                continue
            return r
    return "ok"


def consistent(n: int, s: MState) -> bool:
    return all(t in s.links for t in range(n)) if s.flag else not s.links


def bad_plans(p: Program) -> list:
    """All (k, kind) with k < freeCount whose open() run ends inconsistent (mirror of the Lean table)."""
    s = MState()
    exec_prog(None, p.open, s)
    free = s.cnt
    out = []
    n = len(p.links)
    for k in range(free):
        for kd in KINDS:
            s = MState()
            exec_prog((k, kd), p.open, s)
            if not consistent(n, s):
                out.append((k, kd))
    s = MState()
    exec_prog(None, p.open, s)
    if not consistent(n, s):
        out.insert(0, None)
    return out


def mirror_hist_ok(p: Program) -> bool:
    n = len(p.links)
    o1 = MState()
    r = exec_prog(None, p.open, o1)
    if r != "ok" or not (o1.flag and all(t in o1.links for t in range(n))) or len(o1.links) != n:
        return False
    o2 = o1.copy()
    if exec_prog(None, p.open, o2) != "invalidOp" or (o2.flag, sorted(o2.links), o2.iolog) != (o1.flag, sorted(o1.links), o1.iolog):
        return False
    c1 = o1.copy()
    if exec_prog(None, p.close, c1) != "ok" or c1.flag or c1.links:
        return False
    c2 = c1.copy()
    if exec_prog(None, p.close, c2) != "invalidOp" or c2.flag or c2.links or c2.iolog != c1.iolog:
        return False
    o3 = c1.copy()
    if exec_prog(None, p.open, o3) != "ok" or not (o3.flag and all(t in o3.links for t in range(n))):
        return False
    c0 = MState()
    if exec_prog(None, p.close, c0) != "invalidOp" or c0.flag or c0.links or c0.iolog:
        return False
    return True


def mirror_recover_ok(p: Program) -> bool:
    n = len(p.links)
    s = MState()
    exec_prog(None, p.open, s)
    plans = [None] + [(k, kd) for k in range(s.cnt) for kd in KINDS]
    for pl in plans:
        s = MState()
        exec_prog(pl, p.open, s)
        if not consistent(n, s):
            continue
        if s.flag:
            if exec_prog(None, p.close, s) != "ok" or s.flag or s.links:
                return False
        else:
            if exec_prog(None, p.open, s) != "ok" or not (s.flag and all(t in s.links for t in range(n))):
                return False
    return True



# -- mirrors of the syntactic checkers of Props/C19.lean (prediction only; Lean decides) ---------------------

def _is(st, kind, t=None):
    return isinstance(st, Atom) and st.kind == kind and (t is None or st.t == t)


def m_allPure(p):
    return all(_is(s, "pure") for s in p)


def m_flatPI(p):
    return all(_is(s, "pure") or _is(s, "io") for s in p)


def m_handlerOK(p):
    for i, s in enumerate(p):
        if _is(s, "pure"):
            continue
        return _is(s, "tClose", 0) and m_allPure(p[i + 1:])
    return False


def m_wfPost(p):
    return all(_is(s, "pure") or _is(s, "io") or _is(s, "checkOpen") for s in p)


def m_wfMid(p):
    for i, s in enumerate(p):
        if _is(s, "pure") or _is(s, "checkClosed"):
            continue
        if isinstance(s, Try):
            if m_flatPI(s.body) and set(s.catches) >= set(KINDS) and m_handlerOK(s.handler) and s.exit[0] != "swallow":
                continue
            return False
        return _is(s, "superOpen") and m_wfPost(p[i + 1:])
    return False


def m_wfOpen(p):
    for i, s in enumerate(p):
        if _is(s, "pure") or _is(s, "io") or _is(s, "checkClosed"):
            continue
        return _is(s, "tOpen", 0) and m_wfMid(p[i + 1:])
    return False


def m_wfClose(p):
    def b(p, want):
        for i, s in enumerate(p):
            if _is(s, "pure"):
                continue
            return (_is(s, "tClose", 0) if want == "tClose" else _is(s, "superClose")) and m_allPure(p[i + 1:])
        return False
    for i, s in enumerate(p):
        if _is(s, "pure") or _is(s, "io") or _is(s, "checkOpen"):
            continue
        if _is(s, "superClose"):
            return b(p[i + 1:], "tClose")
        if _is(s, "tClose", 0):
            return b(p[i + 1:], "superClose")
        return False
    return False


def m_openGuarded(n, p):
    for s in p:
        if _is(s, "pure"):
            continue
        return _is(s, "checkClosed") or _is(s, "superOpen") or (_is(s, "tOpen") and s.t < n)
    return False


def m_closeGuarded(p):
    for s in p:
        if _is(s, "pure"):
            continue
        return _is(s, "checkOpen") or _is(s, "superClose") or _is(s, "tClose")
    return False


# -- mirror of the abstract run `chk` / safeOpen / safeClose of Props/C19.lean (prediction only) -----------------

def _abs_atom(a, sig):
    """(state after normal completion, state in which it raises or None); None = raises for sure"""
    flag, links = sig
    k = a.kind
    if k == "pure":
        return (sig, None)
    if k == "io":
        return (sig, sig)
    if k == "checkClosed":
        return None if flag else (sig, None)
    if k == "checkOpen":
        return (sig, None) if flag else None
    if k == "superOpen":
        return None if flag else ((True, links), None)
    if k == "superClose":
        return ((False, links), None) if flag else None
    if k == "tOpen":
        return None if a.t in links else ((flag, (a.t,) + links), sig)
    if k == "tClose":
        if a.t not in links:
            return None
        after = (flag, tuple(x for x in links if x != a.t))
        return (after, after)
    raise ValueError(k)


def m_chk(K, sig, prog):
    for st in prog:
        if isinstance(st, Atom):
            r = _abs_atom(st, sig)
            if r is None:
                return None
            sig2, rho = r
            if rho is not None and not K(rho):
                return None
            sig = sig2
        else:
            all_caught = set(st.catches) >= set(KINDS)

            sig_b = m_chk(lambda _x: True, sig, st.body)
            if sig_b is None:
                return None

            def Kb(tau, st=st, all_caught=all_caught, sig_b=sig_b):
                if not (all_caught or K(tau)):
                    return False
                t2 = m_chk(K, tau, st.handler)
                if t2 is None:
                    return False
                return (t2 == sig_b) if st.exit[0] == "swallow" else K(t2)
            sig = m_chk(Kb, sig, st.body)
            if sig is None:
                return None
    return sig


def m_good(n):
    return lambda sig: all(t in sig[1] for t in range(n)) if sig[0] else not sig[1]


def m_safeOpen(n, p):
    s = m_chk(m_good(n), (False, ()), p)
    return s is not None and m_good(n)(s)


def m_safeClose(n, po, pc, faults: bool = True):
    s = m_chk(m_good(n), (False, ()), po)
    if s is None or not s[0] or not m_good(n)(s):
        return False
    t = m_chk(m_good(n) if faults else (lambda _x: True), s, pc)
    return t is not None and not t[0] and not t[1]


def close_bad_plans(p: "Program") -> list:
    """single-fault plans of close() (after a fault-free open()) that leave the instrument inconsistent"""
    n = len(p.links)
    o = MState()
    if exec_prog(None, p.open, o) != "ok":
        return []
    c = MState(o.flag, list(o.links))
    exec_prog(None, p.close, c)
    out = []
    for k in range(c.cnt):
        for kd in KINDS:
            c = MState(o.flag, list(o.links))
            exec_prog((k, kd), p.close, c)
            if not consistent(n, c):
                out.append((k, kd))
    return out


# ---------------------------------------------------------------------------
# emission
# ---------------------------------------------------------------------------

HEADER = "-- GENERATED by harness/tr_openprogs.py from the `open`/`close` source of the driver classes. Do not edit.\n"


def plan_lean(pl) -> str:
    return "noFault" if pl is None else f"(single {pl[0]} .{pl[1]})"


def base_program_lean() -> str:
    """The base class itself (and every driver that inherits open/close unchanged, e.g. the ADwin and dummy drivers):
    no link, `open` = superOpen, `close` = superClose — emitted only after checking that QMI_Instrument.open/close and
    the two state checks still have exactly that shape."""
    from qmi.core.instrument import QMI_Instrument

    class _Probe:
        pass
    tr = ClassTranslator.__new__(ClassTranslator)
    tr.QMI_Instrument = QMI_Instrument
    tr._check_base_unpatched("open")
    tr._check_base_unpatched("close")
    return ("/-- qmi.core.instrument.QMI_Instrument.open / close (pattern-checked against the source): the flag protocol alone -/\n"
            "def gen_QMI_Instrument : Driver :=\n  { name := \"QMI_Instrument\", nlinks := 0,\n"
            "    openP := [.atom 1 .superOpen],\n    closeP := [.atom 1 .superClose] }\n")


_GUARD_TABLES: dict = {}


def guard_table(cls) -> dict:
    if cls not in _GUARD_TABLES:
        _GUARD_TABLES[cls] = GuardAnalysis(cls).table()
    return _GUARD_TABLES[cls]


def emit_programs(progs: list) -> str:
    out = [HEADER, "import QmiModel.Model.OpenProg\n", "namespace QmiModel.Gen.OpenProgs\nopen QmiModel.OpenProg\n"]
    for p in progs:
        out.append(f"/-- {p.cls.__module__}.{p.cls.__name__}" + (f" [{p.variant}]" if p.variant else "") +
                   f"; links: {', '.join(f'{i}=self.{a}' for i, a in enumerate(p.links))} -/")
        for which in ("open", "close"):
            for a in sorted(p.atoms(which).values(), key=lambda a: a.id):
                out.append(f"--   {which} #{a.id:<5} {a.kind + ('' if a.t is None else ' ' + str(a.t)):<12} {a.src}")
        out.append(f"def gen_{p.name} : Driver :=\n  {{ name := \"{p.name}\", nlinks := {len(p.links)},\n"
                   f"    openP := {lean_list(p.open)},\n    closeP := {lean_list(p.close)} }}\n")
    out.append(base_program_lean())
    seen_cls = set()
    for p in progs:
        if p.cls.__name__ in seen_cls:
            continue
        seen_cls.add(p.cls.__name__)
        tab = guard_table(p.cls)
        ent = ", ".join(f'("{m}", .{ {"GUARD": "guard", "NOIO": "noio", "UNGUARDED": "bare"}[v] })' for m, v in sorted(tab.items()))
        out.append(f"/-- static guard analysis of the RPC methods of {p.cls.__name__} -/\n"
                   f"def rpcGuards_{p.cls.__name__} : List (String × Guard) := [{ent}]\n")
    tg = transport_guard_table()
    ent = ", ".join(f'("{m}", .{ {"GUARD": "guard", "NOIO": "noio", "UNGUARDED": "bare"}[v] })' for m, v in sorted(tg.items()))
    out.append("/-- static guard analysis of the I/O methods of every QMI_Transport (sub)class: does `_check_is_open()` (or a\n"
               "    delegation to a guarded I/O method) precede any access to the OS / library endpoint? -/\n"
               f"def transportGuards : List (String × Guard) := [{ent}]\n")
    out.append("def allDrivers : List Driver := [" + ", ".join(["gen_QMI_Instrument"] + [f"gen_{p.name}" for p in progs]) + "]\n")
    out.append("end QmiModel.Gen.OpenProgs\n")
    return "\n".join(out)


def emit_obligations(progs: list, untranslatable: list) -> tuple[str, dict]:
    """Per class: `ok_X` (all plans consistent) or the negation witness `bad_X` + the exact list of failing plans
    `exact_X`; plus `hist_X` (open/close histories) and `recover_X` (close works / retry possible)."""
    out = [HEADER, "import QmiModel.Props.C19\nimport QmiModel.Gen.OpenProgs\n",
           "namespace QmiModel.Gen.OpenProgsObligations\nopen QmiModel.OpenProg QmiModel.C19 QmiModel.Gen.OpenProgs\n"]
    verdicts = {}
    for p in progs:
        bad = bad_plans(p)
        verdicts[p.name] = {"bad_plans": bad, "hist": mirror_hist_ok(p), "recover": mirror_recover_ok(p)}
        g = f"gen_{p.name}"
        n = len(p.links)
        safe = m_safeOpen(n, p.open)
        verdicts[p.name]["safe_open"] = safe
        if not bad and safe:
            out.append(f"/-- every fault plan: any number of faults, any kinds, at any fault points of open() -/\n"
                       f"theorem ok_{p.name} : ∀ P : Plan, GoodRun {g} P :=\n  all_plans_of_safe {g} (by decide +kernel)")
        elif not bad:
            out.append(f"/-- every plan of the property statement (one fault); the general discipline safeOpen does not hold -/\n"
                       f"theorem ok_single_{p.name} : GoodRun {g} noFault ∧ ∀ k κ, GoodRun {g} (single k κ) :=\n"
                       f"  all_plans_of_table {g} (by decide +kernel)")
        else:
            w = bad[0]
            lst = "[" + ", ".join(f"({k}, .{kd})" for k, kd in [b for b in bad if b is not None]) + "]"
            out.append(f"/-- counter-example computed by the translator's mirror, checked by the kernel -/\n"
                       f"theorem bad_{p.name} : ¬ Consistent {g}.nlinks (runOpen {g} {plan_lean(w)}).1 :=\n"
                       f"  not_consistent_of_table {g} {plan_lean(w)} (by decide +kernel)")
            if None not in bad:
                out.append(f"/-- … and these are *all* failing single-fault plans of this class -/\n"
                           f"theorem exact_{p.name} : ∀ k κ, Consistent {g}.nlinks (runOpen {g} (single k κ)).1 ∨ (k, κ) ∈ {lst} :=\n"
                           f"  all_plans_except_of_table {g} {lst} (by decide +kernel)")
        # close() under faults
        cbad = close_bad_plans(p)
        verdicts[p.name]["close_bad_plans"] = cbad
        if cbad:
            k, kd = cbad[0]
            out.append(f"/-- a fault inside close() (after a fault-free open()) that leaves the instrument inconsistent -/\n"
                       f"theorem closebad_{p.name} : ¬ Consistent {g}.nlinks "
                       f"(runClose {g} (single {k} .{kd})).1 :=\n"
                       f"  not_consistent_of_b _ _ (by decide +kernel)")
        if verdicts[p.name]["hist"]:
            out.append(f"theorem hist_{p.name} : histOK {g} = true := by decide +kernel")
        else:
            out.append(f"theorem hist_bad_{p.name} : histOK {g} = false := by decide +kernel")
        if verdicts[p.name]["recover"]:
            out.append(f"theorem recover_{p.name} : recoverAll {g} = true := by decide +kernel")
        else:
            out.append(f"theorem recover_bad_{p.name} : recoverAll {g} = false := by decide +kernel")
        shape = []
        if m_safeOpen(len(p.links), p.open):
            shape.append(f"safeOpen {g}.nlinks {g}.openP = true")
        if m_safeClose(len(p.links), p.open, p.close):
            shape.append(f"safeClose {g}.nlinks {g}.openP {g}.closeP = true")
        if m_safeClose(len(p.links), p.open, p.close, faults=False):
            shape.append(f"safeCloseNoFault {g}.nlinks {g}.openP {g}.closeP = true")
        if m_wfOpen(p.open):
            shape.append(f"wfOpen {g}.openP = true")
        if m_wfClose(p.close):
            shape.append(f"wfClose {g}.closeP = true")
        if m_openGuarded(len(p.links), p.open):
            shape.append(f"openGuarded {g}.nlinks {g}.openP = true")
        if m_closeGuarded(p.close):
            shape.append(f"closeGuarded {g}.closeP = true")
        verdicts[p.name]["shape"] = shape
        if shape:
            out.append(f"/-- the syntactic disciplines of Props/C19.lean this class follows (premises of consistent_of_wf, "
                       f"close_after_open, double_open_close_refused) -/\n"
                       f"theorem shape_{p.name} : {' ∧ '.join(shape)} := by decide")
        out.append("")
    out.append("/-- the base class alone (no link): the flag protocol holds under every plan, and the histories behave -/\n"
               "theorem ok_QMI_Instrument : ∀ P : Plan, GoodRun gen_QMI_Instrument P :=\n"
               "  all_plans_of_safe gen_QMI_Instrument (by decide +kernel)\n"
               "theorem hist_QMI_Instrument : histOK gen_QMI_Instrument = true := by decide +kernel\n")
    seen_cls = set()
    for p in progs:
        c = p.cls.__name__
        if c in seen_cls:
            continue
        seen_cls.add(c)
        bare = sorted(m for m, v in guard_table(p.cls).items() if v == "UNGUARDED")
        verdicts[p.name]["bare_rpc_methods"] = bare
        if not bare:
            out.append(f"/-- every RPC method of {c} checks the instrument's open flag before it can reach a link object -/\n"
                       f"theorem rpcguard_{c} : bareMethods rpcGuards_{c} = [] := by rfl")
        else:
            lst = "[" + ", ".join(f'"{m}"' for m in bare) + "]"
            out.append(f"/-- the RPC methods of {c} that reach a link object without an instrument-level check first: on a closed\n"
                       f"    instrument they are stopped by the transport's own state check only (still no device I/O: method_closed_no_io) -/\n"
                       f"theorem rpcbare_{c} : bareMethods rpcGuards_{c} = {lst} := by rfl")
    tbare = sorted(m for m, v in transport_guard_table().items() if v == "UNGUARDED")
    verdicts["__transports__"] = {"bare_io_methods": tbare}
    if not tbare:
        out.append("/-- every I/O method of every shipped transport checks the transport's open flag before it can touch the OS /\n"
                   "    library endpoint — the second line of defence behind `rpcbare_*` (drivers reach the device only through these) -/\n"
                   "theorem transport_io_guarded : bareMethods transportGuards = [] := by rfl")
    else:
        lst = "[" + ", ".join(f'"{m}"' for m in tbare) + "]"
        out.append("/-- transport I/O methods that can touch the endpoint WITHOUT checking the open flag first (each must be reproduced\n"
                   "    dynamically on the real transport class; it is a defect: a closed instrument can then reach the device) -/\n"
                   f"theorem transport_io_bare : bareMethods transportGuards = {lst} := by rfl")
    out.append("")
    if untranslatable:
        out.append("-- classes the translator refused (no obligation stated; the check reports them as a broken link):")
        for n, why in untranslatable:
            out.append(f"--   {n}: {why}")
    out.append("end QmiModel.Gen.OpenProgsObligations\n")
    return "\n".join(out), verdicts


def check_transport_close_pattern() -> list:
    """The model's `tClose` fault ("the link counts as released, then the exception propagates") rests on every shipped
    transport's close() calling the base class (which clears the open flag) before anything that can fail.
    Returns [(class name, why)] for transports that do not."""
    import qmi.core.transport as T0
    for m in ("qmi.core.transport_usbtmc_pyusb", "qmi.core.transport_usbtmc_visa", "qmi.core.transport_gpib_visa"):
        try:
            __import__(m)
        except Exception:
            pass
    out, seen = [], []

    def walk(c):
        for k in c.__subclasses__():
            if k not in seen:
                seen.append(k)
                walk(k)
    walk(T0.QMI_Transport)
    for k in seen:
        if not k.__module__.startswith("qmi.") or "close" not in k.__dict__:
            continue
        try:
            import textwrap
            fdef = ast.parse(textwrap.dedent(inspect.getsource(k.__dict__["close"]))).body[0]
        except (OSError, TypeError, SyntaxError) as e:
            out.append((k.__name__, f"source of close() not available: {e}"))
            continue
        first = None
        for st in D.body_without_docstring(fdef):
            if isinstance(st, ast.Expr) and isinstance(st.value, ast.Call) and pure_call(st.value):
                continue
            first = st
            break
        if not (first is not None and isinstance(first, ast.Expr) and _is_super_call(first.value, "close")):
            out.append((k.__name__, "close() does not call super().close() before anything that can fail: "
                        + (ast.unparse(first)[:80] if first is not None else "<empty>")))
    return out


def check_base_glue() -> list:
    """The model identifies `with instr:` / `with proxy:` with open()/close() and `tOpen`/`tClose` with
    QMI_Transport.open/close.  That rests on the shape of four small base-class methods; returns [(name, why)] for
    every one that no longer has it (so an edit there breaks the obligations instead of going unnoticed)."""
    import textwrap
    from qmi.core.instrument import QMI_Instrument
    from qmi.core.transport import QMI_Transport
    out = []

    def body(k, m):
        return D.body_without_docstring(ast.parse(textwrap.dedent(inspect.getsource(k.__dict__[m]))).body[0])

    def is_self_call(st, name):
        return (isinstance(st, ast.Expr) and isinstance(st.value, ast.Call) and _is_self_attr(st.value.func, name)
                and not st.value.args and not st.value.keywords)

    def is_flag_assign(st, val):
        return (isinstance(st, ast.Assign) and len(st.targets) == 1 and _is_self_attr(st.targets[0], "_is_open")
                and isinstance(st.value, ast.Constant) and st.value.value is val)

    def is_flag_guard(st, negated):
        if not (isinstance(st, ast.If) and not st.orelse and st.body and isinstance(st.body[-1], ast.Raise)):
            return False
        t = st.test
        if negated:
            return isinstance(t, ast.UnaryOp) and isinstance(t.op, ast.Not) and _is_self_attr(t.operand, "_is_open")
        return _is_self_attr(t, "_is_open")
    try:
        b = body(QMI_Instrument, "__enter__")
        if not (len(b) == 2 and is_self_call(b[0], "open") and isinstance(b[1], ast.Return)
                and isinstance(b[1].value, ast.Name) and b[1].value.id == "self"):
            out.append(("QMI_Instrument.__enter__", "is no longer `self.open(); return self` (the model treats `with` as open())"))
        b = body(QMI_Instrument, "__exit__")
        if not (len(b) == 1 and is_self_call(b[0], "close")):
            out.append(("QMI_Instrument.__exit__", "is no longer `self.close()` (the model treats leaving `with` as close())"))
        b = body(QMI_Transport, "open")
        if not (len(b) == 3 and is_flag_guard(b[0], False) and is_self_call(b[1], "_open_transport") and is_flag_assign(b[2], True)):
            out.append(("QMI_Transport.open", "is no longer `if self._is_open: raise …; self._open_transport(); self._is_open = True` "
                        "(the model's tOpen: refuse if open, a failure leaves the link closed)"))
        b = body(QMI_Transport, "close")
        if not (len(b) == 2 and is_self_call(b[0], "_check_is_open") and is_flag_assign(b[1], False)):
            out.append(("QMI_Transport.close", "is no longer `self._check_is_open(); self._is_open = False` (the model's tClose)"))
        b = body(QMI_Transport, "_check_is_open")
        if not (len(b) == 1 and is_flag_guard(b[0], True)):
            out.append(("QMI_Transport._check_is_open", "is no longer `if not self._is_open: raise …`"))
    except (OSError, TypeError, SyntaxError, KeyError, IndexError) as e:
        out.append(("base-class glue", f"source not available / not parsable: {type(e).__name__}: {e}"))
    return out


def translate_all() -> tuple[list, list, list]:
    """(programs, untranslatable [(name, why)], import_failures)."""
    classes, fails = D.discover_classes()
    progs, bad = [], []
    bad += check_base_glue()
    bad += [("transport " + n, w) for n, w in check_transport_close_pattern()]
    for cls in classes:
        try:
            vs = D.variants_of(cls)
        except Exception as e:
            bad.append((cls.__name__, f"constructor analysis failed: {type(e).__name__}: {e}"))
            continue
        for tag, present in vs:
            try:
                progs.append(translate_class(cls, tag, present))
            except Untranslatable as e:
                bad.append((lean_name(cls.__name__, tag), str(e)))
            except Exception as e:  # a translator bug is also "source not understood"
                bad.append((lean_name(cls.__name__, tag), f"translator error {type(e).__name__}: {e}"))
    return progs, bad, fails


# ---------------------------------------------------------------------------
# static guard analysis of the RPC methods ("a closed instrument performs no device I/O")
# ---------------------------------------------------------------------------

class GuardAnalysis:
    """For every @rpc_method of a driver class: does it check `_check_is_open()` (itself or through a self-method it
    calls first) before the first statement that can reach a transport?

      GUARD      the instrument-level check comes first on every path that reaches a link object
      NOIO       no statement reaches a link object at all
      UNGUARDED  some path can reach a link object before any instrument-level check: on a closed instrument the call
                 is stopped only by the transport's own `_check_is_open()` (still no device I/O, but the driver relies on
                 the second line of defence)

    Conservative towards UNGUARDED; validated on every run against the recorded transport calls of the real method
    on a closed instrument (a GUARD/NOIO method must not even attempt a transport call)."""

    def __init__(self, cls):
        self.cls = cls
        self.tattrs = [a for a, _, _ in D.transport_params(cls)]
        self.link_objs = set(self.tattrs)
        self._derive_link_objects()
        self.memo: dict = {}

    def _derive_link_objects(self):
        changed = True
        while changed:
            changed = False
            for k in self.cls.__mro__:
                if not k.__module__.startswith("qmi.instruments."):
                    continue
                node = D.class_source_ast(k)
                if node is None:
                    continue
                for fn in node.body:
                    if not (isinstance(fn, ast.FunctionDef) and fn.name == "__init__"):
                        continue
                    for st in ast.walk(fn):
                        if isinstance(st, (ast.Assign, ast.AnnAssign)) and isinstance(st.value, ast.Call):
                            tg = st.targets[0] if isinstance(st, ast.Assign) else st.target
                            if not _is_self_attr(tg) or tg.attr in self.link_objs:
                                continue
                            uses = any(_is_self_attr(x) and x.attr in self.link_objs for x in ast.walk(st.value))
                            if uses:
                                self.link_objs.add(tg.attr)
                                changed = True

    def _resolve(self, name, after=None):
        """(function, owner) of self.<name>, or of super().<name> as seen from class `after`"""
        mro = list(self.cls.__mro__)
        if after is not None and after in mro:
            mro = mro[mro.index(after) + 1:]
        for k in mro:
            if name in k.__dict__:
                v = k.__dict__[name]
                if isinstance(v, (staticmethod, classmethod)):
                    v = v.__func__
                return (v, k) if inspect.isfunction(v) else (None, k)
        return (None, None)

    def _reaches_directly(self, node) -> bool:
        for n in ast.walk(node):
            if isinstance(n, ast.Attribute) and _is_self_attr(n) and n.attr in self.link_objs:
                return True
        return False

    def _classify_simple(self, st, stack, owner) -> Optional[str]:
        """'R' reaches a link object (or an UNGUARDED self-method), 'G' passes a guard first, None neither"""
        if self._reaches_directly(st):
            return "R"
        guard = False
        for n in ast.walk(st):
            if not isinstance(n, ast.Call):
                continue
            f = n.func
            m, after = None, None
            if _is_self_attr(f):
                m = f.attr
            elif (isinstance(f, ast.Attribute) and isinstance(f.value, ast.Call) and isinstance(f.value.func, ast.Name)
                  and f.value.func.id == "super"):
                m, after = f.attr, owner
            if m is not None:
                if m == "_check_is_open" and after is None:
                    guard = True
                    continue
                sm = self.summary(m, stack, after)
                if sm == "UNGUARDED":
                    return "R"
                if sm == "GUARD":
                    guard = True
            # `self` handed to somebody else: we do not know what they do with it
            for a in list(n.args) + [k.value for k in n.keywords]:
                if isinstance(a, ast.Name) and a.id == "self":
                    return "R"
        return "G" if guard else None

    def _scan(self, stmts, stack, owner) -> Optional[str]:
        """GUARD / UNGUARDED / 'END' (path ends without reaching) / None (falls through)"""
        for st in stmts:
            if isinstance(st, (ast.FunctionDef, ast.AsyncFunctionDef, ast.ClassDef)):
                continue
            if isinstance(st, ast.If):
                c = self._classify_simple(st.test, stack, owner)
                if c == "R":
                    return "UNGUARDED"
                if c == "G":
                    return "GUARD"
                rb, ro = self._scan(st.body, stack, owner), self._scan(st.orelse, stack, owner)
                if "UNGUARDED" in (rb, ro):
                    return "UNGUARDED"
                if rb in ("GUARD", "END") and ro in ("GUARD", "END"):
                    return "GUARD" if "GUARD" in (rb, ro) else "END"
                continue
            if isinstance(st, (ast.For, ast.AsyncFor, ast.While)):
                head = st.iter if not isinstance(st, ast.While) else st.test
                c = self._classify_simple(head, stack, owner)
                if c == "R":
                    return "UNGUARDED"
                if c == "G":
                    return "GUARD"
                if self._scan(st.body, stack, owner) == "UNGUARDED" or self._scan(st.orelse, stack, owner) == "UNGUARDED":
                    return "UNGUARDED"
                continue
            if isinstance(st, (ast.With, ast.AsyncWith)):
                for it in st.items:
                    c = self._classify_simple(it.context_expr, stack, owner)
                    if c == "R":
                        return "UNGUARDED"
                    if c == "G":
                        return "GUARD"
                r = self._scan(st.body, stack, owner)
                if r is not None:
                    return r
                continue
            if isinstance(st, ast.Try):
                r = self._scan(st.body, stack, owner)
                if r == "UNGUARDED":
                    return r
                for h in st.handlers:
                    if self._scan(h.body, stack, owner) == "UNGUARDED":
                        return "UNGUARDED"
                if self._scan(st.orelse, stack, owner) == "UNGUARDED" or self._scan(st.finalbody, stack, owner) == "UNGUARDED":
                    return "UNGUARDED"
                if r == "GUARD" and not st.handlers:
                    return "GUARD"
                continue
            c = self._classify_simple(st, stack, owner)
            if c == "R":
                return "UNGUARDED"
            if c == "G":
                return "GUARD"
            if isinstance(st, (ast.Return, ast.Raise)):
                return "END"
        return None

    def summary(self, name: str, stack: tuple = (), after=None) -> str:
        fn, owner = self._resolve(name, after)
        key = (owner, name)
        if key in self.memo:
            return self.memo[key]
        if key in stack or len(stack) > 12:
            return "NOIO"
        if fn is None:
            return "NOIO"
        try:
            import textwrap
            fdef = ast.parse(textwrap.dedent(inspect.getsource(fn))).body[0]
        except (OSError, TypeError, SyntaxError):
            return "UNGUARDED"
        r = self._scan(D.body_without_docstring(fdef), stack + (key,), owner)
        out = {"GUARD": "GUARD", "UNGUARDED": "UNGUARDED"}.get(r, "NOIO")
        if not stack:
            self.memo[key] = out
        return out

    def table(self) -> dict:
        return {m: self.summary(m) for m in D.rpc_methods(self.cls)}


# ---------------------------------------------------------------------------
# static guard analysis of the transports' own I/O methods (the second line of defence the drivers rely on)
# ---------------------------------------------------------------------------

TRANSPORT_IO_METHODS = ("write", "read", "read_until", "read_until_timeout", "discard_read")


def transport_classes() -> list:
    import qmi.core.transport as T0
    for m in ("qmi.core.transport_usbtmc_pyusb", "qmi.core.transport_usbtmc_visa", "qmi.core.transport_gpib_visa"):
        try:
            __import__(m)
        except Exception:
            pass
    seen = []

    def walk(c):
        for k in c.__subclasses__():
            if k not in seen:
                seen.append(k)
                walk(k)
    walk(T0.QMI_Transport)
    return [T0.QMI_Transport] + sorted((k for k in seen if k.__module__.startswith("qmi.")), key=lambda k: k.__name__)


def transport_guard_table() -> dict:
    """{"<Class>.<method>": GUARD | NOIO | UNGUARDED} for every I/O method a QMI_Transport (sub)class defines itself.

    GUARD: the first statement that is not pure is `self._check_is_open()`, or the method only delegates to I/O methods
    of self / super() (which are in this table themselves) before touching anything else.
    NOIO: the body only raises (abstract method).  UNGUARDED: anything else."""
    import textwrap
    out = {}
    for k in transport_classes():
        for m in TRANSPORT_IO_METHODS:
            if m not in k.__dict__ or not inspect.isfunction(k.__dict__[m]):
                continue
            try:
                fdef = ast.parse(textwrap.dedent(inspect.getsource(k.__dict__[m]))).body[0]
            except (OSError, TypeError, SyntaxError):
                out[f"{k.__name__}.{m}"] = "UNGUARDED"
                continue
            out[f"{k.__name__}.{m}"] = _first_effect(D.body_without_docstring(fdef))
    return out


def _delegates_only(st) -> bool:
    calls = [n for n in ast.walk(st) if isinstance(n, ast.Call)]
    deleg = False
    for c in calls:
        f = c.func
        if pure_call(c):
            continue
        if isinstance(f, ast.Attribute) and f.attr in TRANSPORT_IO_METHODS and (
                _is_self_attr(f) or (isinstance(f.value, ast.Call) and isinstance(f.value.func, ast.Name)
                                     and f.value.func.id == "super")):
            deleg = True
            continue
        return False
    if not deleg:
        return False
    # apart from the delegation nothing of `self` may be touched
    for n in ast.walk(st):
        if _is_self_attr(n) and n.attr not in TRANSPORT_IO_METHODS:
            return False
    return True


def _buffer_only(st) -> bool:
    """touches nothing of `self` but the software read buffer and class constants: no device access possible"""
    for n in ast.walk(st):
        if _is_self_attr(n) and not (n.attr == "_read_buffer" or n.attr.isupper()):
            return False
        if isinstance(n, ast.Name) and n.id == "self" and False:
            return False
    return not any(isinstance(n, (ast.Raise,)) for n in ast.walk(st)) or True


def _first_effect(stmts) -> str:
    for st in stmts:
        if isinstance(st, ast.Expr) and isinstance(st.value, ast.Constant):
            continue
        if not isinstance(st, (ast.Raise, ast.Try)) and _buffer_only(st):
            continue
        if isinstance(st, ast.Expr) and isinstance(st.value, ast.Call) and pure_call(st.value):
            continue
        if isinstance(st, ast.Raise):
            return "NOIO"
        if isinstance(st, ast.Expr) and isinstance(st.value, ast.Call) and _is_self_attr(st.value.func, "_check_is_open") \
                and not st.value.args:
            return "GUARD"
        if isinstance(st, ast.Try):
            return _first_effect(st.body)
        if _delegates_only(st):
            return "GUARD"
        return "UNGUARDED"
    return "NOIO"
