"""Shared machinery for the per-property checks (see DESIGN.md §2, §6).

A property module (harness/props/cXX.py) exposes a `PROP` object (subclass of
`Prop`).  `run_check` drives it:

  1. translators  -> lean/QmiModel/Gen/*.lean         (regenerated from /repo)
  2. lake build   -> Props/Audit modules + driver exe (theorems re-checked)
  3. axiom audit + forbidden-token grep
  4. correspondence model <-> implementation + property oracle on real traces
  5. triage: broken link => failing-input search => VIOLATION (with replay) or
     VIOLATION ... no-failing-input-found
  6. evidence/<id>.json
"""
from __future__ import annotations

import fcntl
import hashlib
import json
import os
import random
import re
import subprocess
import sys
import time
import traceback
from dataclasses import dataclass, field
from pathlib import Path
from typing import Any, Callable, Iterable, Optional, Sequence

VERIF = Path(__file__).resolve().parent.parent
LEAN = VERIF / "lean"
REPO = Path(os.environ.get("QMI_REPO", "/repo"))
EVIDENCE = VERIF / "evidence"
REPLAYS = VERIF / "out" / "replays"
KNOWN_FILE = VERIF / "known_findings.json"
GUARD = "QMI_VERIF"

ALLOWED_AXIOMS = {"propext", "Classical.choice", "Quot.sound"}
FORBIDDEN = re.compile(
    r"\bsorry\b|\badmit\b|^\s*axiom\s|native_decide|bv_decide|implemented_by|\bunsafe\s|maxHeartbeats\s+0\b",
    re.M,
)

TRUSTED_BASE = [
    "Lean 4.33.0 kernel; axioms limited to propext, Classical.choice, Quot.sound (audited by #print axioms on every run)",
    "no native_decide / bv_decide / sorry / own axioms (grep on every run); `decide +kernel` = kernel evaluation, no extra axiom",
    "the hand-written Lean model is tied to /repo by the correspondence harness (differential run on the same inputs); generators bound what it sees",
    "translators harness/tr_*.py (where used) and the harness itself",
    "CPython 3.12 semantics of the primitives the model mirrors",
]


def ensure_repo_on_path() -> None:
    p = str(REPO)
    if p not in sys.path:
        sys.path.insert(0, p)
    os.environ[GUARD] = "1"


# ---------------------------------------------------------------------------
# results
# ---------------------------------------------------------------------------

@dataclass
class Failure:
    """A concrete input on which the *implementation* violates the property."""
    signature: str                 # stable identity, matched against known_findings.json
    summary: str                   # one line for humans
    replay: dict                   # everything needed to re-run it


@dataclass
class Broken:
    """A link of the argument that no longer checks (proof obligation, translator, correspondence)."""
    stage: str                     # 'translator' | 'lean-build' | 'axiom-audit' | 'forbidden-token' | 'correspondence'
    name: str                      # theorem / module / translator / correspondence stream
    detail: str
    case: Optional[dict] = None    # the disagreeing input, if any


@dataclass
class Result:
    evaluations: int = 0
    distinct: set = field(default_factory=set)        # hashes of distinct non-trivial cases
    rule: str = ""
    samples: list = field(default_factory=list)
    distribution: dict = field(default_factory=dict)  # input distribution counters
    traces_validated: int = 0
    failures: list = field(default_factory=list)      # list[Failure]
    broken: list = field(default_factory=list)        # list[Broken]
    assumptions: list = field(default_factory=list)
    extra: dict = field(default_factory=dict)

    def count(self, key: str, n: int = 1) -> None:
        self.distribution[key] = self.distribution.get(key, 0) + n

    def note_case(self, case: Any, nontrivial: bool = True) -> None:
        self.evaluations += 1
        if nontrivial:
            h = hashlib.blake2b(repr(case).encode("utf8", "replace"), digest_size=8).digest()
            self.distinct.add(h)

    def sample(self, case: Any, limit: int = 5) -> None:
        if len(self.samples) < limit:
            self.samples.append(case)

    def merge(self, other: "Result") -> None:
        self.evaluations += other.evaluations
        self.distinct |= other.distinct
        if other.rule:
            self.rule = (self.rule + " | " + other.rule) if self.rule else other.rule
        for s in other.samples:
            self.sample(s, 8)
        for k, v in other.distribution.items():
            if isinstance(v, int):
                self.distribution[k] = self.distribution.get(k, 0) + v
            else:
                self.distribution[k] = v
        self.traces_validated += other.traces_validated
        self.failures += other.failures
        self.broken += other.broken
        self.assumptions += [a for a in other.assumptions if a not in self.assumptions]
        self.extra.update(other.extra)


class Ctx:
    def __init__(self, prop_id: str, tier: str, seed: int):
        self.prop_id = prop_id
        self.tier = tier
        self.seed = seed
        self.rng = random.Random(f"{prop_id}:{seed}")
        self.t0 = time.time()
        self.log_lines: list[str] = []

    @property
    def quick(self) -> bool:
        return self.tier == "quick"

    def scale(self, quick: int, thorough: int) -> int:
        return quick if self.quick else thorough

    def log(self, msg: str) -> None:
        line = f"[{self.prop_id} {time.time() - self.t0:6.1f}s] {msg}"
        self.log_lines.append(line)
        print(line, file=sys.stderr, flush=True)


class Prop:
    """Base class of a per-property check."""
    id: str = ""
    lean_modules: Sequence[str] = ()         # e.g. ["QmiModel.Props.C09"]
    props_files: Sequence[str] = ()          # files whose theorems are the obligations (default: Props/<id>.lean)
    driver: Optional[str] = None             # lean_exe target name
    extra_drivers: Sequence[str] = ()        # further lean_exe targets (composite checks)
    extra_trusted: Sequence[str] = ()
    modelled_not_verified: Sequence[str] = ()
    level: str = "proof"

    def translate(self, ctx: Ctx) -> list:
        """Regenerate Gen files from /repo. Return list of Gen file paths written. Raise on unknown source shapes."""
        return []

    def correspondence(self, ctx: Ctx) -> Result:
        raise NotImplementedError

    def search(self, ctx: Ctx, broken: list) -> Result:
        """Deeper failing-input search on the implementation, called when a link broke and no failure is known yet."""
        return Result()

    def replay(self, ctx: Ctx, replay: dict) -> Optional[Failure]:
        """Re-run a replay file; return the Failure if it still fails."""
        raise NotImplementedError


class CompositeProp(Prop):
    """A property decided by several independent parts (each a Prop-like object with its own model/driver)."""
    parts: Sequence[Prop] = ()

    def __init__(self):
        mods, files, drvs, mnv, et = [], [], [], [], []
        for p in self.parts:
            mods += [m for m in p.lean_modules if m not in mods]
            files += [f for f in (p.props_files or []) if f not in files]
            if p.driver and p.driver not in drvs:
                drvs.append(p.driver)
            drvs += [d for d in p.extra_drivers if d not in drvs]
            mnv += [x for x in p.modelled_not_verified if x not in mnv]
            et += [x for x in p.extra_trusted if x not in et]
        self.lean_modules, self.props_files = mods, files
        self.driver, self.extra_drivers = None, drvs
        self.modelled_not_verified, self.extra_trusted = mnv, et

    def translate(self, ctx):
        out = []
        for p in self.parts:
            out += p.translate(ctx) or []
        return out

    def _tag(self, i, r: Result) -> Result:
        for f in r.failures:
            f.replay = {"part": i, **f.replay}
        for b in r.broken:
            if b.case is not None:
                b.case = {"part": i, **b.case}
        return r

    def correspondence(self, ctx):
        res = Result()
        for i, p in enumerate(self.parts):
            try:
                res.merge(self._tag(i, p.correspondence(ctx)))
            except Exception as e:
                res.broken.append(Broken("correspondence", f"{self.id}.part{i}.harness",
                                         f"{type(e).__name__}: {e}\n{traceback.format_exc()[-2500:]}"))
        return res

    def search(self, ctx, broken):
        res = Result()
        for i, p in enumerate(self.parts):
            mine = [Broken(b.stage, b.name, b.detail, {k: v for k, v in b.case.items() if k != "part"} if b.case else None)
                    for b in broken if not b.case or b.case.get("part", i) == i]
            res.merge(self._tag(i, p.search(ctx, mine)))
        return res

    def replay(self, ctx, rp):
        i = rp.get("part", 0)
        return self.parts[i].replay(ctx, {k: v for k, v in rp.items() if k != "part"})


# ---------------------------------------------------------------------------
# Lean side
# ---------------------------------------------------------------------------

class _LakeLock:
    def __enter__(self):
        self.f = open(LEAN / ".lake.lock", "w")
        fcntl.flock(self.f, fcntl.LOCK_EX)
        return self

    def __exit__(self, *a):
        fcntl.flock(self.f, fcntl.LOCK_UN)
        self.f.close()


def lake_build(targets: Sequence[str], timeout: int = 3000) -> tuple[bool, str]:
    with _LakeLock():
        p = subprocess.run(["lake", "build", *targets], cwd=LEAN, capture_output=True, text=True, timeout=timeout)
    out = "\n".join(l for l in (p.stdout + p.stderr).splitlines() if not l.startswith("trace:"))
    return p.returncode == 0, out


_THM_RE = re.compile(r"^\s*(?:private\s+|protected\s+)?(?:theorem|lemma)\s+([A-Za-z_][\w.'!?]*)", re.M)
_NS_RE = re.compile(r"^\s*namespace\s+([\w.]+)", re.M)


def strip_lean_comments(src: str) -> str:
    out = []
    i, n, depth = 0, len(src), 0
    while i < n:
        if src.startswith("/-", i):
            depth += 1
            i += 2
        elif depth and src.startswith("-/", i):
            depth -= 1
            i += 2
        elif depth:
            if src[i] == "\n":
                out.append("\n")
            i += 1
        elif src.startswith("--", i):
            j = src.find("\n", i)
            i = n if j < 0 else j
        else:
            out.append(src[i])
            i += 1
    return "".join(out)


def theorems_of(path: Path) -> list[str]:
    """Fully-qualified names of the non-private theorems stated in a Lean file (single top-level namespace)."""
    src = strip_lean_comments(path.read_text())
    ns = _NS_RE.search(src)
    prefix = (ns.group(1) + ".") if ns else ""
    names = []
    for m in re.finditer(r"^\s*(private\s+)?(?:protected\s+)?(?:theorem|lemma)\s+([A-Za-z_][\w.'!?]*)", src, re.M):
        if m.group(1):
            continue
        names.append(prefix + m.group(2))
    return names


def forbidden_tokens(paths: Iterable[Path]) -> list[str]:
    hits = []
    for p in paths:
        src = strip_lean_comments(p.read_text())
        for m in FORBIDDEN.finditer(src):
            line = src.count("\n", 0, m.start()) + 1
            hits.append(f"{p.relative_to(VERIF)}:{line}: {m.group(0).strip()}")
    return hits


def lean_sources_for(modules: Sequence[str]) -> list[Path]:
    """All project-local source files reachable by import from the given modules."""
    seen: dict[str, Path] = {}
    todo = list(modules)
    while todo:
        m = todo.pop()
        if m in seen:
            continue
        p = LEAN / (m.replace(".", "/") + ".lean")
        if not p.exists():
            continue
        seen[m] = p
        for im in re.findall(r"^\s*import\s+([\w.]+)", p.read_text(), re.M):
            if im.startswith("QmiModel") or im.startswith("Drv"):
                todo.append(im)
    return list(seen.values())


def axiom_audit(prop_id: str, modules: Sequence[str], thms: Sequence[str]) -> tuple[dict, str]:
    """Run `#print axioms` for every theorem; returns {theorem: [axioms]} and raw output."""
    audit_dir = LEAN / "QmiModel" / "Audit"
    audit_dir.mkdir(exist_ok=True)
    f = audit_dir / f"{prop_id}.lean"
    body = "".join(f"import {m}\n" for m in modules) + "".join(f"#print axioms {t}\n" for t in thms)
    if not f.exists() or f.read_text() != body:
        f.write_text(body)
    with _LakeLock():
        p = subprocess.run(["lake", "env", "lean", str(f)], cwd=LEAN, capture_output=True, text=True, timeout=1200)
    out = p.stdout + p.stderr
    res: dict[str, list[str]] = {}
    # "'X' depends on axioms: [a, b]"  /  "'X' does not depend on any axioms"
    for m in re.finditer(r"'([^']+)' depends on axioms: \[([^\]]*)\]", out.replace("\n ", " ").replace("\n", " ")):
        res[m.group(1)] = [a.strip() for a in m.group(2).split(",") if a.strip()]
    for m in re.finditer(r"'([^']+)' does not depend on any axioms", out):
        res[m.group(1)] = []
    return res, out


class LeanDriver:
    """Run a compiled model driver over a batch of lines; one output line per input line."""

    def __init__(self, target: str):
        self.target = target
        self.exe = LEAN / ".lake" / "build" / "bin" / target

    def run(self, lines: Sequence[str], timeout: int = 600) -> list[str]:
        data = "".join(l + "\n" for l in lines)
        p = subprocess.run([str(self.exe)], input=data, capture_output=True, text=True, timeout=timeout)
        if p.returncode != 0:
            raise RuntimeError(f"driver {self.target} exited {p.returncode}: {p.stderr[:500]}")
        out = p.stdout.split("\n")
        if out and out[-1] == "":
            out.pop()
        if len(out) != len(lines):
            raise RuntimeError(f"driver {self.target}: {len(lines)} lines in, {len(out)} lines out")
        return out


def diff_streams(ops: Sequence[str], impl: Sequence[str], model: Sequence[str]) -> Optional[int]:
    for i, (a, b) in enumerate(zip(impl, model)):
        if a != b:
            return i
    if len(impl) != len(model):
        return min(len(impl), len(model))
    return None


def write_if_changed(path: Path, text: str) -> bool:
    if path.exists() and path.read_text() == text:
        return False
    path.parent.mkdir(parents=True, exist_ok=True)
    path.write_text(text)
    return True


# ---------------------------------------------------------------------------
# known findings, replay files, evidence
# ---------------------------------------------------------------------------

def load_known() -> dict:
    k = {"findings": [], "fixed": []}
    if KNOWN_FILE.exists():
        k = json.loads(KNOWN_FILE.read_text())
    # fragments written by per-property builders; merged into known_findings.json by the integrator
    d = VERIF / "known_findings.d"
    if d.is_dir():
        for f in sorted(d.glob("*.json")):
            frag = json.loads(f.read_text())
            k["findings"] += [x for x in frag.get("findings", []) if x not in k["findings"]]
            k["fixed"] += [x for x in frag.get("fixed", []) if x not in k["fixed"]]
    return k


def known_match(prop_id: str, signature: str) -> Optional[dict]:
    for k in load_known().get("findings", []):
        # part checks (C15A, C15B) share the findings of their property (C15)
        if (k["property"] == prop_id or prop_id.startswith(k["property"])) and k["signature"] == signature:
            return k
    return None


def write_replay(prop_id: str, tag: str, payload: dict) -> Path:
    REPLAYS.mkdir(parents=True, exist_ok=True)
    h = hashlib.blake2b(json.dumps(payload, sort_keys=True, default=repr).encode(), digest_size=5).hexdigest()
    p = REPLAYS / f"{prop_id}-{tag}-{h}.json"
    p.write_text(json.dumps(payload, indent=1, sort_keys=True, default=repr))
    return p


def jsonable(x: Any) -> Any:
    try:
        json.dumps(x)
        return x
    except TypeError:
        if isinstance(x, dict):
            return {str(k): jsonable(v) for k, v in x.items()}
        if isinstance(x, (list, tuple, set)):
            return [jsonable(v) for v in x]
        return repr(x)


def write_evidence(prop: Prop, ctx: Ctx, res: Result, obligations: int, discharged: int,
                   checker_cmd: str, violations: int, axioms_used: list, notes: dict) -> None:
    EVIDENCE.mkdir(exist_ok=True)
    distinct = len(res.distinct)
    ev = {
        "property_id": prop.id,
        "tier": ctx.tier,
        "seed": ctx.seed,
        "level": prop.level,
        "coverage": {
            "obligations": obligations,
            "discharged": discharged,
            "checker_cmd": checker_cmd,
            "trusted_base": TRUSTED_BASE + list(prop.extra_trusted),
            "axioms_used": axioms_used,
            "evaluations": res.evaluations,
            "distinct_nontrivial": distinct,
            "rule": res.rule,
            "samples": jsonable(res.samples) or ["(no samples: the run stopped before the correspondence stage)"],
            "traces_validated_against_impl": res.traces_validated,
            "input_distribution": jsonable(res.distribution),
            "modelled_not_verified": list(prop.modelled_not_verified),
            "broken_links": [f"{b.stage}:{b.name}" for b in res.broken],
            **jsonable(notes),
            **jsonable(res.extra),
        },
        "assumptions": TRUSTED_BASE + list(prop.extra_trusted) + list(res.assumptions),
        "wall_s": round(time.time() - ctx.t0, 2),
        "violations": violations,
    }
    (EVIDENCE / f"{prop.id}.json").write_text(json.dumps(ev, indent=1, default=repr))


# ---------------------------------------------------------------------------
# the driver
# ---------------------------------------------------------------------------

def run_check(prop: Prop, tier: str, seed: int) -> int:
    # two runs of the same property (e.g. against different QMI_REPO trees) must not interleave: they regenerate
    # the same Gen/*.lean files and rewrite the same evidence file
    lockf = open(LEAN / f".check_{prop.id}.lock", "w")
    fcntl.flock(lockf, fcntl.LOCK_EX)
    try:
        return _run_check(prop, tier, seed)
    finally:
        fcntl.flock(lockf, fcntl.LOCK_UN)
        lockf.close()


def _run_check(prop: Prop, tier: str, seed: int) -> int:
    ensure_repo_on_path()
    ctx = Ctx(prop.id, tier, seed)
    res = Result()
    broken: list[Broken] = []
    notes: dict = {}

    # 1. translators
    try:
        gen = prop.translate(ctx)
        if gen:
            notes["generated_files"] = [str(Path(g).relative_to(VERIF)) for g in gen]
    except Exception as e:  # a translator that does not understand the source fails loudly
        broken.append(Broken("translator", f"{prop.id}.translate", f"{type(e).__name__}: {e}\n{traceback.format_exc()[-1500:]}"))

    # 2. build
    props_files = [LEAN / f for f in (prop.props_files or [f"QmiModel/Props/{prop.id}.lean"])]
    thms: list[str] = []
    for f in props_files:
        if f.exists():
            thms += theorems_of(f)
    drivers = ([prop.driver] if prop.driver else []) + list(prop.extra_drivers)
    targets = list(prop.lean_modules) + drivers
    build_ok, build_out = lake_build(targets)
    driver_ok = True
    if not build_ok:
        errs = [l for l in build_out.splitlines() if "error" in l.lower()][:12]
        failed_mods = re.findall(r"^- (\S+)", build_out, re.M)
        broken.append(Broken("lean-build", ",".join(failed_mods) or "lake build", "\n".join(errs) or build_out[-1500:]))
        # the driver may still be buildable even if a Props module is not
        if drivers:
            driver_ok, _ = lake_build(drivers)
    ctx.log(f"lake build {'ok' if build_ok else 'FAILED'} ({len(thms)} theorems stated)")

    # 3. audit
    discharged = 0
    axioms_used: set[str] = set()
    srcs = lean_sources_for(list(prop.lean_modules) + [f"Drv.{d[4:].upper()}" if d.startswith("drv_") else d for d in drivers])
    hits = forbidden_tokens(srcs)
    if hits:
        broken.append(Broken("forbidden-token", hits[0], "\n".join(hits)))
    if build_ok:
        ax, raw = axiom_audit(prop.id, list(prop.lean_modules), thms)
        for t in thms:
            if t not in ax:
                broken.append(Broken("axiom-audit", t, "no `#print axioms` answer for this theorem:\n" + raw[-800:]))
            elif not set(ax[t]) <= ALLOWED_AXIOMS:
                broken.append(Broken("axiom-audit", t, f"depends on {ax[t]}"))
            else:
                discharged += 1
                axioms_used |= set(ax[t])
        ctx.log(f"axiom audit: {discharged}/{len(thms)} theorems within {sorted(ALLOWED_AXIOMS)}")
    notes["theorems"] = thms
    # thorough tier: independent re-check of the compiled theorems by leanchecker
    if build_ok and tier == "thorough" and prop.lean_modules:
        try:
            with _LakeLock():
                lc = subprocess.run(["lake", "env", "leanchecker", *prop.lean_modules], cwd=LEAN, capture_output=True,
                                    text=True, timeout=3000)
            notes["leanchecker"] = {"modules": list(prop.lean_modules), "exit": lc.returncode}
            if lc.returncode != 0 or "uncaught exception" in (lc.stdout + lc.stderr) or "error" in lc.stderr.lower():
                broken.append(Broken("leanchecker", ",".join(prop.lean_modules), (lc.stdout + lc.stderr)[-1200:]))
            ctx.log(f"leanchecker on {len(prop.lean_modules)} module(s): exit {lc.returncode}")
        except Exception as e:
            broken.append(Broken("leanchecker", ",".join(prop.lean_modules), f"{type(e).__name__}: {e}"))

    # 4. correspondence + oracle
    if driver_ok:
        try:
            r = prop.correspondence(ctx)
            res.merge(r)
        except Exception as e:
            broken.append(Broken("correspondence", f"{prop.id}.harness", f"{type(e).__name__}: {e}\n{traceback.format_exc()[-2500:]}"))
    else:
        broken.append(Broken("correspondence", f"{prop.id}.driver", "model driver does not build"))
    res.broken = broken + res.broken

    # 5. triage
    # failures already listed as known findings do not explain a broken link: keep searching in that case
    if res.broken and not [f for f in res.failures if known_match(prop.id, f.signature) is None]:
        ctx.log("a link is broken (%s); searching the implementation for a failing input" %
                ", ".join(f"{b.stage}:{b.name}" for b in res.broken))
        try:
            s = prop.search(ctx, res.broken)
            s.broken = []
            res.merge(s)
        except Exception as e:
            ctx.log(f"search crashed: {type(e).__name__}: {e}")
            notes["search_error"] = traceback.format_exc()[-1500:]

    violations = 0
    lines: list[str] = []
    seen_sig = set()
    unknown_failures = []
    for f in res.failures:
        if f.signature in seen_sig:
            continue
        seen_sig.add(f.signature)
        k = known_match(prop.id, f.signature)
        if k is not None:
            lines.append(f"KNOWN-FINDING: property={prop.id} {k['text']}")
        else:
            unknown_failures.append(f)
    for f in unknown_failures:
        path = write_replay(prop.id, "fail", {"property": prop.id, "signature": f.signature, "summary": f.summary,
                                              "seed": seed, "tier": tier, "replay": f.replay,
                                              "broken_links": [f"{b.stage}:{b.name}: {b.detail[:400]}" for b in res.broken]})
        lines.append(f"VIOLATION property={prop.id} replay={path.relative_to(VERIF)}")
        ctx.log(f"failing input: {f.summary}")
        violations += 1
    if res.broken and not unknown_failures:
        # a broken link that is fully explained by known findings is still broken: the property is not shown to hold
        path = write_replay(prop.id, "broken", {
            "property": prop.id, "seed": seed, "tier": tier,
            "no_longer_checks": [{"stage": b.stage, "name": b.name, "detail": b.detail, "case": jsonable(b.case)} for b in res.broken],
            "searched": res.evaluations,
        })
        lines.append(f"VIOLATION property={prop.id} replay={path.relative_to(VERIF)} no-failing-input-found")
        violations += 1

    notes["known_findings_hit"] = [l for l in lines if l.startswith("KNOWN")]
    write_evidence(prop, ctx, res, obligations=max(len(thms), 1), discharged=discharged,
                   checker_cmd=f"cd lean && lake build {' '.join(targets)} && lake env lean QmiModel/Audit/{prop.id}.lean",
                   violations=violations, axioms_used=sorted(axioms_used), notes=notes)
    for l in lines:
        print(l, flush=True)
    if violations:
        for b in res.broken:
            print(f"  broken: {b.stage}: {b.name}: {b.detail[:600]}", file=sys.stderr)
        return 1
    print(f"OK property={prop.id} tier={tier} seed={seed} theorems={discharged}/{len(thms)} "
          f"cases={res.evaluations} distinct={len(res.distinct)} wall={time.time() - ctx.t0:.1f}s", flush=True)
    return 0


def run_replay(prop: Prop, path: str) -> int:
    ensure_repo_on_path()
    payload = json.loads(Path(path).read_text())
    ctx = Ctx(prop.id, "quick", int(payload.get("seed", 0)))
    if "replay" not in payload:
        print(f"replay file names broken links only: {[b['name'] for b in payload.get('no_longer_checks', [])]}")
        return run_check(prop, "quick", ctx.seed)
    f = prop.replay(ctx, payload["replay"])
    if f is None:
        print(f"replay passes: property={prop.id} holds on this input now")
        return 0
    print(f"VIOLATION property={prop.id} replay={path}")
    print(f"  {f.summary}", file=sys.stderr)
    return 1
