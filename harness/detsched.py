"""Deterministic baton-passing scheduler for real Python threads + virtual clock (DESIGN §2.3).

Exactly one managed thread runs at a time.  `threading.Lock/RLock/Condition/Event` and `time` are replaced,
*inside the named QMI modules only*, by cooperative versions whose operations are yield points; `QMI_Thread.start/join`
are wrapped so that new threads register with the scheduler.  No edit to /repo.

    sched = Sched(seed, policy="weighted"|"pct")
    with patched(sched):                       # module attributes swapped, restored on exit
        outcome = sched.run(scenario_fn)       # scenario_fn runs as the managed thread "main"

A state in which no thread can run and no timed wait is pending is a **deadlock**: `Deadlock` is raised in "main"
(every other thread is unwound with `SchedAbort`).  Timed waits fire only when nothing else is runnable (unless
`eager_timeouts > 0`), advancing the virtual clock to the deadline.
"""
from __future__ import annotations

import contextlib
import random
import sys
import threading as _rt
import time as _rtime
import types
from typing import Callable, Optional


class SchedAbort(BaseException):
    """Raised inside managed threads to unwind them when a run is torn down."""


class Deadlock(SchedAbort):
    pass


class StepBudget(SchedAbort):
    pass


SCHED: Optional["Sched"] = None


class TState:
    __slots__ = ("name", "go", "blocked_on", "done", "deadline", "timed_out", "prio", "weight", "thread", "steps", "label")

    def __init__(self, name: str):
        self.name = name
        self.go = _rt.Semaphore(0)
        self.blocked_on: Optional[Callable[[], bool]] = None
        self.done = False
        self.deadline: Optional[float] = None
        self.timed_out = False
        self.prio = 0.0
        self.weight = 1.0
        self.thread = None
        self.steps = 0
        self.label = ""


class Sched:
    def __init__(self, seed, policy: str = "weighted", max_steps: int = 200000, eager_timeouts: float = 0.0,
                 pct_depth: int = 2, pct_horizon: int = 400, change_points: Optional[list] = None,
                 trace_codes: Optional[set] = None):
        self.rng = random.Random(seed)
        self.policy = policy
        self.threads: dict[int, TState] = {}
        self.order: list[TState] = []
        self.steps = 0
        self.max_steps = max_steps
        self.now = 1000.0
        self.eager_timeouts = eager_timeouts
        self.aborting = False
        self.deadlock: Optional[str] = None
        self.budget_exceeded = False
        self.events: list = []            # linearised event log written by harness taps
        self.choices: list = []           # thread names chosen at each decision with >1 candidate
        self.change_points = set(change_points if change_points is not None else
                                 (self.rng.sample(range(1, pct_horizon), min(pct_depth, pct_horizon - 1))
                                  if policy == "pct" else []))
        self.trace_codes = trace_codes or set()
        self._low = 0.0
        self.main: Optional[TState] = None
        self.errors: list = []            # exceptions that escaped managed threads (name, exc)

    # -- registration -----------------------------------------------------
    def _new_ts(self, name: str) -> TState:
        ts = TState(f"{name}#{len(self.order)}")
        ts.weight = 10 ** self.rng.uniform(-1.5, 1.5)
        ts.prio = self.rng.random() + 1.0
        self.order.append(ts)
        return ts

    def me(self) -> Optional[TState]:
        return self.threads.get(_rt.get_ident())

    def log(self, *ev) -> None:
        self.events.append(ev)

    # -- the scheduling decision -------------------------------------------
    def _candidates(self):
        ready, timed = [], []
        for ts in self.order:
            if ts.done:
                continue
            if ts.blocked_on is None or ts.blocked_on():
                ready.append(ts)
            elif ts.deadline is not None:
                timed.append(ts)
        return ready, timed

    def _pick(self, ready, timed, me):
        if ready and timed and self.eager_timeouts and self.rng.random() < self.eager_timeouts:
            ts = self.rng.choice(timed)
            return ts, True
        if ready:
            if len(ready) == 1:
                return ready[0], False
            if self.policy == "pct":
                if self.steps in self.change_points and me is not None and me in ready:
                    self._low -= 1.0
                    me.prio = self._low
                ts = max(ready, key=lambda t: t.prio)
            else:
                ts = self.rng.choices(ready, weights=[t.weight for t in ready])[0]
            self.choices.append(ts.name)
            return ts, False
        if timed:
            # nothing else can run: the earliest deadline fires
            ts = min(timed, key=lambda t: (t.deadline, t.name))
            return ts, True
        return None, False

    def _abort_all(self, reason: str, kind: str) -> None:
        self.aborting = True
        if kind == "deadlock" and self.deadlock is None:
            self.deadlock = reason
        if kind == "budget":
            self.budget_exceeded = True
        for ts in self.order:
            if not ts.done:
                ts.go.release()

    def _raise_abort(self, me: TState):
        if me is self.main:
            if self.deadlock is not None:
                raise Deadlock(self.deadlock)
            if self.budget_exceeded:
                raise StepBudget("step budget exceeded")
        raise SchedAbort()

    def yield_point(self, label: str, blocked_on: Optional[Callable[[], bool]] = None,
                    timeout: Optional[float] = None) -> bool:
        """Called by the running thread at every synchronisation operation.  Returns False iff it was woken by timeout."""
        me = self.me()
        if me is None:
            # unmanaged thread (should not happen inside a run); degrade to spinning on the predicate
            if blocked_on is not None:
                t0 = _rtime.monotonic()
                while not blocked_on():
                    if timeout is not None and _rtime.monotonic() - t0 > min(timeout, 0.05):
                        return False
                    _rtime.sleep(0.0005)
            return True
        if self.aborting:
            if blocked_on is not None and not blocked_on():
                self._raise_abort(me)
            return True
        me.blocked_on = blocked_on
        me.deadline = None if timeout is None else self.now + max(0.0, timeout)
        me.timed_out = False
        me.label = label
        me.steps += 1
        self.steps += 1
        if self.steps > self.max_steps:
            self._abort_all("step budget", "budget")
            self._raise_abort(me)
        ready, timed = self._candidates()
        ts, by_timeout = self._pick(ready, timed, me)
        if ts is None:
            desc = "; ".join(f"{t.name}@{t.label}" for t in self.order if not t.done)
            self._abort_all(f"no runnable thread (at {label} in {me.name}): {desc}", "deadlock")
            self._raise_abort(me)
        if by_timeout:
            self.now = max(self.now, ts.deadline)
            ts.timed_out = True
            ts.blocked_on = None
            ts.deadline = None
        if ts is not me:
            ts.go.release()
            me.go.acquire()
            if self.aborting:
                # released by a tear-down (deadlock, budget, end of run), not by a scheduling decision: unwind
                me.blocked_on = None
                self._raise_abort(me)
        me.blocked_on = None
        me.deadline = None
        return not me.timed_out

    def _thread_exit(self, me: TState) -> None:
        me.done = True
        if self.aborting:
            return
        ready, timed = self._candidates()
        ts, by_timeout = self._pick(ready, timed, None)
        if ts is None:
            if any(not t.done for t in self.order):
                desc = "; ".join(f"{t.name}@{t.label}" for t in self.order if not t.done)
                self._abort_all(f"no runnable thread (after exit of {me.name}): {desc}", "deadlock")
            return
        if by_timeout:
            self.now = max(self.now, ts.deadline)
            ts.timed_out = True
            ts.blocked_on = None
            ts.deadline = None
        ts.go.release()

    # -- threads -------------------------------------------------------------
    def spawn(self, fn: Callable[[], None], name: str = "t") -> "ManagedThread":
        th = ManagedThread(self, fn, name)
        th.start()
        return th

    def _start_thread(self, thread: _rt.Thread, name: str, orig_start) -> None:
        ts = self._new_ts(name)
        ts.thread = thread
        registered = _rt.Event()
        orig_run = thread.run
        sched = self

        def run():
            sched.threads[_rt.get_ident()] = ts
            if sched.trace_codes:
                sys.settrace(sched._tracer)
            registered.set()
            ts.go.acquire()
            try:
                if sched.aborting:
                    return
                orig_run()
            except SchedAbort:
                pass
            except BaseException as e:  # noqa - recorded, a thread dying of an exception is an observation
                sched.errors.append((ts.name, e))
            finally:
                sys.settrace(None)
                sched._thread_exit(ts)

        thread.run = run
        thread._ds_ts = ts
        orig_start(thread)
        registered.wait()
        self.yield_point("thread.start")

    def _join_thread(self, thread: _rt.Thread, timeout, orig_join) -> None:
        ts = getattr(thread, "_ds_ts", None)
        if ts is None:
            return orig_join(thread, timeout)
        self.yield_point("thread.join", blocked_on=lambda: ts.done, timeout=timeout)
        if ts.done:
            orig_join(thread, 5.0)

    # -- line-level yield points inside selected functions ---------------------
    def _tracer(self, frame, event, arg):
        if frame.f_code in self.trace_codes:
            return self._line_tracer
        return None

    def _line_tracer(self, frame, event, arg):
        if event == "line" and not self.aborting:
            self.yield_point(f"line:{frame.f_code.co_name}:{frame.f_lineno}")
        return self._line_tracer

    # -- running a scenario ------------------------------------------------------
    def run(self, fn: Callable[[], object]):
        """Run `fn` as the managed thread "main".  Returns fn's value; raises Deadlock / StepBudget."""
        global SCHED
        assert SCHED is None, "nested scheduler runs are not supported"
        SCHED = self
        ts = self._new_ts("main")
        ts.thread = _rt.current_thread()
        self.main = ts
        self.threads[_rt.get_ident()] = ts
        if self.trace_codes:
            sys.settrace(self._tracer)
        try:
            return fn()
        finally:
            sys.settrace(None)
            ts.done = True
            self._abort_all("run finished", "end")
            for t in self.order:
                th = t.thread
                if th is not None and th is not _rt.current_thread() and th.is_alive():
                    _rt.Thread.join(th, 2.0)
            self.threads.pop(_rt.get_ident(), None)
            SCHED = None


class ManagedThread(_rt.Thread):
    def __init__(self, sched: Sched, fn, name):
        super().__init__(daemon=True)
        self._sched = sched
        self._fn = fn
        self._nm = name
        self.exc: Optional[BaseException] = None
        self.value = None

    def run(self):
        try:
            self.value = self._fn()
        except SchedAbort:
            raise
        except BaseException as e:  # noqa
            self.exc = e

    def start(self):
        self._sched._start_thread(self, self._nm, _rt.Thread.start)

    def join(self, timeout=None):
        self._sched._join_thread(self, timeout, _rt.Thread.join)

    @property
    def finished(self) -> bool:
        return self._ds_ts.done


# ---------------------------------------------------------------------------
# cooperative primitives
# ---------------------------------------------------------------------------

def _s() -> Sched:
    s = SCHED
    if s is None:
        raise RuntimeError("cooperative primitive used outside a scheduler run")
    return s


class Lock:
    def __init__(self):
        self._owner = None

    def acquire(self, blocking: bool = True, timeout: float = -1):
        s = _s()
        if not blocking:
            s.yield_point("lock.try")
            if self._owner is None:
                self._owner = _rt.get_ident()
                return True
            return False
        ok = s.yield_point("lock.acquire", blocked_on=lambda: self._owner is None,
                           timeout=None if timeout is None or timeout < 0 else timeout)
        if not ok:
            return False
        self._owner = _rt.get_ident()
        return True

    def release(self):
        s = _s()
        if self._owner is None:
            if s.aborting:
                return
            raise RuntimeError("release unlocked lock")
        self._owner = None
        s.yield_point("lock.release")

    def locked(self):
        return self._owner is not None

    def __enter__(self):
        self.acquire()
        return True

    def __exit__(self, *a):
        self.release()

    # protocol used by Condition
    def _release_save(self):
        self._owner = None
        return None

    def _acquire_restore(self, state):
        self._owner = _rt.get_ident()

    def _is_owned(self):
        return self._owner == _rt.get_ident()


class RLock(Lock):
    def __init__(self):
        self._owner = None
        self._count = 0

    def acquire(self, blocking: bool = True, timeout: float = -1):
        me = _rt.get_ident()
        if self._owner == me:
            self._count += 1
            return True
        s = _s()
        if not blocking:
            s.yield_point("rlock.try")
            if self._owner is None:
                self._owner, self._count = me, 1
                return True
            return False
        ok = s.yield_point("rlock.acquire", blocked_on=lambda: self._owner is None,
                           timeout=None if timeout is None or timeout < 0 else timeout)
        if not ok:
            return False
        self._owner, self._count = me, 1
        return True

    def release(self):
        if self._owner != _rt.get_ident():
            if _s().aborting:
                return
            raise RuntimeError("cannot release un-acquired lock")
        self._count -= 1
        if self._count == 0:
            self._owner = None
            _s().yield_point("rlock.release")

    def _release_save(self):
        st = self._count
        self._owner, self._count = None, 0
        return st

    def _acquire_restore(self, state):
        self._owner, self._count = _rt.get_ident(), state


class Condition:
    def __init__(self, lock=None):
        self._lock = lock if lock is not None else RLock()
        self._waiters: list = []

    def acquire(self, *a, **k):
        return self._lock.acquire(*a, **k)

    def release(self):
        return self._lock.release()

    def __enter__(self):
        return self._lock.__enter__()

    def __exit__(self, *a):
        return self._lock.__exit__(*a)

    def wait(self, timeout=None):
        if not self._lock._is_owned():
            raise RuntimeError("cannot wait on un-acquired lock")
        s = _s()
        tok = [False]
        self._waiters.append(tok)
        saved = self._lock._release_save()          # atomic release-and-park
        try:
            ok = s.yield_point("cond.wait", blocked_on=lambda: tok[0], timeout=timeout)
        finally:
            if tok in self._waiters:
                self._waiters.remove(tok)
            if not s.aborting:
                s.yield_point("cond.reacquire", blocked_on=lambda: self._lock._owner is None)
            self._lock._acquire_restore(saved)
        return ok

    def wait_for(self, predicate, timeout=None):
        s = _s()
        end = None if timeout is None else s.now + timeout
        r = predicate()
        while not r:
            if end is not None:
                rem = end - s.now
                if rem <= 0:
                    break
                self.wait(rem)
            else:
                self.wait(None)
            r = predicate()
        return r

    def notify(self, n=1):
        if not self._lock._is_owned():
            raise RuntimeError("cannot notify on un-acquired lock")
        for tok in self._waiters[:n]:
            tok[0] = True
        del self._waiters[:n]

    def notify_all(self):
        self.notify(len(self._waiters))

    notifyAll = notify_all


class Event:
    def __init__(self):
        self._flag = False

    def is_set(self):
        return self._flag

    isSet = is_set

    def set(self):
        self._flag = True
        _s().yield_point("event.set")

    def clear(self):
        self._flag = False

    def wait(self, timeout=None):
        if self._flag:
            _s().yield_point("event.check")
            return True
        _s().yield_point("event.wait", blocked_on=lambda: self._flag, timeout=timeout)
        return self._flag


class _ThreadingShim(types.ModuleType):
    def __init__(self):
        super().__init__("threading")
        self.Lock = Lock
        self.RLock = RLock
        self.Condition = Condition
        self.Event = Event

    def __getattr__(self, k):
        return getattr(_rt, k)


class _TimeShim(types.ModuleType):
    def __init__(self):
        super().__init__("time")

    def monotonic(self):
        s = SCHED
        return s.now if s is not None else _rtime.monotonic()

    def time(self):
        s = SCHED
        return (1.7e9 + s.now) if s is not None else _rtime.time()

    def perf_counter(self):
        return self.monotonic()

    def sleep(self, d):
        s = SCHED
        if s is None or s.me() is None:
            return _rtime.sleep(min(d, 0.01))
        s.yield_point("time.sleep", blocked_on=lambda: False, timeout=max(0.0, d))

    def __getattr__(self, k):
        return getattr(_rtime, k)


THREADING_SHIM = _ThreadingShim()
TIME_SHIM = _TimeShim()

DEFAULT_MODULES = ("qmi.core.rpc", "qmi.core.task", "qmi.core.pubsub", "qmi.core.messaging",
                   "qmi.core.context", "qmi.core.util", "qmi.core.thread")


@contextlib.contextmanager
def patched(extra_modules=(), modules=DEFAULT_MODULES, patch_time: bool = True):
    """Swap `threading`/`time` attributes inside the QMI modules and wrap QMI_Thread.start/join."""
    import importlib
    from qmi.core.thread import QMI_Thread
    saved = []
    for name in tuple(modules) + tuple(extra_modules):
        mod = importlib.import_module(name)
        if hasattr(mod, "threading"):
            saved.append((mod, "threading", mod.threading))
            mod.threading = THREADING_SHIM
        if patch_time and hasattr(mod, "time") and isinstance(getattr(mod, "time"), types.ModuleType):
            saved.append((mod, "time", mod.time))
            mod.time = TIME_SHIM
    orig_start, orig_join = QMI_Thread.start, QMI_Thread.join

    def start(self):
        s = SCHED
        if s is None:
            return orig_start(self)
        s._start_thread(self, type(self).__name__, _rt.Thread.start)

    def join(self, timeout=None):
        s = SCHED
        if s is None:
            return orig_join(self, timeout)
        s._join_thread(self, timeout, _rt.Thread.join)

    QMI_Thread.start, QMI_Thread.join = start, join
    try:
        yield
    finally:
        QMI_Thread.start, QMI_Thread.join = orig_start, orig_join
        for mod, attr, val in reversed(saved):
            setattr(mod, attr, val)
