"""In-memory sockets + simulated asyncio event loop, driven by harness.detsched (DESIGN §2.3).

Inside `qmi.core.messaging` (only) the module attributes `socket` and `asyncio` are replaced.  QMI's own
`_EventDrivenThread`, `_SocketManager`, `_PeerTcpConnection`, `_TcpServer`, `_UdpResponder` stay real.

* `SimLoop.run_forever` behaves like asyncio's: per iteration it snapshots the ready queue, runs those callbacks,
  polls readers, and leaves after the iteration in which `stop()` ran — callbacks queued later are dropped exactly as
  asyncio drops them.  An exception escaping a callback is contained and recorded (`Net.loop_exceptions`), as
  asyncio's default exception handler would log it.
* `SimSocket.recv(n)` returns `k ≤ n` bytes with `k` chosen by the PRNG (segmentation down to one byte).
"""
from __future__ import annotations

import collections
import contextlib
import socket as _rs
import types
from typing import Optional

from harness import detsched as D

NET: Optional["Net"] = None


class Net:
    def __init__(self, rng, split_prob: float = 0.7):
        self.rng = rng
        self.listeners: dict[int, "SimSocket"] = {}
        self.udp: dict[int, list] = {}
        self.socks: dict[int, "SimSocket"] = {}
        self.nextfd = 1000
        self.nextport = 40000
        self.split_prob = split_prob
        self.loop_exceptions: list = []
        self.busy_ports: set[int] = set()       # ports on which bind() fails with EADDRINUSE
        self.send_fail: set[int] = set()        # fds whose next sendall raises OSError
        self.loops: list = []


class SimSocket:
    def __init__(self, family=None, type=None, *a, **k):
        net = NET
        self.net = net
        self.kind = "udp" if type == _rs.SOCK_DGRAM else "tcp"
        self.fd = net.nextfd
        net.nextfd += 1
        net.socks[self.fd] = self
        self.inbuf = bytearray()
        self.peer: Optional[SimSocket] = None
        self.closed = False
        self.peer_closed = False
        self.accept_q: collections.deque = collections.deque()
        self.listening = False
        self.addr = ("127.0.0.1", 0)
        self.timeout = None
        self.dgrams: collections.deque = collections.deque()

    # -- options ----------------------------------------------------------
    def setsockopt(self, *a):
        pass

    def setblocking(self, b):
        self.timeout = None if b else 0

    def settimeout(self, t):
        self.timeout = t

    def gettimeout(self):
        return self.timeout

    def fileno(self):
        return self.fd

    def getsockname(self):
        return self.addr

    def getpeername(self):
        if self.peer is None:
            raise OSError(107, "Transport endpoint is not connected")
        return self.peer.addr

    # -- server side -----------------------------------------------------------
    def bind(self, addr):
        port = addr[1]
        if port == 0:
            port = self.net.nextport
            self.net.nextport += 1
        if self.kind == "tcp" and (port in self.net.listeners or port in self.net.busy_ports):
            raise OSError(98, "Address already in use")
        self.addr = ("0.0.0.0", port)
        if self.kind == "udp":
            self.net.udp.setdefault(port, []).append(self)

    def listen(self, n):
        self.listening = True
        self.net.listeners[self.addr[1]] = self

    def accept(self):
        if not self.accept_q:
            raise BlockingIOError()
        s = self.accept_q.popleft()
        return s, s.peer.addr

    # -- data ------------------------------------------------------------------
    def readable(self) -> bool:
        if self.closed:
            return False
        if self.listening:
            return bool(self.accept_q)
        if self.kind == "udp":
            return bool(self.dgrams)
        return bool(self.inbuf) or self.peer_closed

    def sendall(self, data):
        if self.fd in self.net.send_fail:
            self.net.send_fail.discard(self.fd)
            raise OSError(104, "Connection reset by peer (injected)")
        if self.closed or self.peer is None or self.peer.closed:
            raise BrokenPipeError(32, "Broken pipe")
        self.peer.inbuf.extend(data)
        D.SCHED.yield_point("sock.send")

    def send(self, data):
        self.sendall(data)
        return len(data)

    def recv(self, n):
        if self.closed:
            raise OSError(9, "Bad file descriptor")
        if not (self.inbuf or self.peer_closed):
            if self.timeout == 0:
                raise BlockingIOError()
            ok = D.SCHED.yield_point("sock.recv", blocked_on=lambda: bool(self.inbuf) or self.peer_closed or self.closed,
                                     timeout=self.timeout)
            if not ok:
                raise _rs.timeout("timed out")
            if self.closed:
                raise OSError(9, "Bad file descriptor")
        if not self.inbuf:
            return b""
        k = min(n, len(self.inbuf))
        if k > 1 and self.net.rng.random() < self.net.split_prob:
            k = self.net.rng.randint(1, k)
        out = bytes(self.inbuf[:k])
        del self.inbuf[:k]
        return out

    def recvfrom(self, n):
        if not self.dgrams:
            raise BlockingIOError()
        return self.dgrams.popleft()

    def sendto(self, data, addr):
        for s in list(self.net.udp.get(addr[1], [])):
            s.dgrams.append((bytes(data), self.addr))
        return len(data)

    def shutdown(self, how):
        if self.peer is not None:
            self.peer.peer_closed = True

    def close(self):
        if self.closed:
            return
        self.closed = True
        if self.listening:
            self.net.listeners.pop(self.addr[1], None)
        if self.kind == "udp" and self in self.net.udp.get(self.addr[1], []):
            self.net.udp[self.addr[1]].remove(self)
        if self.peer is not None:
            self.peer.peer_closed = True

    def __enter__(self):
        return self

    def __exit__(self, *a):
        self.close()


def create_connection(addr, timeout=None, *a, **k):
    net = NET
    lst = net.listeners.get(addr[1])
    if lst is None or lst.closed:
        raise ConnectionRefusedError(111, "Connection refused")
    c = SimSocket(type=_rs.SOCK_STREAM)
    s = SimSocket(type=_rs.SOCK_STREAM)
    c.addr = ("127.0.0.1", net.nextport)
    net.nextport += 1
    s.addr = ("127.0.0.1", addr[1])
    c.peer, s.peer = s, c
    c.timeout = timeout
    lst.accept_q.append(s)
    D.SCHED.yield_point("sock.connect")
    return c


class _SocketShim(types.ModuleType):
    def __init__(self):
        super().__init__("socket")
        self.socket = SimSocket
        self.create_connection = create_connection

    def __getattr__(self, k):
        return getattr(_rs, k)


class SimLoop:
    def __init__(self):
        self.net = NET
        self.ready: collections.deque = collections.deque()
        self.readers: dict = {}
        self.stopping = False
        self.closed = False
        self.dropped_after_stop = 0
        if self.net is not None:
            self.net.loops.append(self)

    def call_soon_threadsafe(self, cb, *args):
        if self.closed:
            raise RuntimeError("Event loop is closed")
        self.ready.append((cb, args))

    call_soon = call_soon_threadsafe

    def add_reader(self, fd, cb, *args):
        fd = fd if isinstance(fd, int) else fd.fileno()
        self.readers[fd] = (cb, args)

    def remove_reader(self, fd):
        fd = fd if isinstance(fd, int) else fd.fileno()
        return self.readers.pop(fd, None) is not None

    def stop(self):
        self.stopping = True

    def close(self):
        self.closed = True
        self.dropped_after_stop = len(self.ready)

    def is_closed(self):
        return self.closed

    def _readable(self):
        socks = self.net.socks
        return [fd for fd in self.readers if fd in socks and socks[fd].readable()]

    def _call(self, cb, args):
        try:
            cb(*args)
        except D.SchedAbort:
            raise
        except (SystemExit, KeyboardInterrupt):
            raise
        except BaseException as e:  # asyncio contains it and logs through the exception handler
            self.net.loop_exceptions.append(e)

    def run_forever(self):
        while True:
            D.SCHED.yield_point("loop.idle", blocked_on=lambda: bool(self.ready) or bool(self._readable()) or self.stopping)
            n = len(self.ready)
            polled = self._readable()          # asyncio polls the selector before running the ready handles
            for _ in range(n):
                cb, args = self.ready.popleft()
                self._call(cb, args)
                D.SCHED.yield_point("loop.cb")
            for fd in polled:
                ent = self.readers.get(fd)
                if ent is not None and self.net.socks[fd].readable():
                    self._call(ent[0], ent[1])
                    D.SCHED.yield_point("loop.reader")
            if self.stopping:
                self.stopping = False
                break


class _AsyncioShim(types.ModuleType):
    def __init__(self):
        super().__init__("asyncio")
        self.SelectorEventLoop = SimLoop
        self.AbstractEventLoop = SimLoop

    def set_event_loop(self, loop):
        pass

    def __getattr__(self, k):
        import asyncio
        return getattr(asyncio, k)


SOCKET_SHIM = _SocketShim()
ASYNCIO_SHIM = _AsyncioShim()


@contextlib.contextmanager
def patched(rng, split_prob: float = 0.7):
    """Install the simulated network inside qmi.core.messaging (and context's socket for UDP discovery clients)."""
    global NET
    import qmi.core.messaging as M
    saved = (M.socket, M.asyncio)
    NET = Net(rng, split_prob)
    M.socket, M.asyncio = SOCKET_SHIM, ASYNCIO_SHIM
    try:
        yield NET
    finally:
        M.socket, M.asyncio = saved
        NET = None
