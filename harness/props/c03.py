"""C03 — calls on one object run one at a time, in the order they were issued.

Model: lean/QmiModel/Model/Pipeline.lean (request path = pipeline of FIFO stages); theorems: Props/C03.lean.

Tie: trace refinement.  Real `QMI_Context`s, proxies, event loops and RPC worker threads run under the deterministic
scheduler + simulated network (`harness.simworld.run_scenario`).  Taps wrapped from outside on the mechanisms named in
properties.jsonl write one linearised event log per scenario; the log is replayed on the Lean model (`drv_c03`): every
event must be enabled, name the request the model has at that position, leave the same queue contents as the real
`_RpcThread._fifo` / event-loop ready queue, and keep the pipeline invariant.

Requests are method calls of the probe's own `hit`, of the inherited standard RPC methods (`get_name`, `get_signals`)
and lock-protocol requests (`is_locked`, `lock`, `unlock`, `force_unlock`): all of them are "calls on the object" and
count in the per-(caller thread, object) issue order.  A request is identified by its `request_id`, bound to
(caller, object, issue number) when the caller's thread hands it to `MessageRouter.send_message`.

Oracle (independent of Lean and of the probe's own bookkeeping): execution records written by wrappers around
`_RpcThread._handle_method_rpc_request` and `_RpcThread._handle_lock_rpc_request` (entry = the request starts to
execute, in which thread), for every method and every lock action, with scheduler yield points at every line of the
probe method, the standard methods and the lock handler:
  overlap             two enter..exit intervals on one object overlap
  order               a caller's calls are not executed as 0,1,2,… (its issue order) on that object
  duplicate-execution a call is executed twice
  phantom-execution   something is executed that was never called
  second-thread       more than one thread executes requests of the object
  execution-outside-worker  a method body of the object runs outside the worker's handling of that very request
  (overlap / second-thread also cover the life-cycle hook `release_rpc_object` the framework calls on the object)
  live-object-handed-out    what a caller holds as call target (proxy from make_*/get_*/make_proxy, `with p as x`, an RPC
                            return value) is not a proxy / is the live object
  executed-after-removal, executed-although-error-reply   (object removal)
"""
from __future__ import annotations

import collections
import contextlib
import threading as _rt

from harness.core import Ctx, Failure, Broken, LeanDriver, Prop, Result, diff_streams
from harness import detsched as D
from harness import simnet as S
from harness.simworld import run_scenario

PROBE_PREFIX = "probe"
GEN_STRIDE = 50               # model object number of generation g of object name o: o + 50 * g
WORKER_CALLER_BASE = 100      # the worker thread of object o, when it makes calls itself, is caller number 100 + o
_PROBE = None


def _me() -> str:
    s = D.SCHED
    ts = s.me() if s is not None else None
    return ts.name if ts is not None else f"unmanaged-{_rt.get_ident()}"


def _log(*ev) -> None:
    s = D.SCHED
    if s is not None:
        s.log(*ev)


def probe_classes():
    """The probe RPC objects (defined lazily: qmi must be imported after core.ensure_repo_on_path()): a plain
    `QMI_RpcObject` and a `QMI_Instrument` (whose `__enter__` returns `self`), with the same instrumented methods."""
    global _PROBE
    if _PROBE is not None:
        return _PROBE
    from qmi.core.rpc import QMI_RpcObject, rpc_method
    from qmi.core.instrument import QMI_Instrument

    class _ProbeMethods:
        def _probe_init(self, oid):
            self._oid = oid
            self._inside = 0
            self._peers = {}
            RUN.live[oid] = self

        @rpc_method
        def hit(self, c, via, seq, spin=0, blob=b""):
            me = _me()
            _log("enter", me, self._oid, c, via, seq)
            self._inside += 1          # every line below is a yield point (trace_funcs)
            depth = self._inside
            for _ in range(spin):      # a method that takes a while: stays "in progress" for `spin` more scheduler steps
                D.SCHED.yield_point("probe.park")
            mark = (c, via, seq)
            self._inside -= 1
            _log("exit", me, self._oid, c, via, seq, depth)
            return mark

        @rpc_method
        def relay(self, c, via, seq, plan):
            """a method of this object that itself makes calls — to other objects and to its OWN object — through proxies:
            the caller of those calls is this object's worker thread.  plan = [[kind, target object, sub-plan], …] with
            kind n = non-blocking, t = blocking with a short rpc_timeout (a blocking call to one's own object can only end
            by that timeout); a non-empty sub-plan makes the callee relay in turn."""
            me = _me()
            _log("enter", me, self._oid, c, via, seq)
            self._inside += 1
            depth = self._inside
            wid = WORKER_CALLER_BASE + self._oid
            k = RUN.homes[self._oid]
            for kind, tgt, sub in plan:
                n = None
                try:
                    if tgt not in self._peers:
                        self._peers[tgt] = self._context.get_rpc_object_by_name(f"c{RUN.homes[tgt]}.{PROBE_PREFIX}{tgt}")
                    p = self._peers[tgt]
                    n = RUN.wseq[(wid, k, tgt)]
                    RUN.wseq[(wid, k, tgt)] += 1
                    g = RUN.wseq[("g", wid, tgt)]
                    RUN.wseq[("g", wid, tgt)] += 1
                    RUN.n_calls += 1
                    _log("call", wid, k, tgt, n, "relay-" + kind, g)
                    RUN.intent[_rt.get_ident()] = (wid, k, tgt, n)
                    tq = p.rpc_nonblocking if kind == "n" else p
                    kw = {} if kind == "n" else {"rpc_timeout": 0.5}
                    if sub:
                        tq.relay(wid, k, n, sub, **kw)
                    else:
                        tq.hit(wid, k, n, **kw)
                    _log("result", wid, (wid, k, tgt, n), "ok")
                except D.SchedAbort:
                    raise
                except Exception as e:  # noqa   (timeout of a blocking self-call, object locked / being removed)
                    if n is not None:
                        _log("result", wid, (wid, k, tgt, n), "timeout" if type(e).__name__ == "QMI_RpcTimeoutException"
                             else "error-in-relay")
            mark = (c, via, seq)
            self._inside -= 1
            _log("exit", me, self._oid, c, via, seq, depth)
            return mark

        @rpc_method
        def touch(self):
            """a method of the object that its own life-cycle hook calls (as QMI_TaskRunner / Montana_Cryostation do)"""
            self._inside += 1
            depth = self._inside
            state = self._oid
            self._inside -= 1
            return depth, state

        def release_rpc_object(self):
            """life-cycle hook called by the framework when the object is removed / its context stops"""
            me = _me()
            _log("hook-enter", me, self._oid, "release_rpc_object")
            self._inside += 1
            depth = self._inside
            if self._oid % 2 == 0:     # some hooks use other methods of the same object
                depth = max(depth, self.touch()[0] - 1)      # nested call from the hook itself: one level deeper
            self._inside -= 1
            _log("hook-exec", me, self._oid, "release_rpc_object", depth)

        @rpc_method
        def peer(self):
            """hand out a proxy for this object (a proxy as an RPC return value)"""
            _log("probe-exec", _me(), self._oid, "peer")
            return self._context.make_proxy(self.rpc_object_descriptor)

    class Probe(_ProbeMethods, QMI_RpcObject):
        def __init__(self, context, name, oid):
            QMI_RpcObject.__init__(self, context, name)
            self._probe_init(oid)

    class ProbeInstr(_ProbeMethods, QMI_Instrument):
        def __init__(self, context, name, oid):
            QMI_Instrument.__init__(self, context, name)
            self._probe_init(oid)

    _PROBE = {"obj": Probe, "instr": ProbeInstr,
              "traced": [_ProbeMethods.hit, _ProbeMethods.peer, _ProbeMethods.touch, _ProbeMethods.release_rpc_object,
                         _ProbeMethods.relay]}
    return _PROBE


# ---------------------------------------------------------------------------
# taps
# ---------------------------------------------------------------------------

class _MThread(_rt.Thread):
    """`threading.Thread` as seen by the QMI modules during a run: registered with the scheduler (work-around in this
    module: detsched's shim hands out the real, unmanaged `threading.Thread`)."""

    def start(self):
        s = D.SCHED
        if s is None:
            return _rt.Thread.start(self)
        s._start_thread(self, "Thread", _rt.Thread.start)

    def join(self, timeout=None):
        s = D.SCHED
        if s is None or not hasattr(self, "_ds_ts"):
            return _rt.Thread.join(self, timeout)
        s._join_thread(self, timeout, _rt.Thread.join)


class _MTimer(_MThread):
    """`threading.Timer` under the scheduler (virtual clock)"""

    def __init__(self, interval, function, args=None, kwargs=None):
        super().__init__(daemon=True)
        self.interval, self.function = interval, function
        self.args, self.kwargs = (args or []), (kwargs or {})
        self._cancelled = False

    def cancel(self):
        self._cancelled = True

    def run(self):
        D.TIME_SHIM.sleep(self.interval)
        if not self._cancelled:
            self.function(*self.args, **self.kwargs)


class _MExecutor:
    """`concurrent.futures.ThreadPoolExecutor` under the scheduler: every submitted job runs in a managed thread of its
    own (a pool with enough workers), so that jobs run concurrently and in any order, as with a real pool."""

    def __init__(self, *a, **kw):
        pass

    def submit(self, fn, *args, **kwargs):
        import concurrent.futures as cf
        fut = cf.Future()

        def job():
            try:
                fut.set_result(fn(*args, **kwargs))
            except D.SchedAbort:
                raise
            except BaseException as e:  # noqa
                fut.set_exception(e)
        _MThread(target=job, daemon=True).start()
        return fut

    def shutdown(self, *a, **kw):
        pass

    def __enter__(self):
        return self

    def __exit__(self, *a):
        return False


class _RunState:
    """Per-run bookkeeping of the taps (reset by run_impl)."""

    def __init__(self):
        self.rid2key = {}    # request_id -> (caller, object, issue number)
        self.intent = {}     # thread ident -> key of the call the scripted caller is about to make
        self.pending = {}    # thread ident -> key issued, request message not yet seen
        self.live = {}       # object number -> the live RPC object instance (never to be seen by a caller)
        self.homes = []      # object number -> context number
        self.n_calls = 0     # scripted calls made so far (by caller threads and by relaying worker threads)
        self.wseq = collections.Counter()    # per-route issue counters of the calls made by worker threads
        self.programs = {}   # caller number -> the function a task thread / event-loop callback runs
        self.sendfault = None   # (k, exception class name): the k-th probe request handed to a TCP connection fails to be sent
        self.sf_count = 0


RUN = _RunState()


def _hit_key(m):
    """(caller, object, issue number) if `m` is a method or lock request addressed to a probe object ("?" if the
    request was never bound to a scripted call), else None."""
    try:
        if type(m).__name__ not in ("QMI_MethodRpcRequestMessage", "QMI_LockRpcRequestMessage"):
            return None
        if not m.destination_address.object_id.startswith(PROBE_PREFIX):
            return None
        return RUN.rid2key.get(m.request_id, "?")
    except Exception:
        return None


def _what(m) -> str:
    return getattr(m, "method_name", None) or ("lock:" + getattr(getattr(m, "lock_action", None), "name", "?"))


@contextlib.contextmanager
def taps():
    """Wrap the mechanisms of the request path from outside; every wrapper appends to the scheduler's event log."""
    import qmi.core.rpc as R
    import qmi.core.messaging as M

    saved = []

    _ABSENT = object()

    def patch(obj, name, new):
        old = obj.__dict__.get(name, _ABSENT) if isinstance(obj, type) else getattr(obj, name)
        saved.append((obj, name, old))
        setattr(obj, name, new)

    rejecting = set()       # idents of worker threads that are inside _reject_remaining_requests
    delivering = {}         # ident -> key of the probe request this thread is handing to MessageRouter.deliver_message

    def oid_of(name) -> int:
        try:
            return int(str(name)[len(PROBE_PREFIX):])
        except ValueError:
            return 99

    class TapDict(dict):
        """`MessageRouter._address_to_messagehandler_map`: handler lookup and unregistration logged at the instant they
        happen (inside `_address_to_messagehandler_map_lock`)."""

        def get(self, key, default=None):
            r = dict.get(self, key, default)
            k = delivering.get(_rt.get_ident())
            if k is not None and str(key).startswith(PROBE_PREFIX):
                conn = current_conn.get(_rt.get_ident())
                via = None if conn is None else (conn.peer_context_name, conn._message_router.context_name)
                _log("lookup", _me(), k, r is not None, via)
            return r

        def __setitem__(self, key, value):
            dict.__setitem__(self, key, value)
            if str(key).startswith(PROBE_PREFIX):
                _log("register", oid_of(key))

        def __delitem__(self, key):
            dict.__delitem__(self, key)
            if str(key).startswith(PROBE_PREFIX):
                _log("unregister", oid_of(key))

        def pop(self, key, *a):
            if str(key).startswith(PROBE_PREFIX) and key in self:
                _log("unregister", oid_of(key))
            return dict.pop(self, key, *a)

    class TapDeque(collections.deque):
        """`_RpcThread._fifo` with its mutations logged at the instant they happen (inside the `_cv` critical section)."""

        def _snap(self):
            return [(_hit_key(x) or "?") for x in self]

        def append(self, x):
            collections.deque.append(self, x)
            k = _hit_key(x)
            if k:
                _log("fifo+", _me(), k, self._snap(), "append")

        def appendleft(self, x):
            collections.deque.appendleft(self, x)
            k = _hit_key(x)
            if k:
                _log("fifo+", _me(), k, self._snap(), "appendleft")

        def popleft(self):
            x = collections.deque.popleft(self)
            k = _hit_key(x)
            if k:
                _log("reject" if _rt.get_ident() in rejecting else "fifo-", _me(), k, self._snap(), "popleft")
            return x

        def pop(self):
            x = collections.deque.pop(self)
            k = _hit_key(x)
            if k:
                _log("fifo-", _me(), k, self._snap(), "pop")
            return x

        def _other(name):  # noqa
            def f(self, *a, **kw):
                _log("fifo?", _me(), name)
                return getattr(collections.deque, name)(self, *a, **kw)
            return f

        for _n in ("extend", "extendleft", "insert", "remove", "clear", "rotate", "reverse", "__delitem__", "__setitem__",
                   "__iadd__", "__imul__"):
            locals()[_n] = _other(_n)
        del _n, _other

    # 1. proxy call entry (method calls: the two helpers every proxy method forwards to; lock protocol: the future's
    #    send_lock_rpc_request_message), and the binding of the request id in the caller's thread
    def issue(context):
        me = _rt.get_ident()
        k = RUN.intent.pop(me, "?")
        _log("issue", _me(), k, context.name)
        RUN.pending[me] = k

    def mk_issue(orig):
        def call(context, addr, method_name, token, *args, **kwargs):
            if addr.object_id.startswith(PROBE_PREFIX):
                issue(context)
            return orig(context, addr, method_name, token, *args, **kwargs)
        return call

    patch(R, "blocking_rpc_method_call", mk_issue(R.blocking_rpc_method_call))
    patch(R, "non_blocking_rpc_method_call", mk_issue(R.non_blocking_rpc_method_call))

    orig_sendlock = R.QMI_RpcFuture.__dict__["send_lock_rpc_request_message"]

    def send_lock(self, action):
        if self.rpc_object_address.object_id.startswith(PROBE_PREFIX):
            issue(self._context)
        return orig_sendlock(self, action)

    patch(R.QMI_RpcFuture, "send_lock_rpc_request_message", send_lock)

    orig_rsend = M.MessageRouter.__dict__["send_message"]

    def router_send(self, message):
        me = _rt.get_ident()
        if me in RUN.pending and type(message).__name__ in ("QMI_MethodRpcRequestMessage", "QMI_LockRpcRequestMessage") \
                and message.destination_address.object_id.startswith(PROBE_PREFIX):
            RUN.rid2key[message.request_id] = RUN.pending.pop(me)
        return orig_rsend(self, message)

    patch(M.MessageRouter, "send_message", router_send)

    # 2. hand-off to the socket thread: the ready queue of the caller's context
    orig_cst = S.SimLoop.__dict__["call_soon_threadsafe"]

    def ready_abs(loop):
        out = []
        for cb, a in loop.ready:
            k = _hit_key(a[0]) if a else None
            if k and isinstance(getattr(cb, "__self__", None), M._SocketManager):
                out.append(k)
        return out

    def cst(self, cb, *args):
        r = orig_cst(self, cb, *args)
        k = _hit_key(args[0]) if args else None
        sm = getattr(cb, "__self__", None)
        if k and isinstance(sm, M._SocketManager):
            _log("enqR", _me(), k, sm._message_router.context_name, ready_abs(self))
        return r

    patch(S.SimLoop, "call_soon_threadsafe", cst)
    patch(S.SimLoop, "call_soon", cst)

    # 3. the socket thread puts the message on the TCP stream
    orig_psend = M._PeerTcpConnection.__dict__["send_message"]

    def psend(self, message):
        k = _hit_key(message)
        if k:
            _log("send", _me(), k, self._message_router.context_name, message.destination_address.context_id)
            sf = RUN.sendfault
            if sf is not None:
                RUN.sf_count += 1
                if RUN.sf_count - 1 == sf[0]:
                    # a transient failure of the OS send call: the bytes of this request never reach the stream
                    _log("send-failed", _me(), k, sf[1] + ":injected")
                    raise SENDFAULT_EXC[sf[1]](f"injected {sf[1]} at probe request #{sf[0]}")
        try:
            return orig_psend(self, message)
        except BaseException as e:
            if k and not isinstance(e, D.SchedAbort):
                _log("send-failed", _me(), k, type(e).__name__)
            raise

    patch(M._PeerTcpConnection, "send_message", psend)

    # 4. receive side: which connection is being processed by this thread
    current_conn = {}
    orig_pm = M._PeerTcpConnection.__dict__["_process_message"]

    def process_message(self, packed):
        me = _rt.get_ident()
        prev = current_conn.get(me)
        current_conn[me] = self
        try:
            return orig_pm(self, packed)
        finally:
            if prev is None:
                current_conn.pop(me, None)
            else:
                current_conn[me] = prev

    patch(M._PeerTcpConnection, "_process_message", process_message)

    # 4b. local delivery: handler lookup (MessageRouter.deliver_message) in the delivering thread
    orig_rinit = M.MessageRouter.__dict__["__init__"]

    def router_init(self, *a, **kw):
        orig_rinit(self, *a, **kw)
        m = getattr(self, "_address_to_messagehandler_map", None)
        if type(m) is dict and not m:
            self._address_to_messagehandler_map = TapDict()
        else:
            _log("tap-missing", "MessageRouter._address_to_messagehandler_map is not an empty dict")

    patch(M.MessageRouter, "__init__", router_init)

    orig_deliver = M.MessageRouter.__dict__["deliver_message"]

    def deliver_message(self, message):
        k = _hit_key(message)
        if not k:
            return orig_deliver(self, message)
        me = _rt.get_ident()
        delivering[me] = k
        try:
            return orig_deliver(self, message)
        finally:
            delivering.pop(me, None)

    patch(M.MessageRouter, "deliver_message", deliver_message)

    # 5. RpcObjectManager.handle_message / _RpcThread.push_rpc_request (delivering thread identity; refusal when stopped)
    orig_hm = R.RpcObjectManager.__dict__["handle_message"]

    def handle_message(self, message):
        k = _hit_key(message)
        if not k:
            return orig_hm(self, message)
        delivering.pop(_rt.get_ident(), None)      # the lookup is over
        try:
            return orig_hm(self, message)
        except BaseException as e:
            if type(e).__name__ == "QMI_MessageDeliveryException":
                _log("push-refused", _me(), k)
            raise

    # `_running = False` under `_stop_lock` (RpcObjectManager.stop): logged at the instant of the write
    def _get_running(self):
        return self.__dict__.get("_running_value", False)

    def _set_running(self, v):
        was = self.__dict__.get("_running_value", False)
        self.__dict__["_running_value"] = v
        if was and not v and self.address.object_id.startswith(PROBE_PREFIX):
            _log("stopmark", oid_of(self.address.object_id))

    patch(R.RpcObjectManager, "_running", property(_get_running, _set_running))

    # the worker is asked to shut down / leaves its loop / rejects what is left
    def obj_of(thread):
        return oid_of(getattr(getattr(thread, "_rpc_object", None), "_name", ""))

    orig_reqsd = R._RpcThread.__dict__["_request_shutdown"]

    def request_shutdown(self):
        if str(getattr(getattr(self, "_rpc_object", None), "_name", "")).startswith(PROBE_PREFIX):
            _log("shutdown", obj_of(self))
        return orig_reqsd(self)

    patch(R._RpcThread, "_request_shutdown", request_shutdown)

    orig_reject = R._RpcThread.__dict__["_reject_remaining_requests"]

    def reject_remaining(self):
        probe = str(getattr(getattr(self, "_rpc_object", None), "_name", "")).startswith(PROBE_PREFIX)
        if probe:
            _log("leave", _me(), obj_of(self))
        me = _rt.get_ident()
        rejecting.add(me)
        try:
            return orig_reject(self)
        finally:
            rejecting.discard(me)

    patch(R._RpcThread, "_reject_remaining_requests", reject_remaining)

    patch(R.RpcObjectManager, "handle_message", handle_message)

    orig_push = R._RpcThread.__dict__["push_rpc_request"]

    def push_rpc_request(self, req):
        k = _hit_key(req)
        if k:
            _log("push", _me(), k)
        try:
            return orig_push(self, req)
        finally:
            if k:
                _log("pushed", _me(), k)

    patch(R._RpcThread, "push_rpc_request", push_rpc_request)

    # 6. the object's fifo
    orig_init = R._RpcThread.__dict__["__init__"]

    def rt_init(self, *a, **kw):
        orig_init(self, *a, **kw)
        f = getattr(self, "_fifo", None)
        if type(f) is collections.deque and not f:
            self._fifo = TapDeque()
        else:
            _log("tap-missing", "_RpcThread._fifo is not an empty collections.deque")

    patch(R._RpcThread, "__init__", rt_init)

    # 7. the worker loop: execution of one request (any method, any lock action)
    def mk_exec(orig):
        def handle(self, request):
            k = _hit_key(request)
            if k:
                _log("exec-enter", _me(), k, _what(request))
            try:
                return orig(self, request)
            finally:
                if k:
                    _log("exec-exit", _me(), k)
        return handle

    patch(R._RpcThread, "_handle_method_rpc_request", mk_exec(R._RpcThread.__dict__["_handle_method_rpc_request"]))
    patch(R._RpcThread, "_handle_lock_rpc_request", mk_exec(R._RpcThread.__dict__["_handle_lock_rpc_request"]))

    # 8. RpcObjectManager.start: the worker thread of the object
    orig_start = R.RpcObjectManager.__dict__["start"]

    def om_start(self):
        r = orig_start(self)
        oid = self.address.object_id
        if oid.startswith(PROBE_PREFIX):
            th = getattr(self, "_rpc_thread", None)
            ts = getattr(th, "_ds_ts", None)
            _log("start", int(oid[len(PROBE_PREFIX):]), ts.name if ts is not None else "?")
        return r

    patch(R.RpcObjectManager, "start", om_start)

    # threads the code under test may create that the scheduler does not adopt by itself (work-around in this module):
    # threading.Thread / threading.Timer as seen by the qmi modules, the executor of the simulated event loop, and
    # concurrent.futures.ThreadPoolExecutor
    import concurrent.futures as _cf

    def run_in_executor(self, executor, fn, *args):
        return (executor if executor is not None else _MExecutor()).submit(fn, *args)

    patch(S.SimLoop, "run_in_executor", run_in_executor)

    class _Handle:
        def __init__(self):
            self._cancelled = False

        def cancel(self):
            self._cancelled = True

        def cancelled(self):
            return self._cancelled

    def call_later(self, delay, cb, *args):
        """timer of the event loop on the virtual clock: the callback is queued on the loop when the delay has elapsed"""
        h = _Handle()

        def fire():
            if not h._cancelled and not self.closed:
                self.call_soon_threadsafe(cb, *args)
        _MTimer(max(0.0, delay), fire).start()
        return h

    def call_at(self, when, cb, *args):
        return call_later(self, when - D.TIME_SHIM.monotonic(), cb, *args)

    patch(S.SimLoop, "call_later", call_later)
    patch(S.SimLoop, "call_at", call_at)
    patch(S.SimLoop, "time", lambda self: D.TIME_SHIM.monotonic())
    patch(_cf, "ThreadPoolExecutor", _MExecutor)
    shim_saved = {n: D.THREADING_SHIM.__dict__.get(n, _ABSENT) for n in ("Thread", "Timer")}
    D.THREADING_SHIM.Thread = _MThread
    D.THREADING_SHIM.Timer = _MTimer
    try:
        yield
    finally:
        for n, v in shim_saved.items():
            if v is _ABSENT:
                D.THREADING_SHIM.__dict__.pop(n, None)
            else:
                setattr(D.THREADING_SHIM, n, v)
        for obj, name, old in reversed(saved):
            if old is _ABSENT:
                delattr(obj, name)
            else:
                setattr(obj, name, old)


# ---------------------------------------------------------------------------
# scenarios
# ---------------------------------------------------------------------------

CALL_KINDS = ("b", "n", "k", "t", "R", "Rn", "g", "gn", "s", "sn", "q", "L", "U", "F", "P", "E", "X")      # everything that is a request to the object
NONBLOCKING = ("n", "k", "Rn", "gn", "sn")


def op_via(cal, op) -> int:
    """the context whose proxy the caller uses for this op (default: the caller's own context)"""
    return op[2] if len(op) > 2 and op[2] is not None else cal["ctx"]


def op_size(op) -> int:
    """target size in bytes of the serialised request frame of a `hit` call (0 = tiny call, no payload)"""
    return op[3] if len(op) > 3 and isinstance(op[3], int) else 0


def op_plan(op):
    """the relay plan of an R / Rn op: [[kind, target object, sub-plan], …]"""
    return op[3] if len(op) > 3 and isinstance(op[3], list) else []


def plan_edges(homes, o, plan):
    """(context of the calling worker, target object) pairs a relay plan needs connections / descriptors for"""
    out = set()
    for kind, tgt, sub in plan:
        out.add((homes[o], tgt))
        out |= plan_edges(homes, tgt, sub)
    return out


_SIZES = None
PAYLOAD_CAP = 1_200_000      # frames above this are not generated (a 10 MB frame costs seconds in the simulated network)
FIXED_LARGE = (70_000, 300_000, 1_000_000)


def size_constants():
    """Every size-like integer the messaging / RPC code distinguishes, read from the current source on each run:
    integer literals >= 256 anywhere in qmi/core/messaging.py and qmi/core/rpc.py, and integer class / module attributes
    >= 256 of the imported modules (covers constants written as expressions).  Enumerated, not named."""
    global _SIZES
    if _SIZES is not None:
        return _SIZES
    import ast
    import importlib
    from harness import core
    found = set()
    for rel in ("qmi/core/messaging.py", "qmi/core/rpc.py"):
        tree = ast.parse((core.REPO / rel).read_text())
        found |= {n.value for n in ast.walk(tree) if isinstance(n, ast.Constant) and type(n.value) is int and n.value >= 256}
        mod = importlib.import_module(rel[:-3].replace("/", "."))
        for name, obj in vars(mod).items():
            if type(obj) is int and obj >= 256:
                found.add(obj)
            if isinstance(obj, type) and obj.__module__ == mod.__name__:
                for a, v in vars(obj).items():
                    if type(v) is int and v >= 256:
                        found.add(v)
    _SIZES = sorted(found)
    return _SIZES


def frame_size_targets():
    """frame sizes around every size constant (c-1, c, c+1, 2c), between consecutive constants, and a few fixed large ones"""
    cs = size_constants()
    t = set(FIXED_LARGE)
    for c in cs:
        t |= {c - 1, c, c + 1, 2 * c}
    for a, b in zip(cs, cs[1:]):
        t.add((a + b) // 2)
    return sorted(x for x in t if 600 <= x <= PAYLOAD_CAP)


def gen_scenario(rng, big: bool = False) -> dict:
    """contexts 1..3 (context 0 always hosts object 0), objects 1..2, callers 1..6.  A caller's program is a list of
    [kind, o] or [kind, o, via]:  b/n = blocking / non-blocking `hit`;  k = non-blocking `hit` that stays in progress for 40 more scheduler steps;  t = blocking `hit` with a tiny `rpc_timeout` (the
    caller may give up and go on while the request is still under way);  g/gn = `get_name`;  s/sn = `get_signals`;
    q = `is_locked()`;  L/U/F = `lock()` / `unlock()` / `force_unlock()`;  and [w, j] = wait for the j-th non-blocking call.
    `via` = the context whose proxy is used (a thread may alternate between a local and a peer proxy of one object).
    Per object at most one (caller, via) (the lock owner) uses L/U/F, as a well-formed state machine.
    `removals` = [[o, delay] or [o, delay, again], …]: a server-side thread removes object o from its context after `delay`
    scheduler steps (and, with `again`, creates it again under the same name `again` steps later), while
    the callers are running."""
    K = rng.choice([1, 2, 2, 3, 3])
    n_obj = rng.choice([1, 1, 2, 2])
    homes = [0] + [rng.randrange(K) for _ in range(n_obj - 1)]
    objtypes = [rng.choice(["obj", "obj", "instr"]) for _ in range(n_obj)]
    n_call = rng.choice([1, 2, 2, 3, 3, 4, 5, 6])
    owner = {o: (rng.randrange(n_call) if rng.random() < 0.6 else None) for o in range(n_obj)}
    callers = []
    for ci in range(n_call):
        k = rng.randrange(K)
        alternating = K > 1 and rng.random() < 0.25      # this thread uses proxies of several contexts
        hopper = n_obj > 1 and rng.random() < 0.3        # this thread strictly alternates between the objects
        prog, nfut = [], 0
        held = {o: False for o in range(n_obj)}
        turn = [0]

        def pick_obj():
            if hopper:
                turn[0] += 1
                return turn[0] % n_obj
            return rng.randrange(n_obj)

        def mk(kind, o):
            if alternating and kind not in ("L", "U", "F"):
                return [kind, o, rng.randrange(K)]
            return [kind, o]

        def nb_kind():
            r = rng.random()
            return "n" if r < 0.6 else ("k" if r < 0.7 else ("gn" if r < 0.85 else "sn"))

        for _ in range(rng.randint(1, 6 if big else 4)):
            o = pick_obj()
            r = rng.random()
            if r < 0.10:                        # obtain the call target in another way, then keep calling
                if objtypes[o] == "instr" and rng.random() < 0.6:
                    prog.append(mk("E", o))
                    for _ in range(rng.randint(1, 3)):
                        prog.append(mk(nb_kind() if rng.random() < 0.6 else "b", o))
                    if rng.random() < 0.7:
                        prog.append(mk("X", o))
                else:
                    prog.append(mk("P", o))
                    prog.append(mk(nb_kind(), o))
                nfut += sum(1 for q in prog if q[0] in NONBLOCKING) - nfut
            elif r < 0.20:
                prog.append(mk(rng.choice(["b", "b", "g", "s", "t"]), o))
            elif r < 0.40:
                prog.append(mk(nb_kind(), o)); nfut += 1
            elif r < 0.65:                      # burst of non-blocking calls, some never waited for
                for _ in range(rng.randint(2, 4)):
                    prog.append(mk(nb_kind(), o if rng.random() < 0.8 else pick_obj())); nfut += 1
            elif r < 0.85:                      # a lock-protocol call right behind queued non-blocking calls
                if rng.random() < 0.7:
                    for _ in range(rng.randint(1, 3)):
                        prog.append(mk(nb_kind(), o)); nfut += 1
                if owner[o] == ci:
                    if not held[o]:
                        prog.append(["L", o]); held[o] = True
                    else:
                        prog.append([rng.choice(["U", "U", "F"]), o]); held[o] = False
                else:
                    prog.append(mk("q", o))
            elif nfut:
                prog.append(["w", rng.randrange(nfut)])
            else:
                prog.append(mk("b", o))
        prog = prog[:12]
        if K > 1 and rng.random() < 0.07:
            # payloads of the size classes the code distinguishes, mixed with tiny calls, in one thread's issue order,
            # preferably over a remote route
            targets = frame_size_targets()
            o = pick_obj()
            vias = [v for v in range(K) if v != homes[o]]
            via = rng.choice(vias) if vias and rng.random() < 0.85 else k
            small = [x for x in targets if x <= 150_000] or targets
            sized = []
            for _ in range(rng.randint(1, 3)):
                sized.append([rng.choice(["n", "n", "b"]), o, via, rng.choice(small if rng.random() < 0.8 else targets)])
                for _ in range(rng.randint(1, 2)):
                    sized.append([rng.choice(["n", "n", "gn", "q", "b"]), o, via])
            prog = sized + prog[:4]
        if rng.random() < 0.12:
            # a method of an object that makes calls itself (worker thread as caller): to another object and to its own,
            # non-blocking first, then blocking with a short timeout; sometimes nested two deep
            o = pick_obj()
            other = rng.randrange(n_obj)
            plan = [["n", o, []], ["n", other, [["n", o, []], ["t", other, []]] if rng.random() < 0.4 else []],
                    ["t", o if rng.random() < 0.6 else other, []]]
            rng.shuffle(plan)
            rop = mk(rng.choice(["R", "Rn"]), o)
            if len(rop) == 2:
                rop.append(None)
            rop.append(plan[:rng.randint(1, 3)])
            prog = prog[:5] + [rop] + prog[5:8]
        callers.append({"ctx": k, "prog": prog, "acq": rng.choice(["desc", "desc", "made", "byname"]),
                        "kind": rng.choice(["thread"] * 6 + ["task", "loop"])})
    removals = []
    if rng.random() < 0.25:
        for o in range(n_obj):
            if rng.random() < 0.7:
                removals.append([o, rng.choice([0, 5, 20, 60, 150, 400])] + ([rng.choice([0, 5, 30, 100])] if rng.random() < 0.4 else []))
    return sanitize({"contexts": K, "objects": homes, "objtypes": objtypes, "callers": callers, "removals": removals,
                     "share": rng.random() < 0.25, "eager": rng.choice([0.0, 0.0, 0.3])})


def sanitize(scn) -> dict:
    """Make any (generated or shrunk) scenario well-formed for the lock protocol: per object only the first caller that
    locks it may use L/U/F, L only while not holding, U/F only while holding (others are dropped)."""
    owner = {}
    out = []
    homes = scn["objects"]
    objtypes = list(scn.get("objtypes") or ["obj"] * len(homes))
    for ci, cal in enumerate(scn["callers"]):
        held = collections.defaultdict(bool)
        prog = []
        for op in cal["prog"]:
            kind, o = op[0], op[1]
            if kind in ("E", "X") and objtypes[o] != "instr":
                continue            # only instruments implement the context-manager protocol
            if kind == "P" and op_via(cal, op) != homes[o]:
                op = ["g"] + list(op[1:])          # a proxy cannot travel over the wire: plain call instead
                kind = "g"
            if kind in ("L", "U", "F"):
                if owner.setdefault(o, ci) != ci:
                    continue
                if (kind == "L") == held[o]:
                    continue
                held[o] = (kind == "L")
                op = op[:2]
            prog.append(list(op))
        kind = cal.get("kind", "thread")
        if kind == "loop":       # a callback in the event-loop thread must not block: non-blocking calls only, nobody waits
            prog = [op for op in prog if op[0] in NONBLOCKING]
        out.append({"ctx": cal["ctx"], "prog": prog, "acq": cal.get("acq", "desc"), "kind": kind})
    locks = any(op[0] in ("L", "U", "F") for c in out for op in c["prog"])
    if locks:
        for c in out:
            if c["acq"] == "made":
                c["acq"] = "byname"           # the proxy returned by make_* is one object: its lock token would be shared
    return {"contexts": scn["contexts"], "objects": list(scn["objects"]), "objtypes": objtypes, "callers": out,
            "removals": [list(r) for r in scn.get("removals", [])],
            "share": bool(scn.get("share")) and not locks,           # callers of one context share one proxy per object
            "eager": float(scn.get("eager", 0.0)),                   # probability that a pending timed wait fires early
            **({"sendfault": [int(scn["sendfault"][0]), str(scn["sendfault"][1])]} if scn.get("sendfault") else {})}


def scenario_is_nontrivial(scn) -> bool:
    calls = sum(1 for c in scn["callers"] for op in c["prog"] if op[0] in CALL_KINDS)
    return calls >= 2


def make_body(scn):
    homes = scn["objects"]
    K = scn["contexts"]
    removed_objs = {r[0] for r in scn.get("removals", [])}

    def body(w):
        import qmi.core.rpc as R
        PC = probe_classes()
        objtypes = scn.get("objtypes") or ["obj"] * len(homes)
        servers = set(homes)
        ctxs = [w.context(f"c{k}", server=(k in servers)) for k in range(K)]
        own_proxy = {}

        def make_object(o):
            if objtypes[o] == "instr":
                return ctxs[homes[o]].make_instrument(f"{PROBE_PREFIX}{o}", PC["instr"], o)
            return ctxs[homes[o]].make_rpc_object(f"{PROBE_PREFIX}{o}", PC["obj"], o)

        for o, h in enumerate(homes):
            own_proxy[o] = make_object(o)
        RUN.homes = list(homes)
        need = {(op_via(c, op), op[1]) for c in scn["callers"] for op in c["prog"] if op[0] in CALL_KINDS}
        for c in scn["callers"]:
            for op in c["prog"]:
                if op[0] in ("R", "Rn"):
                    need |= plan_edges(homes, op[1], op_plan(op))
        need = sorted(need)
        connected = set()
        desc = {}
        for k, o in need:
            h = homes[o]
            if k != h and (k, h) not in connected:
                w.connect(ctxs[k], ctxs[h])
                connected.add((k, h))
            desc[(k, o)] = ctxs[k].make_peer_context_proxy(f"c{h}").get_rpc_object_descriptor(f"{PROBE_PREFIX}{o}")
        _log("setup-done")
        w.sched.eager_timeouts = float(scn.get("eager", 0.0))     # only while the callers run (not during the handshakes)
        shared = {(k, o): ctxs[k].make_proxy(desc[(k, o)]) for (k, o) in need} if scn.get("share") else None

        def note_target(ci, how, k, o, x):
            """what a caller holds as its call target must be a proxy, never the live object"""
            _log("target", ci, how, k, o, isinstance(x, (R.QMI_RpcProxy, R.QMI_RpcNonBlockingProxy)), x is RUN.live.get(o))

        def acquire(ci, cal, k, o):
            """the ways the API offers to get hold of an object (done by the scenario's main thread during set-up)"""
            how = cal.get("acq", "desc")
            name = f"c{homes[o]}.{PROBE_PREFIX}{o}"
            if how == "made" and k == homes[o]:
                x = own_proxy[o]                                   # returned by make_rpc_object / make_instrument
            elif how in ("made", "byname"):
                how = "byname"
                x = ctxs[k].get_instrument(name) if objtypes[o] == "instr" else ctxs[k].get_rpc_object_by_name(name)
            else:
                how = "desc"
                x = ctxs[k].make_proxy(desc[(k, o)])
            note_target(ci, how, k, o, x)
            return x

        targets = {ci: {(k, o): acquire(ci, cal, k, o)
                        for (k, o) in sorted({(op_via(cal, op), op[1]) for op in cal["prog"] if op[0] in CALL_KINDS})}
                   for ci, cal in enumerate(scn["callers"])} if shared is None else None

        def caller_fn(ci, cal):
            # one target per (caller thread, proxy context, object): lock tokens are per proxy (unless the scenario shares them)
            px = dict(shared) if shared is not None else targets[ci]

            def classify(e, o):
                """an exception a scripted call may legitimately get: refused by the lock, or the object is being removed"""
                if "locked" in str(e):
                    return "locked"
                if type(e).__name__ == "QMI_MessageDeliveryException" and "pickle" in str(e).lower():
                    return "reply-not-serialisable"    # e.g. QMI_Instrument.__enter__ returns `self`: cannot travel to a peer
                if type(e).__name__ == "QMI_MessageDeliveryException" and (o in removed_objs or scn.get("sendfault")):
                    return "undelivered"
                if type(e).__name__ == "QMI_RpcTimeoutException":
                    return "timeout"
                if type(e).__name__ == "QMI_InvalidOperationException":
                    return "instrument-state"          # open() of an open / close() of a closed instrument
                return None

            def check(kind, k, o, seq, r):
                if kind in ("b", "n", "k", "t", "R", "Rn"):
                    return tuple(r) == (ci, k, seq)
                if kind in ("g", "gn"):
                    return r == f"{PROBE_PREFIX}{o}"
                if kind in ("s", "sn"):
                    return list(r) == []
                return True

            def blob_for(p, k, o, seq, spin, target):
                """payload such that the serialised request frame is `target` bytes long (remote route), else `target` bytes"""
                if target <= 0:
                    return b""
                if k == homes[o]:
                    return bytes(target)
                import pickle
                from qmi.core.messaging import QMI_MessageHandlerAddress as Addr
                nr = ctxs[k]._unique_counters.get("$future_", 0) + 1

                def frame(n):
                    m = R.QMI_MethodRpcRequestMessage(Addr(ctxs[k].name, f"$future_{nr}"),
                                                      Addr(f"c{homes[o]}", f"{PROBE_PREFIX}{o}"), "hit",
                                                      (ci, k, seq, spin, bytes(n)), {}, getattr(p, "_lock_token", None))
                    return len(pickle.dumps(m))
                n = max(0, target - frame(0))
                for _ in range(4):
                    d = target - frame(n)
                    if d == 0:
                        break
                    n = max(0, n + d)
                _log("frame", ci, k, o, seq, target, frame(n))
                return bytes(n)

            def run():
                me = _rt.get_ident()
                nxt = collections.Counter()
                gnxt = collections.Counter()
                futs = []
                bad = []

                def outcome(kind, k, o, seq, fn):
                    try:
                        r = fn()
                        if not check(kind, k, o, seq, r):
                            bad.append((kind, ci, k, o, seq, repr(r)))
                        _log("result", ci, (ci, k, o, seq), "ok")
                        if kind in ("P", "E"):         # from now on the caller uses what it was handed
                            note_target(ci, {"P": "rpc-return-value", "E": "with-as"}[kind], k, o, r)
                            px[(k, o)] = r
                    except D.SchedAbort:
                        raise
                    except Exception as e:  # noqa
                        c = classify(e, o)
                        if c is None or (c == "timeout" and kind != "t") or (c == "instrument-state" and kind not in "EX") \
                                or (c == "reply-not-serialisable" and kind != "E"):
                            bad.append((kind, ci, k, o, seq, f"{type(e).__name__}: {e}"))
                        _log("result", ci, (ci, k, o, seq), c or "error")

                for op in cal["prog"]:
                    kind = op[0]
                    if kind == "w":
                        j = op[1]
                        if j < len(futs) and not futs[j][2]:
                            futs[j][2] = True
                            fut, (fk, fvia, fo, fseq), _ = futs[j]
                            outcome(fk, fvia, fo, fseq, fut.wait)
                        continue
                    o = op[1]
                    k = op_via(cal, op)
                    seq = nxt[(k, o)]
                    nxt[(k, o)] += 1
                    gseq = gnxt[o]
                    gnxt[o] += 1
                    RUN.n_calls += 1
                    _log("call", ci, k, o, seq, kind, gseq)
                    RUN.intent[me] = (ci, k, o, seq)
                    p = px[(k, o)]
                    if kind in NONBLOCKING and hasattr(p, "rpc_nonblocking"):
                        try:
                            nb = p.rpc_nonblocking
                            sz = op_size(op)
                            fut = (nb.hit(ci, k, seq, 0, blob_for(p, k, o, seq, 0, sz)) if kind == "n"
                                   else nb.hit(ci, k, seq, 40, blob_for(p, k, o, seq, 40, sz)) if kind == "k"
                                   else nb.relay(ci, k, seq, op_plan(op)) if kind == "Rn"
                                   else nb.get_name() if kind == "gn" else nb.get_signals())
                            futs.append([fut, (kind, k, o, seq), False])
                        except D.SchedAbort:
                            raise
                        except Exception as e:  # noqa
                            bad.append((kind, ci, k, o, seq, f"{type(e).__name__}: {e}"))
                        continue
                    sz = op_size(op)
                    fn = {"b": lambda: p.hit(ci, k, seq, 0, blob_for(p, k, o, seq, 0, sz)),
                          "n": lambda: p.hit(ci, k, seq), "k": lambda: p.hit(ci, k, seq, 40),
                          "R": lambda: p.relay(ci, k, seq, op_plan(op)), "Rn": lambda: p.relay(ci, k, seq, op_plan(op)),
                          "t": lambda: p.hit(ci, k, seq, 0, blob_for(p, k, o, seq, 0, sz), rpc_timeout=0.001),
                          "g": lambda: p.get_name(), "gn": lambda: p.get_name(), "s": lambda: p.get_signals(),
                          "sn": lambda: p.get_signals(), "q": lambda: p.is_locked(),
                          "L": lambda: p.lock(), "U": lambda: p.unlock(), "F": lambda: p.force_unlock(),
                          "P": lambda: p.peer(),
                          "E": lambda: type(p).__enter__(p),                      # what `with p as x:` binds x to
                          "X": lambda: type(p).__exit__(p, None, None, None)}[kind]
                    outcome(kind, k, o, seq, fn)
                return bad
            return run

        def remover_fn(o, delay, again=None):
            def run():
                for _ in range(delay):
                    D.SCHED.yield_point("remover.wait")
                _log("removing", o)
                ctxs[homes[o]].remove_rpc_object(own_proxy[o])
                _log("removed", o)
                if again is not None:          # … and created again under the same name, by this server-side thread
                    for _ in range(again):
                        D.SCHED.yield_point("remover.wait")
                    own_proxy[o] = make_object(o)
                    _log("recreated", o)
                return []
            return run

        # the callers: plain threads, QMI task threads, callbacks running in the event-loop thread of a context
        from qmi.core.task import QMI_Task

        class CallerTask(QMI_Task):
            def __init__(self, task_runner, name, ci):
                super().__init__(task_runner, name)
                self._ci = ci

            def run(self):
                loose[self._ci] = RUN.programs[self._ci]()

        loose, ths, tasks = {}, [], []
        for ci, cal in enumerate(scn["callers"]):
            fn = caller_fn(ci, cal)
            kind = cal.get("kind", "thread")
            if kind == "task":
                RUN.programs[ci] = fn
                tp = ctxs[cal["ctx"]].make_task(f"task{ci}", CallerTask, ci)
                tp.start()
                tasks.append(tp)
            elif kind == "loop":
                def cb(fn=fn, ci=ci):
                    loose[ci] = fn()
                ctxs[cal["ctx"]]._message_router._thread.run_in_thread(cb)
            else:
                ths.append(w.spawn(fn, f"caller{ci}"))
        ths += [w.spawn(remover_fn(r[0], r[1], r[2] if len(r) > 2 else None), f"remover{r[0]}") for r in scn.get("removals", [])]
        for t in ths:
            t.join()
        for tp in tasks:
            tp.join()
        w.sched.eager_timeouts = 0.0
        D.TIME_SHIM.sleep(0.05)        # let event-loop callers start (fires only when nothing else can run)

        def settled():
            return sum(1 for e in w.sched.events if e[0] in ("exec-exit", "reject", "push-refused")
                       or (e[0] == "lookup" and not e[3]))

        # drain: calls nobody waits for are still under way; a timed sleep fires only when nothing else can run
        for _ in range(40):
            if settled() >= RUN.n_calls:
                break
            D.TIME_SHIM.sleep(0.05)
        _log("drained", settled(), RUN.n_calls)
        n_loose = sum(1 for c in scn["callers"] if c.get("kind", "thread") != "thread")
        return ([(t.value, None if t.exc is None else f"{type(t.exc).__name__}: {t.exc}") for t in ths]
                + [(v, None) for v in loose.values()]
                + [(None, "a task / event-loop caller did not finish")] * (n_loose - len(loose)))

    return body


def run_impl(seed, scn, policy="weighted", change_points=None, extra_trace=False):
    """Run one scenario on the real code.  Returns the simworld Outcome (events in out.sched.events)."""
    import qmi.core.rpc as R
    global RUN
    RUN = _RunState()
    if scn.get("sendfault"):
        RUN.sendfault = (int(scn["sendfault"][0]), str(scn["sendfault"][1]))
    PC = probe_classes()
    # line-level yield points inside everything that executes "on the object"
    tf = PC["traced"] + [R.QMI_RpcObject.get_name, R.QMI_RpcObject.get_signals, R._RpcThread._handle_lock_rpc_request]
    if extra_trace:
        tf += [R._RpcThread.push_rpc_request, R.RpcObjectManager.handle_message]
    with taps():    # (tf was collected before the taps replaced the class attributes: the original code objects)
        return run_scenario(seed, make_body(scn), policy=policy, change_points=change_points, trace_funcs=tf,
                            max_steps=60000)


# ---------------------------------------------------------------------------
# event log -> driver lines (+ what the implementation says the answer must be)
# ---------------------------------------------------------------------------

def _fmt(keys) -> str:
    if not keys:
        return "-"
    return ",".join("?" if k == "?" else ":".join(str(v) for v in k) for k in keys)


def _rq(k) -> str:
    return " ".join(str(v) for v in k)


def to_lines(scn, events):
    """Translate the linearised event log into driver lines and the outputs the implementation's behaviour implies."""
    homes = scn["objects"]
    tids = {}

    def tid(name):
        return tids.setdefault(name, len(tids) + 1)

    def cidx(name):
        try:
            return int(str(name)[1:]) if str(name).startswith("c") else 99
        except ValueError:
            return 99

    lines, outs = ["init"], ["ok"]
    for ci, cal in enumerate(scn["callers"]):
        lines.append(f"thread {ci}"); outs.append("ok")
    for o in range(len(homes)):
        lines.append(f"thread {WORKER_CALLER_BASE + o}"); outs.append("ok")
    for k in range(scn["contexts"]):
        lines.append(f"ctx {k}"); outs.append("ok")
    for o, h in enumerate(homes):
        lines.append(f"object {o} {h}"); outs.append("ok")
    issuer = {}
    via = {}
    fin = collections.defaultdict(lambda: {"executed": [], "by": [], "rejected": [], "refused": []})
    keyed = ("issue", "enqR", "send", "lookup", "push-refused", "fifo+", "fifo-", "reject", "exec-enter", "exec-exit")
    # The model's objects are manager INSTANCES.  A name that is removed and created again is a sequence of instances:
    # generation g of name o is model object o + GEN_STRIDE * g.  A request belongs to the instance that is current when
    # its handler is looked up (if it never gets that far: when it is issued).
    starts = collections.defaultdict(list)
    registers = collections.defaultdict(list)
    first_lookup, issued_at = {}, {}
    for idx, ev in enumerate(events):
        if ev[0] == "start":
            starts[ev[1]].append(idx)
        elif ev[0] == "register":
            registers[ev[1]].append(idx)
        elif ev[0] == "lookup" and ev[2] != "?":
            first_lookup.setdefault(ev[2], idx)
        elif ev[0] == "issue" and ev[2] != "?":
            issued_at.setdefault(ev[2], idx)

    def gen_at(o, idx):
        return max(0, sum(1 for p in starts.get(o, []) if p < idx) - 1)

    def inst(o, idx):
        return o + GEN_STRIDE * gen_at(o, idx)

    def mkey(key, idx):
        # a request finds the instance that is REGISTERED as message handler when it is looked up
        at = first_lookup.get(key, issued_at.get(key, idx))
        g = max(0, sum(1 for p in registers.get(key[2], []) if p < at) - 1)
        return (key[0], key[1], key[2] + GEN_STRIDE * g, key[3])

    for o in sorted(starts):
        for g in range(1, len(starts[o])):
            lines.append(f"object {o + GEN_STRIDE * g} {homes[o]}"); outs.append("ok")

    for idx, ev in enumerate(events):
        t = ev[0]
        if t in keyed and ev[2] != "?":
            ev = ev[:2] + (mkey(ev[2], idx),) + ev[3:]
            if t in ("enqR", "fifo+", "fifo-", "reject"):
                snap_i = 4 if t == "enqR" else 3
                ev = ev[:snap_i] + ([x if x == "?" else mkey(x, idx) for x in ev[snap_i]],) + ev[snap_i + 1:]
        elif t in ("start", "unregister", "stopmark", "shutdown"):
            # `start` is logged after the new instance exists: it belongs to the generation it creates
            ev = (t, inst(ev[1], idx + 1 if t == "start" else idx)) + ev[2:]
        elif t in ("leave", "enter", "exit"):
            ev = ev[:2] + (inst(ev[2], idx),) + ev[3:]
        if t in keyed and ev[2] == "?":
            # a request to the object that no scripted call accounts for
            lines.append(f"unaccounted-request-at-{t}"); outs.append("ok")
            continue
        if t == "start":
            lines.append(f"start {ev[1]} {tid(ev[2])}"); outs.append("ok inv")
        elif t == "issue":
            issuer[ev[2]] = ev[1]
            lines.append(f"issue {_rq(ev[2])}"); outs.append("ok inv")
        elif t == "enqR":
            lines.append(f"enqR {_rq(ev[2])}"); outs.append(f"ok ready={_fmt(ev[4])} inv")
        elif t == "send":
            lines.append(f"send {cidx(ev[3])} {_rq(ev[2])}"); outs.append("ok inv")
        elif t == "send-failed":
            lines.append(f"send-failed {ev[3]}"); outs.append("ok")
        elif t == "lookup":
            key, found, v = ev[2], ev[3], ev[4]
            via[key] = v
            if issuer.get(key) == ev[1] and v is None:
                lines.append(f"lookL {_rq(key)}")
            else:
                k, d = (cidx(v[0]), cidx(v[1])) if v else (key[1], homes[key[2] % GEN_STRIDE] if key[2] % GEN_STRIDE < len(homes) else 99)
                lines.append(f"lookW {k} {d} {_rq(key)}")
            outs.append("ok held inv" if found else "ok refused inv")
            if not found:
                fin[key[2]]["refused"].append(key)
        elif t in ("fifo+", "push-refused"):
            key = ev[2]
            v = via.get(key)
            if issuer.get(key) == ev[1] and v is None:
                lines.append(f"pushL {_rq(key)}")
            else:
                d = cidx(v[1]) if v else (homes[key[2] % GEN_STRIDE] if key[2] % GEN_STRIDE < len(homes) else 99)
                lines.append(f"pushW {d} {_rq(key)}")
            if t == "fifo+":
                outs.append(f"ok fifo={_fmt(ev[3])} inv")
            else:
                outs.append("ok refused inv")
                fin[key[2]]["refused"].append(key)
        elif t == "fifo-":
            c, k, o, r = ev[2]
            lines.append(f"pop {tid(ev[1])} {o} {c} {k} {r}"); outs.append(f"ok fifo={_fmt(ev[3])} inv")
        elif t == "reject":
            c, k, o, r = ev[2]
            fin[o]["rejected"].append(ev[2])
            lines.append(f"reject {tid(ev[1])} {o} {c} {k} {r}"); outs.append(f"ok fifo={_fmt(ev[3])} inv")
        elif t in ("enter", "exit"):          # the probe's own record of `hit` (observation)
            lines.append(f"{t} {tid(ev[1])} {ev[2]} {ev[3]} {ev[4]} {ev[5]}"); outs.append("ok")
        elif t == "exec-enter":               # the request starts to execute (any method / lock action)
            c, k, o, r = ev[2]
            lines.append(f"enter {tid(ev[1])} {o} {c} {k} {r}"); outs.append("ok")
        elif t == "exec-exit":
            c, k, o, r = ev[2]
            fin[o]["executed"].append(ev[2]); fin[o]["by"].append(tid(ev[1]))
            lines.append(f"finish {tid(ev[1])} {o} {c} {k} {r}"); outs.append("ok inv")
        elif t == "unregister":
            lines.append(f"unreg {ev[1]}"); outs.append("ok inv")
        elif t == "stopmark":
            lines.append(f"stopmark {ev[1]}"); outs.append("ok inv")
        elif t == "shutdown":
            lines.append(f"shutdown {ev[1]}"); outs.append("ok inv")
        elif t == "leave":
            lines.append(f"leave {tid(ev[1])} {ev[2]}"); outs.append("ok inv")
        elif t in ("fifo?", "tap-missing"):
            lines.append(f"unknown-operation {ev[-1]}".replace(" ", "_")); outs.append("ok")
    for o in sorted({o + GEN_STRIDE * g for o in range(len(homes)) for g in range(max(1, len(starts.get(o, []))))}):
        lines.append(f"final {o}")
        f = fin[o]
        outs.append(f"executed={_fmt(f['executed'])} by={','.join(map(str, f['by'])) if f['by'] else '-'} cur=- "
                    f"rejected={_fmt(f['rejected'])} refused={_fmt(f['refused'])}")
    return lines, outs


# ---------------------------------------------------------------------------
# the property, evaluated directly on the execution records of every request
# ---------------------------------------------------------------------------

def _class_of(what: str) -> str:
    return "lock" if what.startswith("lock:") else what


def oracle(scn, events):
    """Returns (clause, route, request class, detail) of the first violation, or None.

    Works on `exec-enter`/`exec-exit` (wrappers around `_handle_method_rpc_request` / `_handle_lock_rpc_request`: every
    method, every lock action, whichever thread runs them), on the `call`/`result` records the scripted callers write
    around each proxy call (their own issue order and what they got back) and on the remover's `removed` record.
    The probe's own depth counter is a second witness for overlaps.

    `order` is per (caller thread, proxy context, object NAME): across removal and re-creation of an object under the
    same name the executed calls of a route must still appear in issue order (calls answered with an error are skipped).  A violation of the order per (caller thread, object) that is
    *not* a violation per route (`order-across-routes`) is reported only if nothing else is wrong."""
    homes = scn["objects"]

    def route(k, o):
        try:
            return "local" if k == homes[o] else "remote"
        except Exception:
            return "unknown"

    called = {}
    inside = collections.defaultdict(list)
    nxt = collections.Counter()
    gnxt = collections.Counter()
    seen = set()
    started = set()
    threads = collections.defaultdict(list)
    removed = set()
    removable = {r[0] for r in scn.get("removals", [])}
    if scn.get("sendfault"):
        removable = set(range(len(scn["objects"])))     # the call whose request could not be sent is answered with an error
    worker = {}
    in_hook = collections.defaultdict(bool)
    secondary = None
    for i, ev in enumerate(events):
        if ev[0] == "call":
            called[(ev[1], ev[2], ev[3], ev[4])] = ev[6]
        elif ev[0] == "target":
            _, ci, how, k, o, is_proxy, is_live = ev
            if is_live or not is_proxy:
                return ("live-object-handed-out", route(k, o), how,
                        f"event {i}: caller {ci} obtained its call target for object {o} by '{how}' and holds "
                        f"{'the live RPC object itself' if is_live else 'something that is not a proxy'}")
        elif ev[0] in ("enter", "probe-exec"):
            # a method body of the object runs: it must be inside a handler execution of that object, same thread
            th, o = ev[1], ev[2]
            cur = inside[o][-1] if inside[o] else None
            ok = cur is not None and cur[1] == th and (ev[0] == "probe-exec" or cur[0] == (ev[3], ev[4], o, ev[5]))
            if not ok:
                what = "hit" if ev[0] == "enter" else ev[3]
                k = ev[4] if ev[0] == "enter" else homes[o]
                return ("execution-outside-worker", route(k, o), what,
                        f"event {i}: {what}() of object {o} runs in thread {th} outside the worker's handling of that "
                        f"request (worker is handling: {cur})")
        elif ev[0] == "start":
            o = ev[1]
            if o in worker:           # the name was removed and is created again: a new instance with a new worker thread
                threads[o] = []
                removed.discard(o)
                in_hook[o] = False
            worker[o] = ev[2]
        elif ev[0] in ("hook-enter", "hook-exec"):
            # a life-cycle hook of the object (release_rpc_object) is code of the object like its methods: it must run in
            # the object's worker thread and never while a request of the object is executing
            _, th, o, name = ev[:4]
            if inside[o]:
                return ("overlap", "local", name,
                        f"event {i}: {name}() of object {o} runs in {th} while {inside[o]} is executing on the object")
            if ev[0] == "hook-exec" and ev[4] != 1:
                return ("overlap", "local", name, f"event {i}: {name}() of object {o} saw depth {ev[4]}")
            w_th = worker.get(o) or (threads[o][0] if threads[o] else None)
            if w_th is not None and th != w_th:
                return ("second-thread", "local", name,
                        f"event {i}: {name}() of object {o} runs in {th}, the object's worker thread is {w_th}")
            in_hook[o] = (ev[0] == "hook-enter")
        elif ev[0] == "removed":
            removed.add(ev[1])
        elif ev[0] == "result":
            key, res = ev[2], ev[3]
            if res in ("undelivered", "error") and key in started:
                return ("executed-although-error-reply", route(key[1], key[2]), "any",
                        f"event {i}: the caller of {key} got a delivery error, but the call was executed")
        elif ev[0] == "exec-enter":
            _, th, key, what = ev
            cls = _class_of(what)
            if key == "?":
                return ("phantom-execution", "unknown", cls, f"event {i}: a request ({what}) executes that no call accounts for")
            c, k, o, seq = key
            if inside[o] or in_hook[o]:
                return ("overlap", route(k, o), cls,
                        f"event {i}: {key} ({what}) starts in {th} while "
                        f"{inside[o] or 'release_rpc_object()'} is executing on object {o}")
            inside[o].append((key, th, what))
            if o in removed:
                return ("executed-after-removal", route(k, o), cls,
                        f"event {i}: {key} ({what}) executes after remove_rpc_object({o}) returned")
            if th not in threads[o]:
                threads[o].append(th)
                if len(threads[o]) > 1:
                    return ("second-thread", route(k, o), cls, f"event {i}: {key} ({what}): object {o} executed by {threads[o]}")
            if key not in called:
                return ("phantom-execution", route(k, o), cls, f"event {i}: {key} ({what}) executed but never called")
            if key in seen:
                return ("duplicate-execution", route(k, o), cls, f"event {i}: {key} ({what}) executed twice")
            seen.add(key)
            started.add(key)
            exp = nxt[(c, k, o)]
            if seq < exp or (seq > exp and o not in removable):
                # executed after a later call of the same route — or, for an object that is never removed, with a gap.
                # (For an object name that is removed (and possibly created again) calls answered with an error are
                # skipped; should one of them execute later it is caught here as "after a later call".)
                return ("order", route(k, o), cls,
                        f"event {i}: caller {c} via context {k} object {o}: call #{seq} ({what}) executed when "
                        f"#{exp} was next in issue order" + (" (a later call of this route was executed before it)" if seq < exp else ""))
            nxt[(c, k, o)] = seq + 1
            g = called[key]
            if g < gnxt[(c, o)] and secondary is None:
                secondary = ("order-across-routes", "mixed", "any",
                             f"event {i}: caller {c} object {o}: its call #{g} to this object (via context {k}, {what}) "
                             f"executes after a later call #{gnxt[(c, o)] - 1} of the same thread made through another context")
            gnxt[(c, o)] = max(gnxt[(c, o)], g + 1)
        elif ev[0] == "exec-exit":
            _, th, key = ev
            if key == "?":
                continue
            o = key[2]
            if not inside[o] or inside[o][-1][0] != key:
                return ("overlap", route(key[1], o), "any", f"event {i}: {key} finished while inside={inside[o]}")
            inside[o].pop()
        elif ev[0] == "exit" and ev[6] != 1:
            return ("overlap", route(ev[4], ev[2]), "hit", f"event {i}: probe.hit left with depth {ev[6]}")
    return secondary


def completion_problem(out, events, scn):
    """Things that make a run unusable as a trace (not C03 violations by themselves)."""
    if out.deadlock:
        return f"deadlock: {out.deadlock[:300]}"
    if out.budget:
        return "step budget exceeded"
    if out.error is not None:
        return f"scenario raised {type(out.error).__name__}: {out.error}"
    te = [(n, e) for n, e in out.thread_errors]
    if te:
        return f"thread died: {te[0][0]}: {type(te[0][1]).__name__}: {te[0][1]}"
    if out.net is not None and out.net.loop_exceptions:
        e = out.net.loop_exceptions[0]
        return f"exception in event loop callback: {type(e).__name__}: {e}"
    for v, exc in (out.value or []):
        if exc:
            return f"caller raised {exc}"
        if v:
            return f"wrong reply: {v[0]}"
    dr = [e for e in events if e[0] == "drained"]
    if not dr or dr[-1][1] != dr[-1][2]:
        return f"not all calls were executed: {dr[-1][1:] if dr else None}"
    if any(e[0] in ("tap-missing", "fifo?") for e in events):
        return "tap point missing or unknown fifo operation: " + repr([e for e in events if e[0] in ("tap-missing", "fifo?")][0])
    return None


SENDFAULT_EXC = {"InterruptedError": InterruptedError, "BlockingIOError": BlockingIOError, "OSError": OSError,
                 "BrokenPipeError": BrokenPipeError, "ConnectionResetError": ConnectionResetError, "TimeoutError": TimeoutError,
                 "RuntimeError": RuntimeError}


def sendfault_scenarios(quick: bool):
    """A request that the OS refuses to send (every exception class, at every position of a burst of calls of one thread
    to a peer's object, alone and with a second caller / a local bystander): whatever the sender does about it, the calls
    of the route that ARE executed must be executed in issue order."""
    progs = [[["n", 0], ["n", 0], ["n", 0], ["b", 0]],
             [["n", 0], ["n", 0], ["n", 0], ["n", 0], ["w", 0], ["w", 1], ["w", 2], ["w", 3]],
             [["b", 0], ["n", 0], ["n", 0], ["b", 0]]]
    excs = ["InterruptedError", "BlockingIOError", "OSError"] if quick else list(SENDFAULT_EXC)
    out = []
    for pi, prog in enumerate(progs if not quick else progs[:2]):
        ncalls = sum(1 for op in prog if op[0] != "w")
        for k in range(ncalls):
            for exc in excs:
                out.append(sanitize({"contexts": 2, "objects": [0], "callers": [{"ctx": 1, "prog": prog}], "sendfault": [k, exc]}))
        out.append(sanitize({"contexts": 2, "objects": [0], "sendfault": [1, excs[pi % len(excs)]],
                             "callers": [{"ctx": 1, "prog": prog}, {"ctx": 0, "prog": [["n", 0], ["b", 0]]}]}))
        out.append(sanitize({"contexts": 3, "objects": [0], "sendfault": [2, excs[(pi + 1) % len(excs)]],
                             "callers": [{"ctx": 1, "prog": prog}, {"ctx": 2, "prog": prog}]}))
    return out


def _sig(v):
    return f"{v[0]}:{v[1]}:{v[2]}"


# ---------------------------------------------------------------------------

FIXED_SCENARIOS_RAW = [
    {"contexts": 1, "objects": [0], "callers": [{"ctx": 0, "prog": [["n", 0], ["n", 0], ["n", 0], ["b", 0]]}]},
    {"contexts": 2, "objects": [0], "callers": [{"ctx": 1, "prog": [["n", 0], ["n", 0], ["n", 0], ["b", 0]]}]},
    {"contexts": 2, "objects": [0], "callers": [{"ctx": 0, "prog": [["n", 0], ["n", 0], ["b", 0]]},
                                                 {"ctx": 1, "prog": [["n", 0], ["n", 0], ["b", 0]]}]},
    {"contexts": 1, "objects": [0], "callers": [{"ctx": 0, "prog": [["b", 0], ["b", 0]]},
                                                 {"ctx": 0, "prog": [["b", 0], ["n", 0]]},
                                                 {"ctx": 0, "prog": [["n", 0], ["n", 0]]}]},
    {"contexts": 3, "objects": [0, 1], "callers": [{"ctx": 1, "prog": [["n", 0], ["n", 1], ["n", 0], ["w", 1]]},
                                                    {"ctx": 2, "prog": [["n", 1], ["n", 0], ["b", 1]]},
                                                    {"ctx": 0, "prog": [["b", 0], ["n", 1], ["n", 0]]}]},
    # lock-protocol requests behind queued method calls (local and remote owner), queries by another caller
    {"contexts": 1, "objects": [0], "callers": [{"ctx": 0, "prog": [["n", 0], ["n", 0], ["L", 0], ["n", 0], ["U", 0], ["b", 0]]},
                                                 {"ctx": 0, "prog": [["n", 0], ["q", 0], ["n", 0], ["q", 0]]}]},
    {"contexts": 2, "objects": [0], "callers": [{"ctx": 1, "prog": [["n", 0], ["n", 0], ["L", 0], ["n", 0], ["n", 0], ["F", 0]]},
                                                 {"ctx": 0, "prog": [["n", 0], ["n", 0], ["q", 0]]}]},
    # one thread alternating between a peer proxy and a local proxy of the same object (order per route only)
    {"contexts": 2, "objects": [0], "callers": [{"ctx": 0, "prog": [["n", 0, 1], ["n", 0, 0], ["n", 0, 1], ["n", 0, 0], ["b", 0, 1]]}]},
    {"contexts": 3, "objects": [0, 0], "callers": [{"ctx": 1, "prog": [["n", 0, 1], ["n", 1, 2], ["n", 0, 2], ["n", 1, 1], ["b", 0, 0], ["b", 1, 0]]},
                                                    {"ctx": 0, "prog": [["n", 0], ["n", 1], ["n", 0], ["n", 1]]}]},
    # one thread hopping between two objects (order per object, none across objects)
    {"contexts": 2, "objects": [0, 1], "callers": [{"ctx": 0, "prog": [["n", 0], ["n", 1], ["n", 0], ["n", 1], ["n", 0], ["b", 1], ["b", 0]]},
                                                    {"ctx": 1, "prog": [["n", 1], ["n", 0], ["n", 1], ["n", 0], ["w", 0]]}]},
    # the object is removed while calls are queued / under way (local and remote callers)
    {"contexts": 2, "objects": [0], "removals": [[0, 20]],
     "callers": [{"ctx": 0, "prog": [["n", 0], ["n", 0], ["n", 0], ["n", 0], ["b", 0], ["b", 0]]},
                 {"ctx": 1, "prog": [["n", 0], ["n", 0], ["n", 0], ["b", 0], ["n", 0], ["b", 0]]}]},
    {"contexts": 2, "objects": [0, 1], "removals": [[1, 60], [0, 150]],
     "callers": [{"ctx": 1, "prog": [["n", 0], ["n", 1], ["n", 0], ["n", 1], ["b", 0], ["b", 1], ["w", 1]]},
                 {"ctx": 0, "prog": [["b", 1], ["n", 0], ["n", 1], ["b", 0], ["n", 1]]}]},
    {"contexts": 1, "objects": [0], "removals": [[0, 0]],
     "callers": [{"ctx": 0, "prog": [["n", 0], ["n", 0], ["b", 0]]}, {"ctx": 0, "prog": [["b", 0], ["b", 0]]}]},
    # the object is removed and created again under the same name while remote and local callers keep calling that name
    {"contexts": 2, "objects": [0], "removals": [[0, 10, 5]],
     "callers": [{"ctx": 1, "prog": [["n", 0], ["n", 0], ["n", 0], ["b", 0], ["n", 0], ["n", 0], ["b", 0], ["b", 0]]},
                 {"ctx": 0, "prog": [["n", 0], ["b", 0], ["n", 0], ["b", 0], ["n", 0], ["b", 0]]}]},
    {"contexts": 3, "objects": [0, 0], "objtypes": ["obj", "instr"], "removals": [[0, 0, 0], [1, 30, 30]],
     "callers": [{"ctx": 1, "prog": [["n", 0], ["n", 1], ["n", 0], ["n", 1], ["b", 0], ["b", 1], ["n", 0], ["b", 1]]},
                 {"ctx": 2, "prog": [["n", 1], ["n", 1], ["b", 0], ["n", 1], ["b", 1], ["n", 0], ["b", 0]]},
                 {"ctx": 0, "prog": [["b", 1], ["n", 0], ["b", 0], ["n", 1], ["b", 1]]}]},
    # … with a long-running method in progress at the moment of remove_rpc_object (the release hook must wait for it)
    {"contexts": 2, "objects": [0, 0], "objtypes": ["obj", "instr"], "removals": [[0, 20], [1, 40]],
     "callers": [{"ctx": 0, "prog": [["k", 0], ["k", 1], ["k", 0], ["k", 1], ["n", 0], ["n", 1]]},
                 {"ctx": 1, "prog": [["k", 1], ["k", 0], ["n", 1], ["n", 0]]}]},
    {"contexts": 1, "objects": [0], "removals": [[0, 5]],
     "callers": [{"ctx": 0, "prog": [["k", 0], ["k", 0], ["b", 0]]}]},
    # blocking calls given up by a tiny rpc_timeout while still under way, followed by further calls of the same thread
    {"contexts": 2, "objects": [0], "eager": 0.5,
     "callers": [{"ctx": 1, "prog": [["t", 0], ["t", 0], ["n", 0], ["t", 0], ["b", 0]]},
                 {"ctx": 0, "prog": [["t", 0], ["n", 0], ["t", 0], ["b", 0]]}]},
    # several threads inside the same proxy object
    {"contexts": 2, "objects": [0], "share": True,
     "callers": [{"ctx": 1, "prog": [["n", 0], ["n", 0], ["b", 0]]}, {"ctx": 1, "prog": [["n", 0], ["gn", 0], ["b", 0]]},
                 {"ctx": 1, "prog": [["b", 0], ["q", 0], ["b", 0]]}]},
    # the call target obtained in every way the API offers: `with proxy as x` on an instrument (local and peer), a proxy
    # returned by an RPC, the proxy returned by make_instrument, get_instrument / get_rpc_object_by_name
    {"contexts": 2, "objects": [0], "objtypes": ["instr"],
     "callers": [{"ctx": 0, "acq": "made", "prog": [["E", 0], ["n", 0], ["n", 0], ["b", 0], ["X", 0], ["b", 0]]},
                 {"ctx": 0, "acq": "byname", "prog": [["n", 0], ["n", 0], ["b", 0], ["n", 0]]},
                 {"ctx": 1, "acq": "byname", "prog": [["E", 0], ["n", 0], ["b", 0], ["X", 0]]}]},
    {"contexts": 2, "objects": [0, 0], "objtypes": ["obj", "instr"],
     "callers": [{"ctx": 0, "acq": "desc", "prog": [["P", 0], ["n", 0], ["n", 0], ["P", 1], ["n", 1], ["b", 0], ["b", 1]]},
                 {"ctx": 0, "acq": "made", "prog": [["n", 1], ["E", 1], ["n", 1], ["n", 0], ["b", 1]]},
                 {"ctx": 1, "acq": "byname", "prog": [["n", 0], ["n", 1], ["b", 0]]}]},
    # payloads of every size class the code distinguishes, followed by tiny calls of the same thread on the remote route
    "SIZED",
    # callers of every thread kind: an RPC method that calls another object and ITS OWN object (worker thread as caller:
    # non-blocking, then blocking with a short timeout; nested two deep), a QMI task thread, an event-loop callback
    {"contexts": 2, "objects": [0, 1],
     "callers": [{"ctx": 0, "prog": [["n", 0], ["R", 0, None, [["n", 0, []], ["n", 0, []], ["t", 0, []]]], ["b", 0]]},
                 {"ctx": 1, "prog": [["n", 0], ["Rn", 1, None, [["n", 0, []], ["n", 1, []], ["t", 0, []], ["t", 1, []]]], ["n", 1], ["b", 1]]}]},
    {"contexts": 2, "objects": [0, 1],
     "callers": [{"ctx": 1, "prog": [["R", 0, None, [["n", 1, [["n", 0, []], ["n", 1, []], ["t", 0, []]]], ["n", 0, []], ["t", 1, []]]], ["b", 0], ["b", 1]]},
                 {"ctx": 0, "kind": "task", "prog": [["n", 0], ["n", 1], ["b", 0], ["n", 1], ["b", 1]]},
                 {"ctx": 1, "kind": "loop", "prog": [["n", 0], ["n", 1], ["n", 0], ["gn", 1]]},
                 {"ctx": 0, "kind": "loop", "prog": [["n", 0], ["n", 0], ["sn", 0]]}]},
    # inherited standard methods interleaved with the probe's own method
    {"contexts": 2, "objects": [0], "callers": [{"ctx": 0, "prog": [["n", 0], ["gn", 0], ["n", 0], ["g", 0]]},
                                                 {"ctx": 1, "prog": [["n", 0], ["sn", 0], ["gn", 0], ["s", 0]]},
                                                 {"ctx": 1, "prog": [["n", 0], ["n", 0], ["g", 0]]}]},
]


def sized_scenarios():
    """fixed corpus built from the size constants of the current source: every target frame size once, each followed by
    tiny calls of the same thread over the remote route; the three fixed large ones also with a second remote caller"""
    out = []
    targets = frame_size_targets()
    for i in range(0, len(targets), 3):
        prog = []
        for t in targets[i:i + 3]:
            prog += [["n", 0, 1, t], ["n", 0, 1], ["gn", 0, 1]]
        prog.append(["b", 0, 1])
        out.append({"contexts": 2, "objects": [0], "callers": [{"ctx": 1, "prog": prog}, {"ctx": 0, "prog": [["n", 0], ["b", 0]]}]})
    for t in FIXED_LARGE:
        out.append({"contexts": 3, "objects": [0], "callers": [
            {"ctx": 1, "prog": [["n", 0, 1, t], ["n", 0, 1], ["q", 0, 1], ["n", 0, 1, 3000], ["b", 0, 1]]},
            {"ctx": 2, "prog": [["n", 0, 2], ["b", 0, 2, t // 2], ["n", 0, 2]]}]})
    return out


def fixed_scenarios():
    out = []
    for x in FIXED_SCENARIOS_RAW:
        out += sized_scenarios() if x == "SIZED" else [x]
    return [sanitize(x) for x in out]


class _Fixed:
    """FIXED_SCENARIOS is built on first use (it reads the size constants of the code under test)"""
    _v = None

    def _get(self):
        if _Fixed._v is None:
            _Fixed._v = fixed_scenarios()
        return _Fixed._v

    def __iter__(self):
        return iter(self._get())

    def __len__(self):
        return len(self._get())

    def __getitem__(self, i):
        return self._get()[i]


FIXED_SCENARIOS = _Fixed()


class C03(Prop):
    id = "C03"
    lean_modules = ["QmiModel.Props.C03"]
    driver = "drv_c03"
    modelled_not_verified = [
        "single-workerness is structural in the model (`cur o : Option Req`, `workerPop` guarded by `cur o = none`, `start` "
        "guarded by `worker o = none`); that the code has this shape is the obligation code_shape_single_worker on "
        "Gen/RpcShape.lean (AST translator harness/tr_rpcshape.py, trusted) plus trace refinement and the overlap/second-thread "
        "oracle on explored schedules",
        "order is proved and checked per (caller thread, proxy context, object); across proxies of different contexts used by "
        "one thread it does not hold (theorem cross_route_overtake, known finding order-across-routes)",
        "TCP = reliable FIFO byte stream; asyncio ready queue = FIFO (simulated by harness/simnet.py)",
        "connection loss and the content of replies are not part of this model (C01/C02/C06); a lock request is one more request "
        "(its effect: C04); context stop is exercised only as the final clean-up of each scenario",
        "threading.Lock/Condition as specified (cooperative versions of harness/detsched.py)",
        "a request the OS refuses to send (send-fault family) has no action in the model: those scenarios are judged by the "
        "order / single-worker oracle only, not trace-refined",
    ]

    # -- translator: shape of the worker code (Gen/RpcShape.lean) ---------------------------------
    def translate(self, ctx: Ctx):
        from harness import core, tr_rpcshape
        gen = core.LEAN / "QmiModel" / "Gen" / "RpcShape.lean"
        core.write_if_changed(gen, tr_rpcshape.render(tr_rpcshape.extract(core.REPO)))
        return [gen]

    # -- one scenario: run, refine, judge ---------------------------------------------------------
    def _one(self, seed, scn, policy, cps, res, batch, extra_trace=False):
        out = run_impl(seed, scn, policy=policy, change_points=cps, extra_trace=extra_trace)
        events = list(out.sched.events)
        case = {"seed": seed, "scn": scn, "policy": policy, "change_points": cps, "extra_trace": extra_trace}
        v = oracle(scn, events)
        prob = completion_problem(out, events, scn)
        lines, outs = to_lines(scn, events)
        batch.append((case, lines, outs, prob, v))
        return out, events, v, prob

    def _flush(self, batch, res):
        """Feed all event logs of the batch to the Lean driver; record disagreements."""
        if not batch:
            return
        all_lines, all_outs = [], []
        for case, lines, outs, prob, v in batch:
            all_lines += lines
            all_outs += outs
        model = LeanDriver(self.driver).run(all_lines)
        pos = 0
        for case, lines, outs, prob, v in batch:
            m = model[pos:pos + len(lines)]
            pos += len(lines)
            k = diff_streams(lines, outs, m)
            res.traces_validated += 1
            if k is not None and len([b for b in res.broken if b.name.startswith("Pipeline.step")]) < 4:
                res.broken.append(Broken(
                    "correspondence", "Pipeline.step vs real request path",
                    f"event line {k}: {lines[k]!r}: implementation implies {outs[k]!r}, model answers {m[k]!r}; "
                    f"context: {lines[max(0, k - 6):k]}", case=case))
            if prob is not None and len([b for b in res.broken if b.name == "scenario did not complete"]) < 4:
                res.broken.append(Broken("correspondence", "scenario did not complete", prob, case=case))
        batch.clear()

    def _fail(self, ctx, res, case, v, shrink=True):
        if sum(1 for f in res.failures if f.signature == _sig(v)) >= 1 or len(res.failures) >= 12:
            return
        if shrink and len(res.failures) < 5:      # shrinking costs ~100 runs; a handful of minimal replays is enough
            case, v = self._shrink(case, v)
        res.failures.append(Failure(
            signature=_sig(v),
            summary=f"{v[0]} ({v[1]} {v[2]} call): {v[3]}; scenario={case['scn']} seed={case['seed']} policy={case['policy']} "
                    f"change_points={case['change_points']}",
            replay=case))

    def _judge(self, case):
        out = run_impl(case["seed"], case["scn"], policy=case["policy"], change_points=case["change_points"],
                       extra_trace=case.get("extra_trace", False))
        return oracle(case["scn"], list(out.sched.events))

    def _shrink(self, case, v, budget=120):
        """Greedy deletion of callers, then of single ops, keeping a violation of the same clause (a few seeds each)."""
        runs = [0]

        def still(scn):
            for ds in range(4):
                if runs[0] >= budget:
                    return None
                runs[0] += 1
                c2 = dict(case, scn=scn, seed=f"{case['seed']}" if ds == 0 else f"{case['seed']}~{ds}")
                v2 = self._judge(c2)
                if v2 is not None and v2[0] == v[0]:
                    return c2, v2
            return None

        cur, curv = case, v
        changed = True
        while changed and runs[0] < budget:
            changed = False
            scn = cur["scn"]
            cands = []
            for i in range(len(scn["callers"])):
                if len(scn["callers"]) > 1:
                    cands.append(dict(scn, callers=scn["callers"][:i] + scn["callers"][i + 1:]))
            for i, cal in enumerate(scn["callers"]):
                for j in range(len(cal["prog"])):
                    if len(cal["prog"]) > 1 and not any(op[0] == "w" for op in cal["prog"][j + 1:]):
                        c2 = dict(cal, prog=cal["prog"][:j] + cal["prog"][j + 1:])
                        cands.append(dict(scn, callers=scn["callers"][:i] + [c2] + scn["callers"][i + 1:]))
            for cand in cands:
                cand = sanitize(cand)
                if any(not c["prog"] for c in cand["callers"]):
                    continue
                r = still(cand)
                if r:
                    cur, curv = r
                    changed = True
                    break
        return cur, curv

    # -- the check ----------------------------------------------------------------------------------
    def correspondence(self, ctx: Ctx) -> Result:
        res = Result(rule="scenario = (contexts 1..3, objects 1..2 with home contexts, 1..6 caller threads each bound to a "
                          "context with a program of blocking / non-blocking calls and waits) x schedule (seed, policy); "
                          "non-trivial = at least two calls; distinct by (scenario, seed, policy)")
        n = ctx.scale(290, 5000)
        batch = []
        todo = [(f"{ctx.seed}:fix{i}:{j}", s, pol) for i, s in enumerate(FIXED_SCENARIOS)
                for j, pol in enumerate(["weighted", "pct"] * ctx.scale(1, 4))]
        for i in range(n):
            scn = gen_scenario(ctx.rng, big=not ctx.quick)
            pol = "pct" if ctx.rng.random() < 0.4 else "weighted"
            todo.append((f"{ctx.seed}:{i}", scn, pol))
        for idx, (seed, scn, pol) in enumerate(todo):
            xt = (idx % 7 == 3)
            out, events, v, prob = self._one(seed, scn, pol, None, res, batch, extra_trace=xt)
            case = batch[-1][0]
            res.note_case((repr(scn), seed, pol), nontrivial=scenario_is_nontrivial(scn))
            self._stats(res, scn, events, out, pol)
            if idx < 3:
                res.sample({"scenario": scn, "seed": seed, "policy": pol, "steps": out.sched.steps,
                            "event_lines_head": batch[-1][1][:30]})
            if v is not None:
                self._fail(ctx, res, case, v)
            if len(batch) >= 200:
                self._flush(batch, res)
        self._flush(batch, res)
        # send-fault family (oracle only: the model has no action for a request the OS refuses to send): the k-th probe request
        # handed to a TCP connection raises, for every exception class and every position of a burst, under several schedules
        for si, scn in enumerate(sendfault_scenarios(ctx.quick)):
            for j in range(ctx.scale(4, 16)):
                pol = "pct" if j % 2 else "weighted"
                case = {"seed": f"{ctx.seed}:sf{si}:{j}", "scn": scn, "policy": pol, "change_points": None, "extra_trace": False}
                out = run_impl(case["seed"], scn, policy=pol)
                events = list(out.sched.events)
                res.note_case((repr(scn), case["seed"], pol), nontrivial=True)
                res.count("sendfault_runs")
                res.count("sendfault_exc_" + scn["sendfault"][1])
                if any(e[0] == "send-failed" and str(e[3]).endswith(":injected") for e in events):
                    res.count("sendfault_runs_fault_fired")
                if any(e[0] == "result" and e[3] == "undelivered" for e in events):
                    res.count("sendfault_runs_caller_saw_delivery_error")
                if out.deadlock or out.budget or out.error is not None:
                    if len([b for b in res.broken if b.name == "send-fault scenario did not complete"]) < 3:
                        res.broken.append(Broken("correspondence", "send-fault scenario did not complete",
                                                 f"deadlock={str(out.deadlock)[:200]} budget={out.budget} error={out.error!r}", case=case))
                    continue
                v = oracle(scn, events)
                if v is not None and v[0] != "order-across-routes":
                    self._fail(ctx, res, case, (v[0], v[1], v[2] + ":after-send-fault", v[3]), shrink=False)
        # malformed stream: the driver must refuse, never default
        bad = ["", "issue", "issue 1 2 3", "pop x 0 0 0 0", "enter 1 0 0 0", "lookW 1 0 0 0 0", "nonsense 1 2 3", "final x",
               "thread", "thread a", "ctx", "object a b", "start 0", "finish 1 0 0 0 -1", "unreg", "leave 1", "reject 1 0 0 0",
               "pushW 0 0 0 x 0", "send 1 0 0 0"]
        got = LeanDriver(self.driver).run(["init"] + bad)
        if got[1:] != ["bad-op"] * len(bad):
            res.broken.append(Broken("correspondence", "drv_c03 malformed lines", f"expected bad-op for all of {bad}, got {got[1:]}"))
        res.count("malformed_lines", len(bad))
        return res

    def _stats(self, res, scn, events, out, pol):
        res.count(f"policy_{pol}")
        res.count(f"contexts_{scn['contexts']}")
        res.count(f"objects_{len(scn['objects'])}")
        res.count(f"callers_{len(scn['callers'])}")
        homes = scn["objects"]
        for ci, cal in enumerate(scn["callers"]):
            waited = {op[1] for op in cal["prog"] if op[0] == "w"}
            nb = 0
            for op in cal["prog"]:
                if op[0] == "w":
                    continue
                res.count({"b": "calls_hit_blocking", "t": "calls_hit_blocking_with_tiny_timeout", "n": "calls_hit_nonblocking", "k": "calls_long_running_nonblocking", "R": "calls_relay_blocking", "Rn": "calls_relay_nonblocking", "g": "calls_get_name_blocking",
                           "gn": "calls_get_name_nonblocking", "s": "calls_get_signals_blocking",
                           "sn": "calls_get_signals_nonblocking", "q": "calls_is_locked", "L": "calls_lock",
                           "U": "calls_unlock", "F": "calls_force_unlock", "P": "calls_returning_a_proxy",
                           "E": "calls_with_enter", "X": "calls_with_exit"}[op[0]])
                if op[0] in NONBLOCKING:
                    res.count("calls_nonblocking_waited" if nb in waited else "calls_nonblocking_never_waited")
                    nb += 1
                res.count("calls_local" if op_via(cal, op) == homes[op[1]] else "calls_remote")
                if op_via(cal, op) != cal["ctx"]:
                    res.count("calls_through_a_proxy_of_another_context")
        res.count("lock_request_enqueued_behind_queued_requests",
                  sum(1 for e in events if e[0] == "fifo+" and len(e[3]) >= 2 and any(
                      x[0] == "exec-enter" and x[2] == e[2] and x[3].startswith("lock:") for x in events)))
        res.count("scenarios_with_object_removal", 1 if scn.get("removals") else 0)
        res.count("objects_recreated_under_the_same_name", sum(1 for e in events if e[0] == "recreated"))
        res.count("scenarios_with_shared_proxies", 1 if scn.get("share") else 0)
        res.count("objects_of_type_instrument", sum(1 for t in scn.get("objtypes", []) if t == "instr"))
        for e in events:
            if e[0] == "target":
                res.count("call_target_obtained_by_" + e[2])
        res.count("calls_given_up_by_timeout_before_execution", sum(1 for e in events if e[0] == "result" and e[3] == "timeout"))
        res.count("requests_rejected_by_leaving_worker", sum(1 for e in events if e[0] == "reject"))
        res.count("requests_refused_unknown_destination", sum(1 for e in events if e[0] == "lookup" and not e[3]))
        res.count("requests_refused_already_stopped", sum(1 for e in events if e[0] == "push-refused"))
        res.count("requests_executed", sum(1 for e in events if e[0] == "exec-exit"))
        res.count("release_hooks_run", sum(1 for e in events if e[0] == "hook-exec"))
        consts = size_constants()
        for e in events:
            if e[0] == "frame":
                res.count("request_frames_with_payload")
                res.count("request_frames_with_payload_exact_size", 1 if e[5] == e[6] else 0)
                for c in consts:
                    if e[6] in (c - 1, c, c + 1):
                        res.count(f"request_frames_at_boundary_{c}")
                if e[6] >= 65_000:
                    res.count("request_frames_ge_65kB")
        busy, n_busy = collections.defaultdict(int), 0
        for e in events:
            if e[0] == "exec-enter" and e[2] != "?":
                busy[e[2][2]] += 1
            elif e[0] == "exec-exit" and e[2] != "?":
                busy[e[2][2]] -= 1
            elif e[0] == "removing" and busy[e[1]] > 0:
                n_busy += 1
        res.count("removals_started_while_a_method_was_executing", n_busy)
        routes = collections.defaultdict(set)
        for e in events:
            if e[0] == "call":
                routes[(e[1], e[3])].add(e[2])
        res.count("caller_object_pairs_using_several_routes", sum(1 for v in routes.values() if len(v) > 1))
        res.count("events_total", len(events))
        res.count("sched_steps_total", out.sched.steps)
        mx = 0
        for e in events:
            if e[0] in ("fifo+", "fifo-"):
                mx = max(mx, len(e[3]))
            if e[0] == "enqR":
                res.count("ready_queue_len_ge2", 1 if len(e[4]) >= 2 else 0)
        res.count("scenarios_fifo_len_ge2", 1 if mx >= 2 else 0)
        res.count("scenarios_fifo_len_ge4", 1 if mx >= 4 else 0)
        per_obj = collections.defaultdict(set)
        for e in events:
            if e[0] == "enter":
                per_obj[e[2]].add(e[1])
        res.count("objects_executed_by_exactly_one_thread", sum(1 for v in per_obj.values() if len(v) == 1))
        res.count("objects_executed_by_several_threads", sum(1 for v in per_obj.values() if len(v) > 1))
        callers_in_fifo = max([len({k[0] for k in e[3] if k != "?"}) for e in events if e[0] in ("fifo+", "fifo-")] or [0])
        res.count("scenarios_fifo_holding_requests_of_ge2_callers", 1 if callers_in_fifo >= 2 else 0)

    def search(self, ctx: Ctx, broken) -> Result:
        res = Result()
        judge0 = self._judge

        def _judge(case):       # the known cross-route finding must not end the search for the cause of a broken link
            v = judge0(case)
            return None if v is not None and v[0] == "order-across-routes" else v
        self_judge = _judge
        cases = [b.case for b in broken if b.case and "scn" in b.case]
        seen = set()
        # 1. the disagreeing cases themselves, shrunk with respect to "oracle fails or model cannot follow"
        targets = []
        for c in cases[:4]:
            key = repr(c)
            if key in seen:
                continue
            seen.add(key)
            v = self_judge(c)
            res.note_case(("case", key))
            if v is not None:
                self._fail(ctx, res, c, v)
                return res
            targets.append(c)
        if not targets:
            targets = [{"seed": f"{ctx.seed}:s{i}", "scn": s, "policy": "pct", "change_points": None, "extra_trace": True}
                       for i, s in enumerate(FIXED_SCENARIOS)]
        # 2. systematic sweep: demote the running thread at every yield index (pct, explicit change point), on the
        #    disagreeing scenarios (smallest first) and the fixed adversarial scenarios
        targets = sorted(targets, key=lambda c: sum(len(x["prog"]) for x in c["scn"]["callers"]))
        extra = [{"seed": f"{ctx.seed}:s{i}", "scn": s, "policy": "pct", "change_points": None, "extra_trace": True}
                 for i, s in enumerate(FIXED_SCENARIOS[:3])]
        for c in (targets[:2] + extra):
            base = run_impl(c["seed"], c["scn"], policy="pct", change_points=[], extra_trace=True)
            steps = base.sched.steps
            stride = max(1, steps // ctx.scale(250, 1200))
            for k in range(1, steps, stride):
                c2 = dict(c, policy="pct", change_points=[k], extra_trace=True)
                v = self_judge(c2)
                res.note_case(("sweep", repr(c["scn"]), c["seed"], k))
                res.count("search_sweep_runs")
                if v is not None:
                    self._fail(ctx, res, c2, v)
                    return res
            # 3. random schedules on the same scenario
            for j in range(ctx.scale(150, 600)):
                c2 = dict(c, seed=f"{c['seed']}/r{j}", policy="weighted" if j % 2 else "pct", change_points=None)
                v = self_judge(c2)
                res.note_case(("rand", repr(c["scn"]), c2["seed"]))
                res.count("search_random_runs")
                if v is not None:
                    self._fail(ctx, res, c2, v)
                    return res
        return res

    def replay(self, ctx: Ctx, rp: dict):
        v = self._judge(rp)
        if v is None:
            return None
        return Failure(_sig(v), f"{v[0]} ({v[1]} {v[2]} call): {v[3]}", rp)


PROP = C03()
