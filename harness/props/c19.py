"""C19 — instrument drivers keep `open` consistent with the device link.

Model: lean/QmiModel/Model/OpenProg.lean; generic theorems: Props/C19.lean; per-class programs and obligations are
regenerated on every run from the AST of `open`/`close` (harness/tr_openprogs.py → Gen/OpenProgs*.lean).
Tie: (1) the translator, (2) line-trace correspondence: every driver class is instantiated around recording,
fault-injecting transports; for every k and every fault kind the k-th transport call of the real `open()` is
made to fail; the executed statements, the exception, `is_open()` and the link flags are compared with the
model run of the generated program under the corresponding plan.
Oracle: the property itself on the real objects (harness/c19_dyn.py `classify` + recovery + histories + closed
instrument does no device I/O).
"""
from __future__ import annotations

import traceback
from typing import Optional

from harness import core
from harness.core import Broken, Ctx, Failure, LeanDriver, Prop, Result, diff_streams, write_if_changed

GEN_PROGS = core.LEAN / "QmiModel" / "Gen" / "OpenProgs.lean"
GEN_OBL = core.LEAN / "QmiModel" / "Gen" / "OpenProgsObligations.lean"

FAULT_POINT_KINDS = ("tOpen", "io", "tClose")


class TranslatorRefusal(Exception):
    pass


def _show_links(p, links: dict) -> str:
    idx = sorted(i for i, a in enumerate(p.links) if links.get(a))
    return ",".join(map(str, idx)) if idx else "-"


def _show_ids(ids) -> str:
    return ",".join(map(str, ids)) if ids else "-"


class _ClassRun:
    """Everything the harness knows about one (class, variant): program (if translated), function maps, builder."""

    def __init__(self, D, builder, cls, variant: str, prog):
        self.D, self.builder, self.cls, self.variant, self.prog = D, builder, cls, variant, prog
        if prog is not None:
            self.maps = {w: prog.maps[w] for w in ("open", "close")}
            self.atoms = {w: prog.atoms(w) for w in ("open", "close")}
        else:
            self.maps = {w: D.func_maps(cls, w) for w in ("open", "close")}
            self.atoms = {"open": {}, "close": {}}
        self.name = prog.name if prog is not None else cls.__name__ + ("__" + variant if variant else "")

    # -- line / site → statement ------------------------------------------------
    def _map_of(self, which: str, code):
        for m in self.maps[which]:
            if m.code is code:
                return m
        return None

    def stmt_of(self, which: str, code, lineno: int):
        """(FuncMap, innermost statement id) for a line of a traced function."""
        m = self._map_of(which, code)
        if m is None:
            return None, None
        return m, m.innermost(lineno)

    def atom_of(self, which: str, code, lineno: int) -> Optional[int]:
        m, sid = self.stmt_of(which, code, lineno)
        atoms = self.atoms[which]
        while sid:
            if sid in atoms:
                return sid
            sid = m.parent(sid)
        return None

    def atom_trace(self, which: str, lines) -> list:
        """executed atoms; a statement that spans several lines (directly adjacent line events) counts once, a statement
        executed again after something else ran in between (a retry loop) counts again"""
        out = []
        prev = None
        for code, ln in lines:
            a = self.atom_of(which, code, ln)
            if a is not None and a != prev:
                out.append(a)
            prev = a
        return out

    def site_text(self, which: str, site) -> tuple:
        """(owner class name, ordinal of the innermost simple statement in its function, source text) of a call site."""
        if site is None:
            return ("?", 0, "?")
        import ast
        code, ln = site[0], site[1]
        m, sid = self.stmt_of(which, code, ln)
        if m is None or sid is None:
            return ("?", 0, "?")
        node = m.node(sid)
        return (m.owner.__name__, sid - m.base, ast.unparse(node).splitlines()[0][:80])


class C19(Prop):
    id = "C19"
    lean_modules = ["QmiModel.Props.C19", "QmiModel.Gen.OpenProgsObligations"]
    props_files = ["QmiModel/Props/C19.lean", "QmiModel/Gen/OpenProgsObligations.lean"]
    driver = "drv_c19"
    extra_trusted = [
        "harness/tr_openprogs.py (AST → abstract program; whitelist of pure statements; `io` steps are assumed not to "
        "open/close links or touch the flag — validated on every run by the line-trace correspondence)",
        "harness/c19_dyn.py fake transport: same open/close/refusal behaviour as QMI_Transport; a link-open fault "
        "persists for the rest of the open() call",
    ]
    modelled_not_verified = [
        "concrete transports (serial/TCP/UDP/USBTMC/VXI-11): replaced by a recording QMI_Transport subclass that goes through "
        "the base-class open()/close()/_check_is_open() logic; a failing close() is modelled as 'flag cleared, then raises' "
        "(what every shipped transport does: base class first, OS resource second)",
        "what happens *inside* an `io` statement (helper methods, SCPI protocol objects): one potentially-raising step",
        "BaseException (KeyboardInterrupt) during open()/close(): not an `Exception` kind of the model; drivers' `except "
        "Exception` handlers do not run for it",
        "vendor-library based drivers (PicoQuant, ADwin, Zurich Instruments …): only the flag protocol of QMI_Instrument "
        "transfers (gen_QMI_Instrument, double_open_close_refused, guarded_method_refused); their handles are not modelled as links",
        "background threads of drivers (Bristol reader thread) are kept away from the fake transport",
    ]

    def __init__(self):
        self._progs = None
        self._untranslatable = []
        self._verdicts = {}

    # ------------------------------------------------------------------ translate
    def _translate(self):
        from harness import tr_openprogs as T
        progs, bad, fails = T.translate_all()
        obl, verdicts = T.emit_obligations(progs, bad)
        self._progs, self._untranslatable, self._verdicts = progs, bad, verdicts
        self._import_fails = fails
        return T.emit_programs(progs), obl

    def translate(self, ctx: Ctx) -> list:
        ptxt, otxt = self._translate()
        write_if_changed(GEN_PROGS, ptxt)
        write_if_changed(GEN_OBL, otxt)
        ctx.log(f"translator: {len(self._progs)} programs, {len(self._untranslatable)} refused, "
                f"{sum(1 for v in self._verdicts.values() if v.get('bad_plans'))} with a computed counter-example")
        if self._untranslatable or self._import_fails:
            raise TranslatorRefusal("source not understood for: " +
                                    "; ".join(f"{n}: {w}" for n, w in self._untranslatable) +
                                    ("; import failures: " + "; ".join(f"{m}: {e}" for m, e in self._import_fails)
                                     if self._import_fails else ""))
        return [GEN_PROGS, GEN_OBL]

    # ------------------------------------------------------------------ runs on the implementation
    def _class_runs(self) -> list:
        from harness import c19_dyn as D
        if self._progs is None:
            try:
                self._translate()
            except Exception:
                self._progs, self._untranslatable, self._verdicts = [], [("*", traceback.format_exc()[-400:])], {}
        builder = D.Builder()
        by_key = {(p.cls, p.variant): p for p in self._progs}
        classes, _ = D.discover_classes()
        runs = []
        for cls in classes:
            for tag, _present in D.variants_of(cls):
                runs.append(_ClassRun(D, builder, cls, tag, by_key.get((cls, tag))))
        return runs

    def _one_open(self, cr: _ClassRun, plan, entry: str = "open"):
        """Fresh instance, open() — or `__enter__()`, what `with instr:` calls — under `plan` (None or D.Plan)."""
        b = cr.builder.build(cr.cls, cr.variant)
        b.sess.reset_counters(plan)
        o = cr.D.call_traced(b, entry, cr.maps["open"])
        return b, o

    def _model_plan(self, cr: _ClassRun, which: str, o) -> str:
        """The model plan corresponding to an implementation run: one entry per exception that surfaced in a
        potentially-raising statement of the traced function(s), index = number of fault points executed before it.
        A refusal by the transport's own state check (open on an open link, close on a closed one) is not a fault:
        the model raises it by itself and does not count it as a fault point."""
        atoms = cr.atoms[which]
        tr: list = []
        nfp = 0
        entries: list = []
        prev = None
        for ev in o.events:
            a = cr.atom_of(which, ev[1], ev[2])
            if ev[0] == "line":
                if a is not None and a != prev:
                    tr.append(a)
                    if atoms[a].kind in FAULT_POINT_KINDS:
                        nfp += 1
                prev = a
                continue
            kind = ev[3]
            if a is None or atoms[a].kind not in FAULT_POINT_KINDS or not tr or tr[-1] != a:
                continue
            if kind in ("budget", "watchdog", "base"):
                continue
            if atoms[a].kind in ("tOpen", "tClose") and kind == "invalidOp":
                nfp -= 1
                tr.append(-1)          # so that a later exception event on the same line is not attributed again
                continue
            idx = nfp - 1
            if entries and entries[-1][0] == idx:
                continue
            entries.append((idx, kind))
        return "-" if not entries else ",".join(f"{j}:{k}" for j, k in entries)

    def _impl_line(self, cr: _ClassRun, which: str, o) -> str:
        res = o.result if o.result in ("ok",) or o.result.startswith("exc:") else "aborted:" + o.result
        return (f"res={res} flag={1 if o.flag else 0} links={_show_links(cr.prog, o.links)} "
                f"trace={_show_ids(cr.atom_trace(which, o.lines))}")

    def _impl_io(self, cr: _ClassRun, which: str, o) -> list:
        out = []
        for attr, op, site, outcome in o.calls:
            if outcome == "refused" or (op == "open" and outcome != "ok"):
                continue
            a = cr.atom_of(which, site[0], site[1]) if site else None
            if a is None:
                out.append(-1)
            elif not out or out[-1] != a:
                out.append(a)
        return out

    # -- oracle ---------------------------------------------------------------
    def _recovery(self, cr: _ClassRun, b, o, free_ok: bool) -> Optional[str]:
        """After a failed (or successful) open() that left a consistent state: close() works / retry works."""
        D = cr.D
        b.sess.reset_counters(None)
        if o.flag:
            c = D.call_traced(b, "close", cr.maps["close"])
            if c.result != "ok":
                return f"close-after-open-fails({c.exc[:60]})"
            if c.flag or any(c.links.values()):
                return "close-leaves-" + (D.classify(c.flag, c.links) or "instrument-open")
            return None
        if not free_ok:
            return None
        r = D.call_traced(b, "open", cr.maps["open"])
        if r.result != "ok":
            return f"retry-fails({r.exc[:60]})"
        if not r.flag or not all(r.links.values()):
            return "retry-leaves-" + (D.classify(r.flag, r.links) or "instrument-closed")
        c = D.call_traced(b, "close", cr.maps["close"])
        if c.result != "ok" or c.flag or any(c.links.values()):
            return "close-after-retry-fails"
        return None

    def _sweep_class(self, cr: _ClassRun, res: Result, lines: list, impl: list, meta: list, with_model: bool):
        """All k × fault kinds on one (class, variant). Returns the list of Failures found by the oracle."""
        D = cr.D
        b0, o0 = self._one_open(cr, None)
        n_calls = b0.sess.n
        free_ok = o0.result == "ok"
        res.count("classes_swept")
        res.count("fault_free_open_ok" if free_ok else "fault_free_open_fails")
        found: dict = {}        # (owner, ordinal, src, clause) -> {"kinds": set, "first": replay dict, "detail": str}

        def record_model(o, tag):
            if with_model and cr.prog is not None:
                plan = self._model_plan(cr, "open", o)
                lines.append(f"reset {cr.name}")
                impl.append(f"ok nlinks={len(cr.prog.links)}")
                meta.append(None)
                lines.append(f"open {plan}")
                impl.append(self._impl_line(cr, "open", o))
                meta.append({"class": cr.cls.__name__, "variant": cr.variant, "fault": tag, "model_plan": plan,
                             "impl_io": self._impl_io(cr, "open", o), "exc": o.exc})
                return plan
            return None

        def judge(b, o, k, kind):
            clause = D.classify(o.flag, o.links)
            site = o.fired[2] if o.fired else ((o.first_exc[0], o.first_exc[1]) if o.first_exc else None)
            if clause is None and o.result not in ("budget", "watchdog"):
                clause = self._recovery(cr, b, o, free_ok)
            if clause is None:
                return
            owner, ordinal, src = cr.site_text("open", site)
            key = (owner, ordinal, src, clause)
            e = found.setdefault(key, {"kinds": set(), "first": None, "detail": "", "classes": set()})
            e["kinds"].add(kind)
            if e["first"] is None:
                e["first"] = {"class": cr.cls.__name__, "module": cr.cls.__module__, "variant": cr.variant, "k": k, "fault_kind": kind}
                e["detail"] = (f"is_open()={o.flag} links={o.links} after open() raised {o.exc!r}; "
                               f"transport calls: {[(c[0], c[1], c[3]) for c in o.calls][-6:]}")

        record_model(o0, "none")
        judge(b0, o0, 0, "none")
        res.note_case((cr.name, 0, "none", o0.result), nontrivial=False)
        for k in range(1, n_calls + 2):
            for kind in D.ALL_FAULTS:
                b, o = self._one_open(cr, D.Plan(k, kind))
                if kind in D.DATA_KINDS and b.sess.fired is None and k <= n_calls:
                    res.count("junk_not_applicable(non-read call)")
                    continue
                fired_at = b.sess.fired
                fired = fired_at is not None
                plan = record_model(o, f"{k}:{kind}")
                judge(b, o, k, kind)
                res.note_case((cr.name, k, kind, o.result, o.flag, tuple(sorted(o.links.items()))), nontrivial=fired)
                res.count("fault_" + kind)
                res.count("open_result_" + o.result)
                res.count("state_after_open_" + (D.classify(o.flag, o.links) or ("fully-open" if o.flag else "fully-closed")))
                if fired:
                    res.count("faults_fired_at_" + fired_at[1])
                if o.result in ("budget", "watchdog"):
                    res.count("runs_aborted_by_guard")
                if len(res.samples) < 4 and fired and kind != "junk":
                    res.sample({"class": cr.name, "fault": f"call #{k} ({fired_at[1]}) raises {kind}",
                                "statement": cr.site_text("open", fired_at[2]),
                                "impl": {"result": o.result, "is_open": o.flag, "links": o.links}, "model_plan": plan})
        # the same faults through the other way to open an instrument: `with instr:` = __enter__() / __exit__()
        found_open, found = found, {}
        for k in range(1, n_calls + 1):
            for kind in (("timeout",) if getattr(self, "_tier_quick", True) else D.EXC_KINDS):
                b, o = self._one_open(cr, D.Plan(k, kind), entry="__enter__")
                record_model(o, f"__enter__ {k}:{kind}")
                judge(b, o, k, kind)
                res.note_case((cr.name, "enter", k, kind, o.result, o.flag), nontrivial=b.sess.fired is not None or True)
                res.count("with_statement_entry_runs")
        found_enter, found = found, found_open
        fails = []
        for (owner, ordinal, src, clause), e in sorted(found_enter.items()):
            if (owner, ordinal, src, clause) in found and e["kinds"] <= found[(owner, ordinal, src, clause)]["kinds"]:
                continue            # the same failure as through open(): reported there
            kinds = ",".join(sorted(e["kinds"]))
            sig = f"{owner}.open stmt {ordinal} `{src}` via `with instr:` (__enter__) -> {clause} [{kinds}]"
            fails.append(Failure(sig, f"{cr.name}: entered through __enter__(): fault ({kinds}) in statement {ordinal} `{src}` of "
                                      f"{owner}.open() -> {clause}; {e['detail']}",
                                 {"kind": "fault", **e["first"], "entry": "__enter__", "signature": sig}))
        for (owner, ordinal, src, clause), e in sorted(found.items()):
            kinds = ",".join(sorted(e["kinds"]))
            sig = f"{owner}.open stmt {ordinal} `{src}` -> {clause} [{kinds}]"
            what = (f"leaves the instrument {clause}" if clause.startswith(("closed-but", "open-but"))
                    else f"is followed by: {clause}")
            fails.append(Failure(sig, f"{cr.name}: fault ({kinds}) in statement {ordinal} `{src}` of {owner}.open() "
                                      f"{what}; {e['detail']}",
                                 {"kind": "fault", **e["first"], "signature": sig}))
        return fails, n_calls, free_ok, sorted({c[1] for c in o0.calls if c[3] == 'ok' and c[1] != 'close'})

    # -- several faults in one open() ---------------------------------------------
    def _sweep_multi(self, cr: _ClassRun, ctx: Ctx, res: Result, lines, impl, meta, with_model: bool, n_calls: int):
        """Two faults in one open(): the k1-th transport call fails, and then the k2-th (k1 < k2 ≤ k1+reach) — which
        is typically the `close()` of the cleanup handler or the next I/O of a post-flag sequence."""
        D = cr.D
        combos = [("timeout", "os"), ("os", "instr")] if ctx.quick else [(a, b) for a in D.EXC_KINDS for b in D.EXC_KINDS]
        reach = ctx.scale(2, 4)
        found: dict = {}
        for k1 in range(1, n_calls + 1):
            for k2 in range(k1 + 1, k1 + 1 + reach):
                for ka, kb in combos:
                    b = cr.builder.build(cr.cls, cr.variant)
                    b.sess.reset_counters([D.Plan(k1, ka), D.Plan(k2, kb)])
                    o = D.call_traced(b, "open", cr.maps["open"])
                    nf = len(b.sess.fired_list)
                    second = b.sess.fired_list[1] if nf > 1 else None
                    res.note_case((cr.name, "2faults", k1, ka, k2, kb, o.result, o.flag), nontrivial=(nf == 2))
                    res.count("two_fault_runs")
                    if nf < 2:
                        continue            # the second call never happened: same as the single-fault run
                    res.count("two_faults_both_fired")
                    res.count("second_fault_at_" + second[1])
                    if with_model and cr.prog is not None:
                        plan = self._model_plan(cr, "open", o)
                        lines += [f"reset {cr.name}", f"open {plan}"]
                        impl += [f"ok nlinks={len(cr.prog.links)}", self._impl_line(cr, "open", o)]
                        meta += [None, {"class": cr.cls.__name__, "variant": cr.variant, "fault": f"{k1}:{ka},{k2}:{kb}",
                                        "model_plan": plan, "impl_io": self._impl_io(cr, "open", o), "exc": o.exc}]
                    clause = D.classify(o.flag, o.links)
                    if clause is None and o.result not in ("budget", "watchdog"):
                        clause = self._recovery(cr, b, o, True)
                    if clause:
                        o1, n1, s1 = cr.site_text("open", b.sess.fired_list[0][2] if b.sess.fired_list else None)
                        o2, n2, s2 = cr.site_text("open", second[2])
                        key = (o1, n1, s1, second[1], n2, s2, clause)
                        e = found.setdefault(key, {"kinds": set(), "first": None, "detail": ""})
                        e["kinds"].add(f"{ka}+{kb}")
                        if e["first"] is None:
                            e["first"] = {"class": cr.cls.__name__, "module": cr.cls.__module__, "variant": cr.variant,
                                          "k": k1, "fault_kind": ka, "k2": k2, "fault_kind2": kb}
                            e["detail"] = f"is_open()={o.flag} links={o.links} after open() raised {o.exc!r}"
        fails = []
        for (o1, n1, s1, op2, n2, s2, clause), e in sorted(found.items()):
            sig = f"{o1}.open 2 faults: stmt {n1} `{s1}` then stmt {n2} `{s2}` ({op2}) -> {clause} [{','.join(sorted(e['kinds']))}]"
            fails.append(Failure(sig, f"{cr.name}: two faults in open(): {sig}; {e['detail']}",
                                 {"kind": "fault2", **e["first"], "signature": sig}))
        return fails

    # -- "fails k times, then answers": retry loops ------------------------------------------------------------------
    @staticmethod
    def _retry_bound(cls) -> int:
        """largest integer class constant that looks like a retry bound (…RETRY…, …ATTEMPT…, …TRIES…) + 2; default 3"""
        best = 1
        for k in cls.__mro__:
            if not k.__module__.startswith("qmi.instruments."):
                continue
            for n, v in vars(k).items():
                u = n.upper()
                if isinstance(v, int) and not isinstance(v, bool) and 0 < v <= 10 and any(t in u for t in ("RETRY", "RETRIES", "ATTEMPT", "TRIES")):
                    best = max(best, v)
        return best + 2

    def _sweep_failfirst(self, cr: _ClassRun, ctx: Ctx, res: Result, lines, impl, meta, with_model: bool, ops_seen: list):
        """For every transport method that open() uses: its first k calls fail, the next one succeeds, for
        k = 1 … (retry bound of the class)+2.  Independent of the translator (oracle only when there is no program)."""
        D = cr.D
        bound = self._retry_bound(cr.cls)
        kinds = ("timeout", "os") if ctx.quick else D.EXC_KINDS
        found: dict = {}
        for op in ops_seen:
            for k in range(1, bound + 1):
                for kind in kinds:
                    b = cr.builder.build(cr.cls, cr.variant)
                    b.sess.reset_counters(None, fail_first=(op, k, kind))
                    o = D.call_traced(b, "open", cr.maps["open"])
                    nf = len(b.sess.fired_list)
                    res.note_case((cr.name, "failfirst", op, k, kind, o.result, o.flag), nontrivial=nf > 0)
                    res.count("fail_first_k_runs")
                    res.count(f"fail_first_k_faults_fired_{min(nf, 7)}")
                    if o.result == "ok":
                        res.count("fail_first_k_open_succeeded_after_retries" if nf else "fail_first_k_no_fault")
                    if with_model and cr.prog is not None:
                        plan = self._model_plan(cr, "open", o)
                        lines += [f"reset {cr.name}", f"open {plan}"]
                        impl += [f"ok nlinks={len(cr.prog.links)}", self._impl_line(cr, "open", o)]
                        meta += [None, {"class": cr.cls.__name__, "variant": cr.variant, "fault": f"first {k} {op}() fail with {kind}",
                                        "model_plan": plan, "impl_io": self._impl_io(cr, "open", o), "exc": o.exc}]
                    clause = D.classify(o.flag, o.links)
                    if clause is None and o.result not in ("budget", "watchdog"):
                        clause = self._recovery(cr, b, o, True)
                    if clause:
                        site = b.sess.fired_list[-1][2] if b.sess.fired_list else None
                        owner, ordinal, src = cr.site_text("open", site)
                        e = found.setdefault((owner, ordinal, src, op, clause), {"ks": set(), "kinds": set(), "first": None, "detail": ""})
                        e["ks"].add(k)
                        e["kinds"].add(kind)
                        if e["first"] is None:
                            e["first"] = {"class": cr.cls.__name__, "module": cr.cls.__module__, "variant": cr.variant,
                                          "op": op, "k": k, "fault_kind": kind}
                            e["detail"] = (f"the first {k} call(s) of transport.{op}() failed ({kind}), call {k + 1} "
                                           f"{'succeeded' if nf == k else 'was not reached'}; open() "
                                           f"{'returned' if o.result == 'ok' else 'raised ' + repr(o.exc)}; is_open()={o.flag} links={o.links}")
        fails = []
        for (owner, ordinal, src, op, clause), e in sorted(found.items()):
            ks = ",".join(map(str, sorted(e["ks"])))
            sig = f"{owner}.open stmt {ordinal} `{src}`: first k={ks} {op}() calls fail then succeed -> {clause} [{','.join(sorted(e['kinds']))}]"
            fails.append(Failure(sig, f"{cr.name}: {sig}; {e['detail']}", {"kind": "failfirst", **e["first"], "signature": sig}))
        return fails

    # -- faults inside close() ----------------------------------------------------
    def _sweep_close(self, cr: _ClassRun, ctx: Ctx, res: Result, lines, impl, meta, with_model: bool):
        """After a fault-free open(): the k-th transport call of close() (a final I/O, or a transport's close()
        itself) fails.  The instrument must end fully closed with every link released, or stay fully open."""
        D = cr.D

        def opened():
            b = cr.builder.build(cr.cls, cr.variant)
            b.sess.reset_counters(None)
            o = D.call_traced(b, "open", cr.maps["open"])
            return b, o
        b0, o0 = opened()
        if o0.result != "ok" or not o0.flag:
            return []
        b0.sess.reset_counters(None)
        c0 = D.call_traced(b0, "close", cr.maps["close"])
        n_close = b0.sess.n
        res.count("transport_calls_in_fault_free_close", n_close)
        found: dict = {}
        for k in range(1, n_close + 1):
            for kind in D.ALL_FAULTS:
                b, o = opened()
                b.sess.reset_counters(D.Plan(k, kind))
                c = D.call_traced(b, "close", cr.maps["close"])
                fired = b.sess.fired
                if fired is None:
                    res.count("close_junk_not_applicable(non-read call)")
                    continue
                res.note_case((cr.name, "close", k, kind, c.result, c.flag, tuple(sorted(c.links.items()))), nontrivial=True)
                res.count("close_fault_" + kind)
                res.count("close_fault_at_" + fired[1])
                res.count("state_after_faulty_close_" + (D.classify(c.flag, c.links) or ("fully-open" if c.flag else "fully-closed")))
                if with_model and cr.prog is not None:
                    plan = self._model_plan(cr, "close", c)
                    lines += [f"reset {cr.name}", "open -", f"close {plan}"]
                    impl += [f"ok nlinks={len(cr.prog.links)}", self._impl_line(cr, "open", o), self._impl_line(cr, "close", c)]
                    meta += [None, {"class": cr.cls.__name__, "variant": cr.variant, "fault": "none"},
                             {"class": cr.cls.__name__, "variant": cr.variant, "fault": f"close {k}:{kind}", "model_plan": plan,
                              "impl_io": self._impl_io(cr, "close", c), "exc": c.exc}]
                clause = D.classify(c.flag, c.links)
                if clause is None and c.result not in ("budget", "watchdog"):
                    b.sess.reset_counters(None)
                    if c.flag:      # still fully open: close() must work now
                        c2 = D.call_traced(b, "close", cr.maps["close"])
                        if c2.result != "ok" or c2.flag or any(c2.links.values()):
                            clause = f"second-close-fails({c2.exc[:50]})"
                    else:           # fully closed: the instrument can be opened again
                        r = D.call_traced(b, "open", cr.maps["open"])
                        if r.result != "ok" or not r.flag or not all(r.links.values()):
                            clause = f"reopen-fails({r.exc[:50]})"
                if clause:
                    owner, ordinal, src = cr.site_text("close", fired[2])
                    e = found.setdefault((owner, ordinal, src, clause), {"kinds": set(), "first": None, "detail": ""})
                    e["kinds"].add(kind)
                    if e["first"] is None:
                        e["first"] = {"class": cr.cls.__name__, "module": cr.cls.__module__, "variant": cr.variant,
                                      "k": k, "fault_kind": kind}
                        e["detail"] = (f"is_open()={c.flag} links={c.links} after close() raised {c.exc!r}; "
                                       f"transport calls: {[(x[0], x[1], x[3]) for x in c.calls][-5:]}")
        # close() of an instrument that has been *used*: every RPC method is called once on the open instrument
        # (generic arguments, failures ignored) so that state-dependent branches of close() run (timers, heaters,
        # background threads …); then close() without any fault must leave a consistent state.
        try:
            b, o = opened()
            used = 0
            for name in D.rpc_methods(cr.cls):
                args = D.generic_args(getattr(cr.cls, name))
                if args is None:
                    continue
                b.sess.reset_counters(None)
                r = D.call_traced(b, name, [], *args)
                used += 1
                if r.result in ("budget", "watchdog"):
                    break
            if b.inst.is_open() and all(t._is_open for t in b.fakes.values()):
                b.sess.reset_counters(None)
                c = D.call_traced(b, "close", cr.maps["close"])
                res.count("close_after_use_runs")
                res.count("close_after_use_" + c.result.split(":")[0])
                res.note_case((cr.name, "close-after-use", c.result, c.flag), nontrivial=True)
                clause = D.classify(c.flag, c.links)
                if clause and c.result not in ("budget", "watchdog"):
                    owner = next(k for k in cr.cls.__mro__ if "close" in k.__dict__).__name__
                    site = (c.first_exc[0], c.first_exc[1]) if c.first_exc else None
                    _o, ordinal, src = cr.site_text("close", site)
                    e = found.setdefault((owner, ordinal, src, clause + "-after-use"), {"kinds": set(), "first": None, "detail": ""})
                    e["kinds"].add("none")
                    e["first"] = e["first"] or {"class": cr.cls.__name__, "module": cr.cls.__module__, "variant": cr.variant,
                                                "k": 0, "fault_kind": "none"}
                    e["detail"] = (f"after calling {used} RPC methods on the open instrument, close() without any fault raised "
                                   f"{c.exc!r} and left is_open()={c.flag} links={c.links}")
        except Exception as e:
            res.count("close_after_use_harness_error")
        fails = []
        for (owner, ordinal, src, clause), e in sorted(found.items()):
            kinds = ",".join(sorted(e["kinds"]))
            sig = f"{owner}.close stmt {ordinal} `{src}` -> {clause} [{kinds}]"
            fails.append(Failure(sig, f"{cr.name}: fault ({kinds}) in statement {ordinal} `{src}` of {owner}.close() "
                                      f"leaves the instrument {clause}; {e['detail']}",
                                 {"kind": "closefault", **e["first"], "signature": sig}))
        return fails

    # -- histories ------------------------------------------------------------
    def _history(self, cr: _ClassRun, ops: list, lines, impl, meta, with_model: bool):
        """open/close/is_open sequence on one instance. An op is "open" | "close" | "isopen" | ["open", k, kind]
        (open() whose k-th transport call is faulty). Returns oracle clause or None.  A faulty open() that leaves an
        *inconsistent* state ends the history silently: that is the fault sweep's finding, with its own signature."""
        D = cr.D
        b = cr.builder.build(cr.cls, cr.variant)
        if with_model and cr.prog is not None:
            lines.append(f"reset {cr.name}")
            impl.append(f"ok nlinks={len(cr.prog.links)}")
            meta.append(None)
        ref_open = False
        clause = None
        for op in ops:
            plan = None
            if not isinstance(op, str):
                plan = D.Plan(int(op[1]), str(op[2]))
                op = str(op[0])
            meth = {"enter": "__enter__", "exit": "__exit__"}.get(op, op)      # `with instr:` enters / leaves
            margs = (None, None, None) if op == "exit" else ()
            op = {"enter": "open", "exit": "close"}.get(op, op)
            b.sess.reset_counters(plan)
            opens0 = dict(b.sess.link_opens)
            closes0 = dict(b.sess.link_closes)
            if op == "isopen":
                v = bool(b.inst.is_open())
                if with_model and cr.prog is not None:
                    lines.append("isopen")
                    impl.append("1" if v else "0")
                    meta.append({"class": cr.cls.__name__, "variant": cr.variant, "history": ops})
                if v != ref_open:
                    clause = clause or "is_open-wrong-after-history"
                continue
            o = D.call_traced(b, meth, cr.maps[op], *margs)
            if with_model and cr.prog is not None:
                lines.append(f"{op} {self._model_plan(cr, op, o)}")
                impl.append(self._impl_line(cr, op, o))
                meta.append({"class": cr.cls.__name__, "variant": cr.variant, "history": ops,
                             "impl_io": self._impl_io(cr, op, o), "exc": o.exc})
            d_open = {a: b.sess.link_opens.get(a, 0) - opens0.get(a, 0) for a in b.fakes}
            d_close = {a: b.sess.link_closes.get(a, 0) - closes0.get(a, 0) for a in b.fakes}
            if op == "open" and plan is not None and not ref_open:
                if o.result in ("budget", "watchdog") or D.classify(o.flag, o.links) is not None:
                    break
                if o.result == "ok" and any(v != 1 for v in d_open.values()):
                    clause = clause or "open-does-not-open-each-link-exactly-once"
                ref_open = o.flag
            elif op == "close" and plan is not None and ref_open:
                # a fault inside close(): the sweep over close() reports inconsistent outcomes with its own signature
                if o.result in ("budget", "watchdog") or D.classify(o.flag, o.links) is not None:
                    break
                ref_open = o.flag
            elif op == "open":
                if not ref_open:
                    if o.result != "ok":
                        clause = clause or "open-of-closed-instrument-fails"
                    elif not (o.flag and all(o.links.values())):
                        clause = clause or "open-leaves-" + (D.classify(o.flag, o.links) or "closed")
                    elif any(v != 1 for v in d_open.values()):
                        clause = clause or "open-does-not-open-each-link-exactly-once"
                    else:
                        ref_open = True
                else:
                    if o.result == "ok":
                        clause = clause or "open-of-open-instrument-not-refused"
                    elif not (o.flag and all(o.links.values())) or any(d_open.values()) or any(d_close.values()):
                        clause = clause or "refused-open-changed-state"
            else:
                if ref_open:
                    if o.result != "ok":
                        clause = clause or "close-of-open-instrument-fails"
                    elif o.flag or any(o.links.values()):
                        clause = clause or "close-leaves-" + (D.classify(o.flag, o.links) or "open")
                    elif any(v != 1 for v in d_close.values()):
                        clause = clause or "close-does-not-close-each-link-exactly-once"
                    else:
                        ref_open = False
                else:
                    if o.result == "ok":
                        clause = clause or "close-of-closed-instrument-not-refused"
                    elif o.flag or any(o.links.values()) or o.device_io:
                        clause = clause or "refused-close-changed-state"
            if clause:
                break
        return clause

    def _closed_no_io(self, cr: _ClassRun, res: Result, after_close):
        """Every RPC method of a closed instrument: no device I/O, link stays closed, flag stays false.
        after_close: False = fresh instance; True = after an open/close round; "failed" = after an open() whose
        first transport call timed out."""
        D = cr.D
        b = cr.builder.build(cr.cls, cr.variant)
        if after_close == "failed":
            b.sess.reset_counters(D.Plan(1, "timeout"))
            D.call_traced(b, "open", cr.maps["open"])
            if b.inst.is_open() or any(t._is_open for t in b.fakes.values()):
                return None      # reported by the fault sweep
        elif after_close:
            D.call_traced(b, "open", cr.maps["open"])
            D.call_traced(b, "close", cr.maps["close"])
            if b.inst.is_open() or any(t._is_open for t in b.fakes.values()):
                return None      # reported by the history oracle
        bad = []
        try:
            from harness import tr_openprogs as T
            static = T.guard_table(cr.cls)
        except Exception:
            static = {}
        for name in D.rpc_methods(cr.cls):
            fn = getattr(cr.cls, name)
            args = D.generic_args(fn)
            if args is None:
                res.count("rpc_methods_skipped(signature)")
                continue
            b.sess.reset_counters(None)
            io0 = b.sess.device_io
            o = D.call_traced(b, name, [], *args)
            res.count("rpc_calls_on_closed_instrument")
            res.count("rpc_closed_outcome_" + (o.result if not o.result.startswith("exc:") else "refused/" + o.result[4:]))
            attempted = len(b.sess.calls) > 0
            st = static.get(name)
            if st is not None:
                res.count(f"rpc_static_{st}" + ("_transport_asked" if attempted else "_transport_not_asked"))
                if st != "UNGUARDED" and attempted:
                    # the static analysis claims an instrument-level check comes first, the real method asked the transport
                    res.broken.append(Broken("correspondence", f"C19.guard_analysis.{cr.cls.__name__}.{name}",
                                             f"static analysis says {st}, but on the closed instrument the method reached the "
                                             f"transport: {[(c[0], c[1], c[3]) for c in b.sess.calls][:4]}",
                                             case={"class": cr.cls.__name__, "variant": cr.variant, "method": name}))
            if b.sess.device_io != io0 or any(o.links.values()) or o.flag:
                bad.append((name, f"device_io={b.sess.device_io - io0} links={o.links} is_open={o.flag}"))
                break
        return bad

    # -- real transports over fake OS / library endpoints -----------------------------------------------------------
    def _endpoint_histories(self, cr: _ClassRun, ctx: Ctx, res: Result, kinds=None) -> list:
        """never-opened → every RPC method, and open → close → every RPC method, with the REAL transport classes
        (tcp, udp, serial, usbtmc, vxi11) over fake endpoints: no endpoint operation, no link, is_open() False."""
        from harness import c19_endpoints as E
        D = cr.D
        methods = D.rpc_methods(cr.cls)
        fails = []
        seen = set()
        for kind in (kinds or list(E.KINDS)):
            viol = E.closed_histories(cr.cls, cr.variant, kind, cr.builder, methods, res.count)
            res.note_case((cr.name, "endpoint", kind, len(viol)), nontrivial=True)
            for history, method, who, detail in viol:
                sig = f"{who} reaches the device on a closed transport ({history})"
                if sig in seen:
                    continue
                seen.add(sig)
                fails.append(Failure(sig, f"{cr.name} over a real {kind} transport, history {history} → {method}(): {who} "
                                          f"touched the endpoint although the instrument is closed: {detail}",
                                     {"kind": "endpoint", "class": cr.cls.__name__, "module": cr.cls.__module__,
                                      "variant": cr.variant, "transport": kind, "history": history, "method": method,
                                      "signature": sig}))
        return fails

    # -- faults during link establishment on the real transports, judged at the endpoint level ---------------------
    def _establish_sweep(self, cr: Optional[_ClassRun], ctx: Ctx, res: Result, kinds=None) -> list:
        from harness import c19_endpoints as E
        from harness import c19_dyn as D
        fails, seen = [], set()
        cls = cr.cls if cr is not None else None
        builder = cr.builder if cr is not None else D.Builder()
        for kind in (kinds or list(E.KINDS)):
            viol = E.establish_faults(cls, cr.variant if cr is not None else "", kind, builder, res.count)
            res.note_case(((cr.name if cr else "bare-transport"), "establish", kind, len(viol)), nontrivial=True)
            for op, way, who, clause, detail in viol:
                scope = "" if clause.startswith("endpoint left") else f" [{cr.name if cr else 'transport'}]"
                sig = f"{who}: {op} fails ({way}) -> {clause}{scope}"
                if sig in seen:
                    continue
                seen.add(sig)
                fails.append(Failure(sig, f"{cr.name if cr else 'bare ' + kind + ' transport'}: link establishment over the real "
                                          f"{kind} transport, {op} fails ({way}): {clause}; {detail}",
                                     {"kind": "establish", "class": (cr.cls.__name__ if cr else None),
                                      "module": (cr.cls.__module__ if cr else None), "variant": (cr.variant if cr else ""),
                                      "transport": kind, "op": op, "way": way, "signature": sig}))
        return fails

    # -- `with proxy:` through a real QMI_Context ---------------------------------------------------------------------
    def _proxy_sweep(self, ctx: Ctx, res: Result, runs: list) -> list:
        """Every class is created with context.make_instrument() in a real (in-process) QMI_Context and entered with
        `with proxy:` (QMI_RpcProxy.__enter__ → RPC → QMI_Instrument.__enter__ on the object's thread) while the k-th
        transport call fails; same oracle.  Finally context.stop() runs with one instrument still open."""
        from harness import c19_dyn as D
        import qmi.core.context as QC
        import qmi.core.messaging as QM
        import sys as _sys
        fails, found = [], {}
        orig_udp = QM.MessageRouter.start_udp_responder
        QM.MessageRouter.start_udp_responder = lambda self_, port: None      # no sockets of our own on the host
        qctx = QC.QMI_Context("c19ctx")
        qctx.start()
        serial = [0]
        kinds = ("timeout",) if ctx.quick else D.EXC_KINDS
        left_open = None
        try:
            for cr in runs:
                src_mod = _sys.modules[cr.cls.__module__]
                if "QMI_Thread" in vars(src_mod):
                    res.count("proxy_classes_skipped(own background thread)")
                    continue
                try:
                    cr.builder.build(cr.cls, cr.variant)
                    kw = cr.builder._ok_kwargs[(cr.cls, cr.variant)]
                except Exception:
                    continue
                res.count("proxy_classes")
                mods = {_sys.modules[k.__module__] for k in cr.cls.__mro__ if k.__module__.startswith("qmi.instruments.")}

                def enter(plan):
                    sess = D.Session(owner_thread=None)
                    sess.script = D.script_for(cr.cls)
                    sess.tracked_codes = {m.code: m for m in cr.maps["open"]}
                    made = []

                    def fake_create(desc, default_attributes=None):
                        t = cr.builder.Fake(sess, "?", str(desc))
                        made.append(t)
                        return t
                    saved = [(m, m.__dict__["create_transport"]) for m in mods if "create_transport" in m.__dict__]
                    for m, _ in saved:
                        m.__dict__["create_transport"] = fake_create
                    serial[0] += 1
                    try:
                        proxy = qctx.make_instrument(f"dut{serial[0]}", cr.cls, **kw)
                    finally:
                        for m, f in saved:
                            m.__dict__["create_transport"] = f
                    sess.reset_counters(plan)
                    exc = ""
                    with D.VirtualTime(), D._Alarm(30):
                        try:
                            proxy.__enter__()
                        except Exception as e:
                            exc = f"{type(e).__name__}: {str(e)[:80]}"
                        flag = bool(proxy.is_open())
                    return proxy, sess, made, flag, exc

                def dispose(proxy, made, sess):
                    sess.reset_counters(None)
                    try:
                        if proxy.is_open():
                            proxy.__exit__(None, None, None)
                    except Exception:
                        pass
                    try:
                        qctx.remove_rpc_object(proxy)
                    except Exception:
                        pass
                try:
                    proxy, sess, made, flag, exc = enter(None)
                    n_calls = sess.n
                    ok0 = flag and all(t._is_open for t in made) and not exc
                    res.count("proxy_fault_free_enter_ok" if ok0 else "proxy_fault_free_enter_fails")
                    if ok0 and left_open is None and cr.variant == "":
                        left_open = (proxy, made)            # stays open until context.stop()
                    else:
                        dispose(proxy, made, sess)
                    for k in range(1, n_calls + 1):
                        for kind in kinds:
                            proxy, sess, made, flag, exc = enter(D.Plan(k, kind))
                            links = {i: bool(t._is_open) for i, t in enumerate(made)}
                            clause = D.classify(flag, links)
                            res.note_case((cr.name, "proxy", k, kind, flag, tuple(links.values())), nontrivial=True)
                            res.count("proxy_enter_runs")
                            if clause is None:
                                sess.reset_counters(None)
                                with D.VirtualTime(), D._Alarm(30):
                                    try:
                                        if flag:
                                            proxy.__exit__(None, None, None)
                                            if proxy.is_open() or any(t._is_open for t in made):
                                                clause = "leaving `with` does not close the instrument"
                                        elif ok0:
                                            with proxy:
                                                pass
                                            if proxy.is_open() or any(t._is_open for t in made):
                                                clause = "retried `with proxy:` does not end closed"
                                    except Exception as e:
                                        clause = f"{'exit' if flag else 'retry'} fails ({type(e).__name__})"
                            if clause:
                                site = sess.fired[2] if sess.fired else None
                                owner, ordinal, src = cr.site_text("open", site)
                                e = found.setdefault((owner, ordinal, src, clause), {"kinds": set(), "first": None, "detail": ""})
                                e["kinds"].add(kind)
                                if e["first"] is None:
                                    e["first"] = {"class": cr.cls.__name__, "module": cr.cls.__module__, "variant": cr.variant,
                                                  "k": k, "fault_kind": kind}
                                    e["detail"] = f"{cr.name}: `with proxy:` raised {exc!r}; proxy.is_open()={flag} links={links}"
                            dispose(proxy, made, sess)
                except Exception as e:
                    res.count("proxy_harness_errors")
                    res.extra.setdefault("proxy_errors", []).append(f"{cr.name}: {type(e).__name__}: {str(e)[:120]}")
        finally:
            try:
                qctx.stop()
                res.count("context_stop_with_open_instrument_ok" if left_open else "context_stop_ok")
                if left_open is not None:
                    res.count("links_still_open_after_context_stop", sum(1 for t in left_open[1] if t._is_open))
            except Exception as e:
                res.broken.append(Broken("correspondence", "C19.context_stop", f"context.stop() with an open instrument raised {type(e).__name__}: {e}"))
            QM.MessageRouter.start_udp_responder = orig_udp
        for (owner, ordinal, src, clause), e in sorted(found.items()):
            kinds_s = ",".join(sorted(e["kinds"]))
            sig = f"{owner}.open stmt {ordinal} `{src}` via `with proxy:` -> {clause} [{kinds_s}]"
            fails.append(Failure(sig, f"{sig}; {e['detail']}", {"kind": "proxy", **e["first"], "signature": sig}))
        return fails

    # -- drivers that are not transport-based: the flag protocol of QMI_Instrument alone ---------------------------
    def _base_histories(self, ctx: Ctx, res: Result, lines, impl, meta, with_model: bool):
        """QMI_Instrument itself and every shipped driver that inherits open()/close() unchanged and can be constructed
        here (ADwin, dummy, SIM922 …): open/close/is_open histories against the model program `QMI_Instrument`
        (nlinks = 0), oracle = the reference flag automaton."""
        from harness import c19_dyn as D
        from qmi.core.instrument import QMI_Instrument
        import inspect as _insp
        D.import_instrument_modules()
        seen = []

        def walk(c):
            for k in c.__subclasses__():
                if k not in seen:
                    seen.append(k)
                    walk(k)
        walk(QMI_Instrument)
        cands = [QMI_Instrument] + sorted(
            (k for k in seen if k.__module__.startswith("qmi.instruments.") and "open" not in
             {n for c in k.__mro__ if c is not QMI_Instrument and c.__module__.startswith("qmi.instruments.") for n in c.__dict__}
             and "close" not in {n for c in k.__mro__ if c is not QMI_Instrument and c.__module__.startswith("qmi.instruments.")
                                 for n in c.__dict__}),
            key=lambda k: k.__name__)
        hist = [["open", "isopen", "open", "close", "isopen", "close", "open", "close"], ["close", "isopen", "open", "close"]]
        hist += [[ctx.rng.choice(["open", "close", "isopen"]) for _ in range(ctx.rng.randint(3, 10))] for _ in range(ctx.scale(3, 20))]
        for cls in cands:
            inst = None
            for desc in ("x", "tcp:localhost:1", 1):
                try:
                    sig = _insp.signature(cls.__init__)
                    kw = {}
                    for n, prm in list(sig.parameters.items())[3:]:
                        if prm.default is _insp.Parameter.empty and prm.kind not in (prm.VAR_POSITIONAL, prm.VAR_KEYWORD):
                            a = prm.annotation if isinstance(prm.annotation, str) else getattr(prm.annotation, "__name__", "")
                            kw[n] = {"int": 1, "float": 1.0, "bool": False}.get(a, desc)
                    with D._Alarm():
                        inst = cls(D._StubContext(), "dut", **kw)
                    break
                except Exception:
                    inst = None
            if inst is None:
                res.count("base_protocol_classes_not_constructible_here")
                continue
            res.count("base_protocol_classes")
            for ops in hist:
                try:
                    with D._Alarm():
                        inst = type(inst)(D._StubContext(), "dut", **kw)
                except Exception:
                    break
                ref = False
                if with_model:
                    lines.append("reset QMI_Instrument")
                    impl.append("ok nlinks=0")
                    meta.append(None)
                for op in ops:
                    if op == "isopen":
                        v = bool(inst.is_open())
                        out = "1" if v else "0"
                        bad = v != ref
                        ln = "isopen"
                    else:
                        try:
                            getattr(inst, op)()
                            r = "ok"
                        except Exception as e:
                            r = "exc:" + D.kind_of_exception(e)
                        want_ok = (op == "open") != ref
                        bad = (r == "ok") != want_ok
                        if r == "ok":
                            ref = (op == "open")
                        bad = bad or bool(inst.is_open()) != ref
                        ln = f"{op} -"
                        out = f"res={r} flag={1 if inst.is_open() else 0} links=- trace={'1' if True else '-'}"
                    if with_model:
                        lines.append(ln)
                        impl.append(out)
                        meta.append({"class": cls.__name__, "variant": "", "history": ops, "base_protocol": True})
                    if bad:
                        sig_ = f"{cls.__name__} flag protocol -> history violates the open/close automaton"
                        res.failures.append(Failure(sig_, f"{cls.__name__}: history {ops}: {op} behaved wrongly",
                                                    {"kind": "base_history", "class": cls.__name__, "ops": ops, "signature": sig_}))
                        break
                res.note_case((cls.__name__, "base-hist", tuple(ops)), nontrivial=("open" in ops and "close" in ops))
                res.count("base_protocol_histories")

    # ------------------------------------------------------------------ correspondence
    def _run_all(self, ctx: Ctx, with_model: bool, only: Optional[set] = None) -> Result:
        res = Result(rule="case = (driver class[variant], k, fault kind): the k-th transport call of the real open() "
                          "(link opening included) raises timeout / instrument error / OS error or returns a junk reply; "
                          "k sweeps 1 … (#calls of the fault-free open)+1 for every one of the discovered classes; two faults per "
                          "open() (k1 < k2 ≤ k1+reach); every transport call of close() faulty after a fault-free open(); close() after "
                          "every RPC method was used once; a fixed corpus + seeded open/close/is_open histories with faulty opens and "
                          "closes; every RPC method on the closed instrument (cross-checked against the static guard analysis); "
                          "flag-protocol histories on non-transport drivers. "
                          "non-trivial = the fault actually fired; distinct by (class, k, kind, outcome)")
        from harness import c19_dyn as D
        self._tier_quick = ctx.quick
        runs = self._class_runs()
        lines, impl, meta = [], [], []
        model_bad = {}
        for cr in runs:
            if only is not None and cr.cls.__name__ not in only:
                continue
            try:
                fails, n_calls, free_ok, ops_seen = self._sweep_class(cr, res, lines, impl, meta, with_model)
            except Exception as e:
                res.broken.append(Broken("correspondence", f"C19.sweep.{cr.name}",
                                         f"{type(e).__name__}: {e}\n{traceback.format_exc()[-1500:]}"))
                continue
            res.failures += fails
            res.count("transport_calls_in_fault_free_open", n_calls)
            try:
                res.failures += self._sweep_multi(cr, ctx, res, lines, impl, meta, with_model, n_calls)
                res.failures += self._sweep_failfirst(cr, ctx, res, lines, impl, meta, with_model, ops_seen)
                cfails = self._sweep_close(cr, ctx, res, lines, impl, meta, with_model)
                res.failures += cfails
            except Exception as e:
                res.broken.append(Broken("correspondence", f"C19.sweep2.{cr.name}",
                                         f"{type(e).__name__}: {e}\n{traceback.format_exc()[-1500:]}"))
                cfails = []
            # the static verdict must be reproduced dynamically (and vice versa — the line diff below covers that)
            v = self._verdicts.get(cr.name)
            if with_model and v is not None:
                has_static = bool(v["bad_plans"])
                has_dyn = any(f.signature.split("-> ")[1].startswith(("closed-but", "open-but")) for f in fails)
                if has_static and not has_dyn:
                    res.broken.append(Broken("correspondence", f"C19.witness.{cr.name}",
                                             f"the model refutes consistency with plan {v['bad_plans'][0]} (theorem bad_{cr.name}) but none "
                                             f"of the injected faults (timeout, instrument error, OS error, junk reply at every transport "
                                             f"call) reproduces it on the real class", case={"class": cr.cls.__name__, "variant": cr.variant}))
                model_bad[cr.name] = v["bad_plans"]
                if v.get("close_bad_plans") and not cfails:
                    res.broken.append(Broken("correspondence", f"C19.closewitness.{cr.name}",
                                             f"the model refutes consistency after close() under plan {v['close_bad_plans'][0]} "
                                             f"(theorem closebad_{cr.name}) but no injected fault reproduces it on the real class",
                                             case={"class": cr.cls.__name__, "variant": cr.variant}))
            try:
                res.failures += self._establish_sweep(cr, ctx, res)
                res.failures += self._endpoint_histories(cr, ctx, res)
            except Exception as e:
                res.broken.append(Broken("correspondence", f"C19.endpoints.{cr.name}",
                                         f"{type(e).__name__}: {e}\n{traceback.format_exc()[-1500:]}"))
            # histories
            n_hist = ctx.scale(12, 150)
            # fixed corpus, run first on every seed: the same operation twice, unusual order, one object reused over
            # several rounds, a faulty open() on an open instrument, the same fault twice, a fault index beyond the end,
            # a fault in close() followed by a second close()/open()
            fixed = [["open", "isopen", "open", "close", "isopen", "close", "open", "close"],
                     ["close", "isopen", "open", "open", "close", "close"],
                     ["open", ["open", 1, "timeout"], "isopen", "close", "close", "isopen"],
                     [["open", 1, "os"], "isopen", "open", "isopen", "close"],
                     [["open", 2, "timeout"], ["open", 2, "timeout"], "open", "isopen", "close", ["open", n_calls + 5, "os"], "close"],
                     ["open", "close", "open", "close", "open", "close", "isopen"],
                     ["open", ["close", 1, "os"], "isopen", "close", "open", "close"],
                     ["enter", "isopen", "enter", "exit", "isopen", "exit", "enter", "close", "open", "exit"],
                     [["enter", n_calls, "timeout"], "isopen", "exit", "enter", "exit"],
                     [["open", n_calls, "instr"], "close", "open", ["close", 2, "timeout"], "isopen"]]

            def gen_op():
                r = ctx.rng.random()
                if r < 0.25:
                    return ["open", ctx.rng.randint(1, n_calls + 1), ctx.rng.choice(D.ALL_FAULTS)]
                if r < 0.33:
                    return ["close", ctx.rng.randint(1, 3), ctx.rng.choice(D.EXC_KINDS)]
                return ctx.rng.choice(["open", "close", "isopen", "open", "close"])
            for h in range(n_hist):
                ops = fixed[h] if h < len(fixed) else [gen_op() for _ in range(ctx.rng.randint(3, ctx.scale(12, 20)))]
                try:
                    clause = self._history(cr, ops, lines, impl, meta, with_model)
                except Exception as e:
                    res.broken.append(Broken("correspondence", f"C19.history.{cr.name}", f"{type(e).__name__}: {e}\n{traceback.format_exc()[-1200:]}"))
                    break
                res.note_case((cr.name, "hist", repr(ops)), nontrivial=("close" in ops and any(o != "close" and o != "isopen" for o in ops)))
                res.count("histories")
                res.count("history_faulty_opens", sum(1 for o in ops if not isinstance(o, str)))
                res.count("history_ops", len(ops))
                if clause:
                    owner = next(k for k in cr.cls.__mro__ if "open" in k.__dict__).__name__
                    sig = f"{owner} history -> {clause}"
                    res.failures.append(Failure(sig, f"{cr.name}: history {ops}: {clause}",
                                                {"kind": "history", "class": cr.cls.__name__, "module": cr.cls.__module__,
                                                 "variant": cr.variant, "ops": ops, "signature": sig}))
            # closed instrument performs no device I/O (fresh instance, and after an open/close round in thorough tier)
            for after_close in ([False] if ctx.quick else [False, True, "failed"]):
                try:
                    bad = self._closed_no_io(cr, res, after_close)
                except Exception as e:
                    res.broken.append(Broken("correspondence", f"C19.closed_no_io.{cr.name}", f"{type(e).__name__}: {e}\n{traceback.format_exc()[-1200:]}"))
                    continue
                res.note_case((cr.name, "closed-rpc", after_close), nontrivial=True)
                for name, what in bad or []:
                    owner = next((k.__name__ for k in cr.cls.__mro__ if name in k.__dict__), cr.cls.__name__)
                    sig = f"{owner}.{name} on a closed instrument -> device-io-or-state-change"
                    res.failures.append(Failure(sig, f"{cr.name}.{name}() on the closed instrument: {what}",
                                                {"kind": "closed_rpc", "class": cr.cls.__name__, "module": cr.cls.__module__,
                                                 "variant": cr.variant, "method": name, "after_close": after_close,
                                                 "signature": sig}))
        # a defect of the base classes shows up in every driver: report a bounded number of distinct new failures
        seen, kept, dropped = set(), [], 0
        for f in res.failures:
            if f.signature in seen:
                continue
            seen.add(f.signature)
            if core.known_match(self.id, f.signature) is None and sum(
                    1 for g in kept if core.known_match(self.id, g.signature) is None) >= 25:
                dropped += 1
                continue
            kept.append(f)
        res.failures = kept
        if dropped:
            res.extra["further_distinct_failures_not_listed"] = dropped
        # the static transport-guard table and the endpoint histories must agree on the unguarded transport methods
        tb = (self._verdicts.get("__transports__") or {}).get("bare_io_methods", [])
        witnessed = {f.signature.split(" reaches the device")[0] for f in res.failures if f.replay.get("kind") == "endpoint"}
        for m in tb:
            if only is None and m not in witnessed:
                res.broken.append(Broken("correspondence", f"C19.transport_guard.{m}",
                                         f"the static analysis finds no open-state guard before the endpoint access in {m} (theorem "
                                         f"transport_io_bare) but no history on the real transport classes reaches the device through it"))
        if only is None:
            try:
                res.failures += self._proxy_sweep(ctx, res, runs)
            except Exception as e:
                res.broken.append(Broken("correspondence", "C19.proxy_sweep", f"{type(e).__name__}: {e}\n{traceback.format_exc()[-1500:]}"))
        if only is None:
            try:
                res.failures += self._establish_sweep(None, ctx, res)
            except Exception as e:
                res.broken.append(Broken("correspondence", "C19.establish.bare", f"{type(e).__name__}: {e}\n{traceback.format_exc()[-1200:]}"))
        if only is None:
            try:
                self._base_histories(ctx, res, lines, impl, meta, with_model)
            except Exception as e:
                res.broken.append(Broken("correspondence", "C19.base_histories", f"{type(e).__name__}: {e}\n{traceback.format_exc()[-1200:]}"))
        res.extra["model_counter_examples"] = {k: [list(b) if b else None for b in v][:6] for k, v in model_bad.items() if v}
        res.extra["untranslatable"] = self._untranslatable
        # model side
        if with_model and lines:
            model = LeanDriver(self.driver).run(lines)
            res.traces_validated += sum(1 for m in meta if m is not None)
            model_cmp = [m.split(" io=")[0] for m in model]
            seen_bad = 0
            for i, (a, bm) in enumerate(zip(impl, model_cmp)):
                if a != bm and not a.startswith("res=aborted:"):
                    if seen_bad < 6:
                        res.broken.append(Broken("correspondence", "OpenProg.exec vs real open()/close()",
                                                 f"op={lines[i]!r} (after {lines[i-1]!r}) impl={a!r} model={model[i]!r} case={meta[i]}",
                                                 case=meta[i]))
                    seen_bad += 1
                elif meta[i] is not None and "impl_io" in meta[i] and " io=" in model[i]:
                    mio = model[i].split(" io=")[1]
                    mio = [] if mio == "-" else [int(x) for x in mio.split(",")]
                    it = iter(mio)
                    if not all(any(x == y for y in it) for x in meta[i]["impl_io"]) and seen_bad < 6:
                        seen_bad += 1
                        res.broken.append(Broken("correspondence", "OpenProg ioLog vs recorded transport calls",
                                                 f"op={lines[i]!r} after {lines[i-1]!r}: statements that did device I/O {meta[i]['impl_io']} "
                                                 f"are not a subsequence of the model's I/O log {mio} (a statement classified pure does I/O?)",
                                                 case=meta[i]))
            res.count("model_lines", len(lines))
        return res

    def correspondence(self, ctx: Ctx) -> Result:
        return self._run_all(ctx, with_model=True)

    def search(self, ctx: Ctx, broken) -> Result:
        # the sweep over all classes × all k × all fault kinds *is* the systematic search; it does not need the model
        only = None
        res = self._run_all(ctx, with_model=False, only=only)
        return res

    def replay(self, ctx: Ctx, rp: dict):
        from harness import c19_dyn as D
        core.ensure_repo_on_path()
        if rp.get("kind") == "establish" and not rp.get("class"):
            fails = self._establish_sweep(None, ctx, Result(), kinds=[rp["transport"]])
            for f in fails:
                if f.signature == rp.get("signature"):
                    return f
            return fails[0] if fails else None
        runs = [cr for cr in self._class_runs() if cr.cls.__name__ == rp["class"] and cr.variant == rp.get("variant", "")]
        if not runs:
            return Failure(rp.get("signature", "?"), f"class {rp['class']} no longer exists", rp)
        cr = runs[0]
        res = Result()
        if rp.get("kind") == "fault":
            fails, _, _, _ = self._sweep_class(cr, res, [], [], [], with_model=False)
            for f in fails:
                if f.signature == rp.get("signature"):
                    return f
            for f in fails:
                if f.replay.get("k") == rp.get("k") and f.replay.get("fault_kind") == rp.get("fault_kind"):
                    return f
            return fails[0] if fails and not rp.get("signature") else None
        if rp.get("kind") == "failfirst":
            fails = self._sweep_failfirst(cr, ctx, res, [], [], [], False, [rp["op"]])
            for f in fails:
                if f.signature == rp.get("signature"):
                    return f
            return fails[0] if fails else None
        if rp.get("kind") in ("closefault", "fault2"):
            fails = (self._sweep_close(cr, ctx, res, [], [], [], False) if rp["kind"] == "closefault"
                     else self._sweep_multi(cr, ctx, res, [], [], [], False, self._one_open(cr, None)[0].sess.n))
            for f in fails:
                if f.signature == rp.get("signature"):
                    return f
            return fails[0] if fails else None
        if rp.get("kind") == "establish":
            fails = self._establish_sweep(cr if rp.get("class") else None, ctx, res, kinds=[rp["transport"]])
            for f in fails:
                if f.signature == rp.get("signature"):
                    return f
            return fails[0] if fails else None
        if rp.get("kind") == "endpoint":
            fails = self._endpoint_histories(cr, ctx, res, kinds=[rp["transport"]])
            for f in fails:
                if f.signature == rp.get("signature"):
                    return f
            return fails[0] if fails else None
        if rp.get("kind") == "history":
            clause = self._history(cr, rp["ops"], [], [], [], with_model=False)
            return Failure(rp.get("signature", "?"), f"{cr.name}: history {rp['ops']}: {clause}", rp) if clause else None
        if rp.get("kind") == "closed_rpc":
            bad = self._closed_no_io(cr, res, rp.get("after_close", False))
            return Failure(rp.get("signature", "?"), f"{cr.name}: {bad}", rp) if bad else None
        return None


PROP = C19()
