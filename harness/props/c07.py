"""C07 — published signals reach every subscribed receiver once, in order.

Model: lean/QmiModel/Model/PubSub.lean (+ PubSubDrv.lean for the line protocol); theorems: Props/C07.lean.
Tie: trace refinement.  1–3 real QMI contexts over the simulated network under the deterministic scheduler; publishers
are RPC objects publishing from their worker threads and a task publishing from its task thread; other managed threads
subscribe/unsubscribe receivers at scheduler-chosen points.  Every critical section of the real code is replayed on
the Lean model in the observed order (`pubsub_common.Tracer`), every delivery and the final queue contents must agree.
The property oracle works on the high-level event log only (publish begin/end, (un)subscribe begin/return, the
`_deliver_local` windows, the final queues) and does not use the model.
"""
from __future__ import annotations

import json
import random

from harness.core import Ctx, Failure, Broken, LeanDriver, Prop, Result

CTX_NAMES = ["P", "PA", "B"]
SIGS = ["sa", "sa2"]          # one signal name is a proper prefix of the other
# (object names o1 < o2 in prefix relation and a third, signal names): signal names that share leading characters, a
# whole prefix, or all their characters with the object names and with the context names (P, PA, B); names equal to
# another kind's name; names containing each other
NAME_FAMILIES = [
    (("pm1", "pm10", "pmr"), ("sa", "sa2")),
    (("sensor", "sensors", "sens"), ("status", "sensor")),
    (("adc", "adc2", "ad"), ("data", "adc")),
    (("laser", "laser_2", "las"), ("error", "relas")),
    (("a", "aa", "ab"), ("aa", "ba")),
    (("P", "PA", "B"), ("PA", "P_B")),
    (("pub1", "pub11", "pub"), ("sig1", "pub1sig")),
]


def _rename(spec: dict, rng: random.Random) -> dict:
    """gen_spec draws the scenario with the default names; this maps them to one name family (pure data in, pure
    data out: the replay file holds the renamed scenario)"""
    ((o1, o2, o3), (s1, s2)) = rng.choice(NAME_FAMILIES)
    used = {o1, o2, o3}
    tname = next(x for x in (s1, s2, "tsk") if x not in used)
    used.add(tname)
    omap = {("P", "pm1"): o1, ("P", "pm10"): o2, ("P", "tsk"): tname,
            # the same object name in two contexts, or a name of its own
            ("PA", "apub"): o1 if rng.random() < 0.5 else "apub", ("B", "bpub"): o2 if rng.random() < 0.5 else "bpub"}
    smap = {"sa": s1, "sa2": s2}

    def ob(pc, pn):
        return omap.get((pc, pn), pn)

    def key(k):
        (pc, pn) = k.split(".")
        return f"{pc}.{ob(pc, pn)}"

    def op(o):          # [kind?, r, pc, pn, sg, v?] with or without the leading kind
        o = list(o)
        i = 1 if isinstance(o[0], str) else 0
        if o[0] == "pause":
            return o
        (o[i + 2], o[i + 3]) = (ob(o[i + 1], o[i + 2]), smap[o[i + 3]])
        return o
    sp = dict(spec)
    sp["pubs"] = [[pc, ob(pc, pn)] for (pc, pn) in spec["pubs"]]
    sp["kinds"] = {key(k): v for k, v in spec["kinds"].items()}
    sp["threads"] = [[op(o) for o in ops] for ops in spec["threads"]]
    sp["presub"] = [op(o) for o in spec["presub"]]
    sp["bursts"] = {key(k): [smap[x] for x in v] for k, v in spec["bursts"].items()}
    sp["second"] = {key(k): [smap[x] for x in v] for k, v in spec["second"].items()}
    if spec["late"]:
        l = dict(spec["late"])
        if l["remove"]:
            l["remove"] = [l["remove"][0], ob(*l["remove"])]
        l["unsub"] = [op(o) for o in l["unsub"]]
        l["burst"] = {key(k): [smap[x] for x in v] for k, v in l["burst"].items()}
        sp["late"] = l
    if spec["recreate"]:
        rc = dict(spec["recreate"])
        rc["old_subs"] = [[r, smap[sg], v] for (r, sg, v) in rc["old_subs"]]
        rc["subs"] = [[r, smap[sg], v] for (r, sg, v) in rc["subs"]]
        rc["burst1"] = [smap[x] for x in rc["burst1"]]
        rc["burst2"] = [smap[x] for x in rc["burst2"]]
        sp["recreate"] = rc
    if spec.get("ghost"):
        g = dict(spec["ghost"])
        g["name"] = o2 + "0"
        for f in ("tries", "unsubs", "subs"):
            g[f] = [[r, smap[sg], v] for (r, sg, v) in g[f]]
        g["burst"] = [smap[x] for x in g["burst"]]
        sp["ghost"] = g
    sp["sigs"] = [s1, s2]
    sp["task"] = tname
    sp["rec_name"] = o3
    return sp


# ---------------------------------------------------------------------------
# scenario generation (pure data, JSON-serialisable: the replay file holds it)
# ---------------------------------------------------------------------------

def gen_spec(rng: random.Random, big: bool) -> dict:
    nctx = rng.choice([1, 2, 2, 3, 3])
    ctxs = CTX_NAMES[:nctx]
    # object names in prefix relation (pm1 < pm10), like the context names (P < PA) and the signal names (sa < sa2)
    pubs = [["P", "pm1"]]
    if rng.random() < 0.6:
        pubs.append(["P", "pm10"])
    if nctx >= 2 and rng.random() < 0.5:
        pubs.append(["PA", "apub"])
    task = rng.random() < 0.5
    if task:
        pubs.append(["P", "tsk"])
    # connections [client, server]: the base star/chain, plus reverse directions (a context that is both client and
    # server of the same peer; with three contexts a ring in both directions)
    links = [l for l in (["PA", "P"], ["B", "P"], ["B", "PA"]) if l[0] in ctxs and l[1] in ctxs]
    for (a, b) in list(links):
        if rng.random() < 0.45:
            links.append([b, a])
    if ["PA", "B"] in links and rng.random() < 0.5:
        pubs.append(["B", "bpub"])
    nrcv = rng.randint(2, 5)
    rcvs = [rng.choice(ctxs) for _ in range(nrcv)]
    # which publishers a context can reach: its own, and those of the contexts it connects to
    reach = {c: [c] + [srv for (cli, srv) in links if cli == c] for c in ctxs}

    def via():
        # how the call is spelled: 0 = context method with the context name, 1 = context method with "" for the
        # local context, 2 = QMI_SignalSubscriber of a proxy (signal.subscribe / signal.unsubscribe),
        # 3 = SignalManager method directly
        return rng.choice([0, 0, 1, 1, 2, 3])
    nthreads = rng.randint(1, 3)
    owners = [rng.randrange(nthreads) for _ in range(nrcv)]
    threads = []
    for ti in range(nthreads):
        mine = [i for i in range(nrcv) if owners[i] == ti]
        ops = []
        state = set()
        for _ in range(rng.randint(3, 12 if big else 9)):
            if not mine:
                break
            r = rng.choice(mine)
            cands = [p for p in pubs if p[0] in reach[rcvs[r]]]
            if not cands:
                continue
            (pc, pn) = rng.choice(cands)
            sg = "sa" if pn == "tsk" else rng.choice(SIGS)
            key = (r, pc, pn, sg)
            x = rng.random()
            if key in state and x < 0.7:
                ops.append(["unsub", r, pc, pn, sg, via()])
                state.discard(key)
            elif key not in state and x < 0.85:
                ops.append(["sub", r, pc, pn, sg, via()])
                state.add(key)
            elif key not in state:
                ops.append(["unsub", r, pc, pn, sg, via()])      # unsubscribe of something not subscribed: must be a no-op
            if rng.random() < 0.4:
                ops.append(["pause", rng.randint(1, 6)])
        threads.append(ops)
    presub = []
    for r in range(nrcv):                                   # subscriptions made before any publication
        cands = [p for p in pubs if p[0] in reach[rcvs[r]]]
        for (pc, pn) in cands:
            for sg in (["sa"] if pn == "tsk" else SIGS):
                if rng.random() < 0.45:
                    presub.append([r, pc, pn, sg, via()])
    bursts = {}
    for (pc, pn) in pubs:
        n = rng.randint(4, 40 if big else 14)
        bursts[f"{pc}.{pn}"] = ["sa" if pn == "tsk" else rng.choice(SIGS) for _ in range(n)]
    second = {}
    for (pc, pn) in pubs:                                   # a second caller thread publishing through the same object
        if pn != "tsk" and rng.random() < 0.3:
            second[f"{pc}.{pn}"] = [rng.choice(SIGS) for _ in range(rng.randint(2, 8))]
    # after the first bursts: optionally remove the shorter-named publisher and / or close ONE connection (the other
    # direction, if any, stays), optionally unsubscribe some receivers (with a random spelling); then every remaining
    # publisher publishes again
    late = None
    if rng.random() < 0.7:
        late = {"remove": None, "drop": None, "unsub": [], "burst": {}}
        if ["P", "pm10"] in pubs and rng.random() < 0.5:
            late["remove"] = ["P", "pm1"]
        if links and rng.random() < 0.6:
            late["drop"] = rng.choice(links)
        for (r, pc, pn, sg, _v) in presub:
            if rng.random() < 0.25:
                late["unsub"].append([r, pc, pn, sg, via()])
        for (pc, pn) in pubs:
            if pn != "tsk" and [pc, pn] != late["remove"]:
                late["burst"][f"{pc}.{pn}"] = [rng.choice(SIGS) for _ in range(rng.randint(2, 6))]
    kinds = {f"{pc}.{pn}": "inst" for (pc, pn) in pubs if pn != "tsk" and rng.random() < 0.3}   # QMI_Instrument publishers
    # a publisher whose release takes time is removed while another thread re-creates the same name, subscribes
    # receivers to the new instance and lets it publish; more publications after the removal has completed
    recreate = None
    if rng.random() < 0.35:
        rr = [r for r in range(nrcv) if "P" in reach[rcvs[r]]]
        if rr:
            recreate = {"yields": rng.choice([5, 20, 60, 150]),
                        "old_subs": [[r, rng.choice(SIGS), via()] for r in rr if rng.random() < 0.4],
                        "subs": [[r, sg, via()] for r in rr for sg in SIGS if rng.random() < 0.6],
                        "burst1": [rng.choice(SIGS) for _ in range(rng.randint(1, 5))],
                        "burst2": [rng.choice(SIGS) for _ in range(rng.randint(2, 6))]}
    spec = {"ctxs": ctxs, "pubs": pubs, "kinds": kinds, "rcvs": rcvs, "links": links, "threads": threads, "presub": presub, "bursts": bursts,
            "second": second, "late": late, "recreate": recreate, "policy": rng.choice(["weighted", "weighted", "pct"])}
    # fault path, then retry: receivers subscribe to a publisher of P that does not exist yet (every such call must be
    # refused and must leave nothing behind); the object is then created and publishes; some of the receivers subscribe
    # again (now accepted), the object publishes again
    if rng.random() < 0.3:
        rr = [r for r in range(nrcv) if "P" in reach[rcvs[r]] and not (late and late.get("drop") == [rcvs[r], "P"])]
        if rr:
            tries = [[r, sg, via()] for r in rr for sg in SIGS if rng.random() < 0.6]
            spec["ghost"] = {"name": "pm100", "tries": tries,
                             # unsubscribes of the object that does not exist (never subscribed: no-ops that leave nothing)
                             "unsubs": [[r, sg, via()] for r in rr for sg in SIGS if rng.random() < 0.25],
                             # retry by the same receivers and by other receivers of the same contexts
                             "subs": [[r, sg, via()] for r in rr for sg in SIGS
                                      if rng.random() < (0.6 if any(t[0] == r and t[1] == sg for t in tries) else 0.3)],
                             "burst": [rng.choice(SIGS) for _ in range(rng.randint(2, 5))]}
    return _rename(spec, rng)


def fanout_drop_specs(rng: random.Random, n: int) -> list:
    """Directed family: one publisher with subscribed receivers in two or three peer contexts (and locally); while it
    publishes, ONE of the peers closes its connection.  Every receiver of the other contexts must still get every
    publication, once and in order (the dropped context's receivers are excused from the moment the drop begins)."""
    out = []
    for i in range(n):
        three = rng.random() < 0.7
        ctxs = ["P", "PA", "B"] if three else ["P", "PA"]
        links = [["PA", "P"]] + ([["B", "P"]] if three else [])
        if rng.random() < 0.3:
            links.append(["P", "PA"])
        rcvs = ["PA", "B", "P", "PA", "B"][: rng.randint(3, 5)] if three else ["PA", "P", "PA"]
        sg = rng.choice(SIGS)
        presub = [[r, "P", "pm1", sg, rng.choice([0, 1, 2, 3]) if rcvs[r] == "P" else rng.choice([0, 2, 3])] for r in range(len(rcvs))]
        presub = [x for x in presub if not (x[4] == 1 and rcvs[x[0]] != "P")]
        spec = {"ctxs": ctxs, "pubs": [["P", "pm1"]], "kinds": {}, "rcvs": rcvs, "links": links, "threads": [], "presub": presub,
                "bursts": {"P.pm1": [sg] * rng.randint(1, 3)}, "second": {},
                "late": {"remove": None, "drop": rng.choice([l for l in links if l[1] == "P"]), "drop_during_burst": True, "unsub": [],
                         "burst": {"P.pm1": [sg] * rng.randint(4, 10)}},
                "recreate": None, "policy": rng.choice(["weighted", "weighted", "pct"])}
        out.append(spec)
    return out


# ---------------------------------------------------------------------------
# running one scenario on the real code
# ---------------------------------------------------------------------------

def _classes(sigs=None):
    sigs = list(sigs or SIGS)
    from qmi.core.rpc import QMI_RpcObject, rpc_method
    from qmi.core.pubsub import QMI_Signal
    from qmi.core.task import QMI_Task

    class PubBase(QMI_RpcObject):
        def __init__(self, context, name, slow_release=0):
            super().__init__(context, name)
            self._slow_release = slow_release

        def release_rpc_object(self):
            # releasing resources takes (scheduler) time: remove_rpc_object stays parked in manager.stop() meanwhile
            from harness import detsched as D
            for _ in range(self._slow_release):
                if D.SCHED is not None:
                    D.SCHED.yield_point("release")

        @rpc_method
        def burst(self, items):
            for (sg, uid) in items:
                getattr(self, sg).publish(uid)

        @rpc_method
        def direct(self):
            return None

    from qmi.core.instrument import QMI_Instrument

    class PubInstrBase(QMI_Instrument):
        @rpc_method
        def burst(self, items):
            for (sg, uid) in items:
                getattr(self, sg).publish(uid)

    class PubTaskBase(QMI_Task):
        def __init__(self, task_runner, name, items):
            super().__init__(task_runner, name)
            self._items = items

        def run(self):
            for (sg, uid) in self._items:
                getattr(self, sigs[0]).publish(uid)

    # the signal names come from the scenario (class attributes of those names)
    Pub = type("Pub", (PubBase,), {sg: QMI_Signal([int]) for sg in sigs})
    PubInstr = type("PubInstr", (PubInstrBase,), {sg: QMI_Signal([int]) for sg in sigs})
    PubTask = type("PubTask", (PubTaskBase,), {sigs[0]: QMI_Signal([int])})
    return Pub, PubTask, PubInstr


def run_c07(seed, spec: dict, change_points=None, trace_funcs=()):
    """Run one scenario; returns (Outcome, tracer-or-None)."""
    from harness.simworld import run_scenario
    from harness.props import pubsub_common as PC
    box = {}

    def body(w):
        from qmi.core.pubsub import QMI_SignalReceiver
        from harness import detsched as D
        random.seed(f"c07:{seed}")
        sig_names = spec.get("sigs") or SIGS
        TSK = spec.get("task", "tsk")
        PMR = spec.get("rec_name", "pmr")
        Pub, PubTask, PubInstr = _classes(sig_names)
        tr = PC.Tracer(w)
        box["tr"] = tr
        with tr.installed():
            ctxs = {}
            for n in spec["ctxs"]:
                ctxs[n] = w.context(n, server=True)
                tr.attach_context(ctxs[n])
            tr.active = True
            links = spec.get("links")
            if links is None:
                links = [l for l in (["PA", "P"], ["B", "P"], ["B", "PA"]) if l[0] in ctxs and l[1] in ctxs]
            for (a, b) in links:
                w.connect(ctxs[a], ctxs[b])
            uid = [0]

            def items(sigs):
                out = []
                for sg in sigs:
                    uid[0] += 1
                    out.append((sg, uid[0]))
                return out
            proxies = {}
            tasks = {}
            for (pc, pn) in spec["pubs"]:
                if pn == TSK and pc == "P":
                    tasks[(pc, pn)] = ctxs[pc].make_task(pn, PubTask, items(spec["bursts"][f"{pc}.{pn}"]))
                elif (spec.get("kinds") or {}).get(f"{pc}.{pn}") == "inst":
                    proxies[(pc, pn)] = ctxs[pc].make_instrument(pn, PubInstr)
                else:
                    proxies[(pc, pn)] = ctxs[pc].make_rpc_object(pn, Pub)
            rec = spec.get("recreate")
            if rec:
                rec_old = ctxs["P"].make_rpc_object(PMR, Pub, rec["yields"])
            rcvs = []
            for cn in spec["rcvs"]:
                r = QMI_SignalReceiver(max_queue_length=100000)
                tr.attach_receiver(ctxs[cn], r)
                rcvs.append(r)
            # proxies as every receiving context sees the publishers it can reach (QMI_SignalSubscriber route)
            rproxies = {}
            for rc in spec["ctxs"]:
                for (pc, pn) in spec["pubs"]:
                    if pc == rc:
                        rproxies[(rc, pc, pn)] = proxies.get((pc, pn)) or tasks.get((pc, pn))
                    elif [rc, pc] in links:
                        try:
                            rproxies[(rc, pc, pn)] = ctxs[rc].get_rpc_object_by_name(f"{pc}.{pn}")
                        except D.SchedAbort:
                            raise
                        except BaseException:  # noqa
                            pass

            def call(kind, r, pc, pn, sg, v=0):
                """one subscribe / unsubscribe call in the spelling `v` (see gen_spec.via)"""
                rc = spec["rcvs"][r]
                c = ctxs[rc]
                spelled = "" if (v == 1 and pc == rc) else pc
                if v == 2:
                    sub = getattr(rproxies.get((rc, pc, pn)), sg, None)
                    if sub is not None and type(sub).__name__ == "QMI_SignalSubscriber":
                        return sub.subscribe(rcvs[r]) if kind == "sub" else sub.unsubscribe(rcvs[r])
                target = c._signal_manager if v == 3 else c
                if kind == "sub":
                    return target.subscribe_signal(spelled, pn, sg, rcvs[r])
                return target.unsubscribe_signal(spelled, pn, sg, rcvs[r])
            for ps in spec["presub"]:
                call("sub", *ps)
            errors = []
            if rec:
                for (r, sg, v) in rec["old_subs"]:
                    call("sub", r, "P", PMR, sg, v)

            def subscriber(ops):
                def fn():
                    for op in ops:
                        if op[0] == "pause":
                            for _ in range(op[1]):
                                w.sched.yield_point("pause")
                            continue
                        (kind, r, pc, pn, sg) = op[:5]
                        try:
                            call(kind, r, pc, pn, sg, op[5] if len(op) > 5 else 0)
                        except D.SchedAbort:
                            raise
                        except BaseException as e:  # noqa
                            errors.append((kind, r, pc, pn, sg, type(e).__name__))
                return fn
            futs = []
            for (pc, pn), prox in proxies.items():
                futs.append(("burst", pc, pn, prox.rpc_nonblocking.burst(items(spec["bursts"][f"{pc}.{pn}"]))))
            ths = [w.spawn(subscriber(ops), f"sub{i}") for i, ops in enumerate(spec["threads"])]
            for key, sigs in spec["second"].items():
                (pc, pn) = key.split(".")
                its = items(sigs)

                def second(pc=pc, pn=pn, its=its):
                    # a second publishing thread on the same signals: publishes straight through the context
                    for (sg, u) in its:
                        try:
                            ctxs[pc].publish_signal(pn, sg, u)
                        except D.SchedAbort:
                            raise
                        except BaseException as e:  # noqa
                            errors.append(("publish", pc, pn, sg, type(e).__name__))
                ths.append(w.spawn(second, "pub2nd"))
            for t in tasks.values():
                t.start()
            for (kind, pc, pn, f) in futs:
                try:
                    f.wait()
                except D.SchedAbort:
                    raise
                except BaseException as e:  # noqa
                    errors.append(("publish", pc, pn, "*", type(e).__name__))
            for t in ths:
                t.join()
                if t.exc is not None:
                    errors.append(("thread", repr(t.exc)))
            for (pc, pn), t in tasks.items():
                try:
                    t.join()
                except D.SchedAbort:
                    raise
                except BaseException as e:  # noqa  (the task's run() died: a publish call raised)
                    errors.append(("publish", pc, pn, sig_names[0], type(e).__name__))
            if rec:
                from qmi.core.exceptions import QMI_DuplicateNameException
                old_proxy = rec_old
                newp = {}

                def remover():
                    ctxs["P"].remove_rpc_object(old_proxy)

                def recreator():
                    for _ in range(400):
                        try:
                            newp["p"] = ctxs["P"].make_rpc_object(PMR, Pub)
                            break
                        except QMI_DuplicateNameException:
                            w.sched.yield_point("retry-make")
                    if "p" not in newp:
                        return
                    rproxies_new = {}
                    for (r, sg, v) in rec["subs"]:
                        rc = spec["rcvs"][r]
                        if v == 2:
                            if rc not in rproxies_new:
                                try:
                                    rproxies_new[rc] = newp["p"] if rc == "P" else ctxs[rc].get_rpc_object_by_name("P." + PMR)
                                except D.SchedAbort:
                                    raise
                                except BaseException:  # noqa
                                    rproxies_new[rc] = None
                            rproxies[(rc, "P", PMR)] = rproxies_new[rc]
                        call("sub", r, "P", PMR, sg, v)
                    newp["p"].rpc_nonblocking.burst(items(rec["burst1"])).wait()
                tw = w.spawn(remover, "remover")
                tm = w.spawn(recreator, "recreator")
                for t in (tw, tm):
                    t.join()
                    if t.exc is not None:
                        errors.append(("recreate", type(t.exc).__name__))
                PC.drain(w)
                if "p" in newp:
                    try:
                        newp["p"].rpc_nonblocking.burst(items(rec["burst2"])).wait()
                    except D.SchedAbort:
                        raise
                    except BaseException as e:  # noqa
                        errors.append(("publish", "P", PMR, "*", type(e).__name__))
            late = spec.get("late")
            if late:
                PC.drain(w)
                try:
                    if late.get("remove"):
                        (pc, pn) = late["remove"]
                        ctxs[pc].remove_rpc_object(proxies[(pc, pn)])
                    if late.get("drop") and not late.get("drop_during_burst"):
                        (a, b) = late["drop"]
                        ctxs[a].disconnect_from_peer(b)        # one direction only; a reverse connection stays up
                    for u in late.get("unsub", []):
                        call("unsub", *u)
                    PC.drain(w)
                    if late.get("drop") and late.get("drop_during_burst"):
                        # the connection goes away WHILE the publishers are at work (their worker threads publish, this
                        # thread - the one that owns the contexts - disconnects): the other peers must not notice
                        (a, b) = late["drop"]
                        futs = []
                        for key, sigs in late["burst"].items():
                            (bc, bn) = key.split(".")
                            futs.append(proxies[(bc, bn)].rpc_nonblocking.burst(items(sigs)))
                        ctxs[a].disconnect_from_peer(b)
                        for f in futs:
                            f.wait()
                    else:
                        for key, sigs in late["burst"].items():
                            (bc, bn) = key.split(".")
                            proxies[(bc, bn)].rpc_nonblocking.burst(items(sigs)).wait()
                except D.SchedAbort:
                    raise
                except BaseException as e:  # noqa
                    errors.append(("late", type(e).__name__))
            gh = spec.get("ghost")
            if gh:
                PC.drain(w)
                for (r, sg, v) in gh["tries"]:
                    try:
                        call("sub", r, "P", gh["name"], sg, 3 if v == 2 else v)     # no proxy of an object that does not exist
                        errors.append(("refused-subscribe", r, "P", gh["name"], sg, "accepted"))
                    except D.SchedAbort:
                        raise
                    except BaseException as e:  # noqa
                        if type(e).__name__ != "QMI_SignalSubscriptionException":
                            errors.append(("refused-subscribe", r, "P", gh["name"], sg, type(e).__name__))
                for (r, sg, v) in gh.get("unsubs", []):
                    try:
                        call("unsub", r, "P", gh["name"], sg, 3 if v == 2 else v)
                    except D.SchedAbort:
                        raise
                    except BaseException as e:  # noqa
                        errors.append(("unsub-of-unknown", r, "P", gh["name"], sg, type(e).__name__))
                PC.drain(w)
                try:
                    gp = ctxs["P"].make_rpc_object(gh["name"], Pub)
                    gp.rpc_nonblocking.burst(items(gh["burst"])).wait()
                    PC.drain(w)
                    for (r, sg, v) in gh["subs"]:
                        rc = spec["rcvs"][r]
                        if v == 2 and (rc, "P", gh["name"]) not in rproxies:
                            try:
                                rproxies[(rc, "P", gh["name"])] = gp if rc == "P" else ctxs[rc].get_rpc_object_by_name("P." + gh["name"])
                            except D.SchedAbort:
                                raise
                            except BaseException:  # noqa
                                pass
                        call("sub", r, "P", gh["name"], sg, v)
                    gp.rpc_nonblocking.burst(items(gh["burst"])).wait()
                except D.SchedAbort:
                    raise
                except BaseException as e:  # noqa
                    errors.append(("ghost", type(e).__name__))
            PC.drain(w)
            tr.note_keys(spec["ctxs"], sorted({p[1] for p in spec["pubs"]} | ({PMR} if rec else set()) | ({gh["name"]} if gh else set())),
                         sig_names)
            for i in range(len(spec["ctxs"])):
                tr.dump(tr.cid(spec["ctxs"][i]))
            for r in range(len(rcvs)):
                tr.got(r)
            tr.emit(f"quiet {len(spec['ctxs'])}", "quiet")
            queues = []
            for r in rcvs:
                queues.append([(s.publisher_context, s.publisher_name, s.signal_name, tuple(s.args), s.receiver_seqnr)
                               for s in list(r._queue)])
            tr.active = False
            return {"queues": queues, "errors": errors}

    out = run_scenario(seed, body, policy=spec.get("policy", "weighted"), change_points=change_points,
                       trace_funcs=trace_funcs, max_steps=400000)
    return out, box.get("tr")


# ---------------------------------------------------------------------------
# size limits of the remote path (oracle only; the model carries whole messages and has no size limit)
# ---------------------------------------------------------------------------

def live_limits() -> dict:
    """every MAX_* / size constant of messaging.py and pubsub.py, read from the live code"""
    import inspect
    import qmi.core.messaging as MS
    import qmi.core.pubsub as PS
    out = {}
    for mod in (MS, PS):
        for name, obj in vars(mod).items():
            if name.isupper() and isinstance(obj, int) and ("MAX" in name or "SIZE" in name):
                out[f"{mod.__name__}.{name}"] = obj
            if inspect.isclass(obj) and obj.__module__ == mod.__name__:
                for k, v in vars(obj).items():
                    if k.isupper() and isinstance(v, int) and not isinstance(v, bool) and ("MAX" in k or "SIZE" in k):
                        out[f"{mod.__name__}.{obj.__name__}.{k}"] = v
    out["qmi.core.pubsub.QMI_SignalReceiver.max_queue_length(default)"] = \
        inspect.signature(PS.QMI_SignalReceiver.__init__).parameters["max_queue_length"].default
    return out


def run_limits(seed, limit: int, deltas=None):
    """Publisher in P, receiver in PA (client of P), `_PeerTcpConnection.MAX_MESSAGE_SIZE` lowered to `limit`.
    For every delta a signal whose pickled message is exactly `limit + delta` bytes long is published, followed by a
    small one.  Returns (Outcome, list of clauses)."""
    from harness.simworld import run_scenario
    deltas = list(deltas if deltas is not None else list(range(-18, 1)) + [1, 2, 3])

    def body(w):
        import pickle
        import qmi.core.messaging as MS
        from qmi.core.pubsub import QMI_SignalReceiver, QMI_SignalMessage, QMI_Signal
        from qmi.core.messaging import QMI_MessageHandlerAddress
        from qmi.core.rpc import QMI_RpcObject
        from harness import detsched as D

        class Pub(QMI_RpcObject):
            sa = QMI_Signal([int, bytes])

        saved = MS._PeerTcpConnection.MAX_MESSAGE_SIZE
        MS._PeerTcpConnection.MAX_MESSAGE_SIZE = limit
        try:
            P = w.context("P", server=True)
            PA = w.context("PA", server=True)
            w.connect(PA, P)
            P.make_rpc_object("pm1", Pub)
            rcv = QMI_SignalReceiver(max_queue_length=100000)
            PA.subscribe_signal("P", "pm1", "sa", rcv)

            def size_of(uid, n):
                m = QMI_SignalMessage(QMI_MessageHandlerAddress("P", "pm1"), QMI_MessageHandlerAddress("PA", "$pubsub"),
                                      "sa", (uid, b"\0" * n))
                return len(pickle.dumps(m))
            sent = []          # (uid, target size or None, accepted by the sender's rule, raised at publisher)
            uid = 100000
            for d in deltas:
                uid += 1
                target = limit + d
                n = max(0, target - size_of(uid, 0))
                for _ in range(12):
                    cur = size_of(uid, n)
                    if cur == target:
                        break
                    n = max(0, n + (target - cur))
                if size_of(uid, n) != target:
                    continue                      # this exact size is not reachable (pickle length-encoding step)
                raised = None
                try:
                    P.publish_signal("pm1", "sa", uid, b"\0" * n)
                except D.SchedAbort:
                    raise
                except BaseException as e:  # noqa
                    raised = type(e).__name__
                sent.append((uid, target, target <= limit, raised))
                uid += 1
                raised = None
                try:
                    P.publish_signal("pm1", "sa", uid, b"")
                except D.SchedAbort:
                    raise
                except BaseException as e:  # noqa
                    raised = type(e).__name__
                sent.append((uid, None, True, raised))
                D.TIME_SHIM.sleep(1.0)
            D.TIME_SHIM.sleep(1.0)
            got = [(s.args[0], len(s.args[1])) for s in list(rcv._queue)]
            still = PA.has_peer_context("P")
            return sent, got, still
        finally:
            MS._PeerTcpConnection.MAX_MESSAGE_SIZE = saved

    out = run_scenario(seed, body, policy="weighted", max_steps=400000)
    bad = []
    if out.deadlock:
        return out, [("limits:deadlock", out.deadlock[:200])]
    if out.error is not None:
        return out, [("limits:scenario-error:" + type(out.error).__name__, repr(out.error)[:300])]
    (sent, got, still) = out.value
    got_ids = [g[0] for g in got]
    for (uid, target, accepted, raised) in sent:
        if accepted and raised is None and got_ids.count(uid) != 1:
            what = "signal-at-size-limit-lost" if target is not None else "signal-after-size-limit-signal-lost"
            bad.append((f"limits:{what}", f"MAX_MESSAGE_SIZE={limit}: signal {uid}" +
                        (f" (pickled size {target} = limit{target - limit:+d}, accepted by the sender)" if target is not None else " (small, published after a near-limit signal)") +
                        f" arrived {got_ids.count(uid)} times; connection still up: {still}"))
    if got_ids != sorted(got_ids):
        bad.append(("limits:out-of-order", f"MAX_MESSAGE_SIZE={limit}: arrival order {got_ids[:12]}"))
    seen_c, out_l = set(), []
    for (c_, d) in bad:
        if c_ not in seen_c:
            seen_c.add(c_)
            out_l.append((c_, d))
    return out, out_l


# ---------------------------------------------------------------------------
# the property oracle (event log + final queues only)
# ---------------------------------------------------------------------------
# the name alphabet: `is_valid_object_name` (live) against the model's `validName`
# ---------------------------------------------------------------------------
# The pub/sub model identifies a table key "<context>.<publisher>.<signal>" with the triple (key_injective,
# prefix_iff_same_context: both need names without '.').  The obligation: the live name rule accepts exactly the names
# the model's `validName` accepts - every code point below 0x300 and a sample of higher ones, alone / first / middle /
# last, and the length limits.

_HIGH_CODEPOINTS = [0x037E, 0x0387, 0x03A9, 0x0430, 0x0589, 0x05D0, 0x0660, 0x06D4, 0x0967, 0x1801, 0x2024, 0x2028, 0x2029,
                    0x202E, 0x2044, 0x2215, 0x3002, 0x4E2D, 0xA4F8, 0xD7FF, 0xE000, 0xFE52, 0xFEFF, 0xFF0E, 0xFF10, 0xFF21,
                    0xFF41, 0xFF61, 0xFFFD, 0x10000, 0x1D7CE, 0x1F600, 0xE002E, 0x10FFFF]


def name_alphabet_cases() -> list:
    names = ["", "a", "a" * 62, "a" * 63, "a" * 64, "a" * 62 + "\n", "a" * 63 + "\n", "\n", "a\n", "a\n\n", "a\nb", "\na",
             "a\r", "a\r\n", "-", "_", "(", ")", "a" * 62 + "-", "a" * 63 + "-", "Z" * 63, "9" * 64, "a" * 200]
    for cp in list(range(0x300)) + _HIGH_CODEPOINTS:
        c = chr(cp)
        names += [c, c + "ab", "a" + c + "b", "ab" + c, "a" * 61 + c + "a", "a" * 62 + c + "a"]
    return names


def live_name_rule(name: str) -> str:
    from harness import core
    core.ensure_repo_on_path()
    from qmi.core.util import is_valid_object_name
    try:
        return "1" if is_valid_object_name(name) else "0"
    except Exception as e:  # noqa
        return "raise:" + type(e).__name__


def compare_name_alphabet(driver: str) -> tuple:
    """returns (number of names compared, list of (name, live verdict, model verdict) that disagree)"""
    names = name_alphabet_cases()
    drv = LeanDriver(driver)
    lines, chunk = [], 400
    for i in range(0, len(names), chunk):
        lines.append("vn " + " ".join(",".join(str(ord(ch)) for ch in n) if n else "-" for n in names[i:i + chunk]))
    outs = drv.run(lines)
    model = ""
    for (l, o) in zip(lines, outs):
        if not o.startswith("vn "):
            raise RuntimeError(f"driver {driver}: unexpected answer {o[:80]!r} to a `vn` line")
        model += o[3:]
    if len(model) != len(names):
        raise RuntimeError(f"driver {driver}: {len(names)} names in, {len(model)} verdicts out")
    bad = []
    for (n, mv) in zip(names, model):
        lv = live_name_rule(n)
        if lv != mv:
            bad.append((n, lv, mv))
    return len(names), bad


def newly_accepted_chars(bad: list) -> list:
    """characters the live rule accepts in the middle of a name and the model does not; the ones the table code gives a
    meaning to ('.' separator, '$' internal names, ...) first"""
    chars = []
    for (n, lv, mv) in bad:
        if lv == "1" and mv == "0" and len(n) == 3 and n[0] == "a" and n[2] == "b":
            chars.append(n[1])
    first = [c for c in ".:$*/@" if c in chars]
    return first + [c for c in chars if c not in first]


def run_siblings(seed, ch: str, where: str, sides=None, clause: str = "not-delivered:name-metachar"):
    """Two names of which one extends the other by `ch`: `x` and `x<ch>y`, as publisher objects of one context
    (`where` = "object"), as signals of one object ("signal"), or as peer contexts ("context").  Receivers - one in the
    publisher's context, one in a client context - subscribe to both; the shorter one is removed (object), unsubscribed
    (signal) or disconnected (context); then the longer one publishes.  Returns (Outcome, clauses); clauses = [] when all
    publications of the longer name arrived, None when the names cannot be registered (scenario not applicable)."""
    from harness.simworld import run_scenario
    short, long_ = "x", "x" + ch + "y"

    def body(w):
        from qmi.core.pubsub import QMI_SignalReceiver, QMI_Signal
        from qmi.core.rpc import QMI_RpcObject
        from qmi.core.exceptions import QMI_UsageException
        from harness import detsched as D

        def rcv():
            return QMI_SignalReceiver(max_queue_length=1000)

        def got(r):
            return [(s.publisher_context, s.publisher_name, s.signal_name, s.args[0]) for s in list(r._queue)]
        notes = []

        def guarded(what, fn):
            try:
                fn()
            except D.SchedAbort:
                raise
            except BaseException as e:  # noqa
                notes.append(f"{what} raised {type(e).__name__}: {str(e)[:80]}")

        if where == "context":
            Pub = type("Pub", (QMI_RpcObject,), {"sa": QMI_Signal([int])})
            try:
                S = w.context(short, server=True)
                L = w.context(long_, server=True)
            except (QMI_UsageException, ValueError):
                return None
            A = w.context("A", server=True)
            w.connect(A, S)
            w.connect(A, L)
            S.make_rpc_object("pm", Pub)
            L.make_rpc_object("pm", Pub)
            rs, rl = rcv(), rcv()
            A.subscribe_signal(short, "pm", "sa", rs)
            A.subscribe_signal(long_, "pm", "sa", rl)
            L.publish_signal("pm", "sa", 1)
            D.TIME_SHIM.sleep(1.0)
            guarded(f"disconnect_from_peer({short!r})", lambda: A.disconnect_from_peer(short))
            D.TIME_SHIM.sleep(1.0)
            L.publish_signal("pm", "sa", 2)
            L.publish_signal("pm", "sa", 3)
            D.TIME_SHIM.sleep(1.0)
            return {"remote": [x[3] for x in got(rl) if x[0] == long_]}, notes
        if where == "signal":
            try:
                Pub = type("Pub", (QMI_RpcObject,), {short: QMI_Signal([int]), long_: QMI_Signal([int])})
                P = w.context("P", server=True)
                PA = w.context("PA", server=True)
                w.connect(PA, P)
                P.make_rpc_object("pm", Pub)
                r1, r2, r3, r4 = rcv(), rcv(), rcv(), rcv()
                P.subscribe_signal("P", "pm", short, r1)
                P.subscribe_signal("P", "pm", long_, r2)
                PA.subscribe_signal("P", "pm", short, r3)
                PA.subscribe_signal("P", "pm", long_, r4)
            except (QMI_UsageException, ValueError):
                return None
            P.publish_signal("pm", long_, 1)
            D.TIME_SHIM.sleep(1.0)
            guarded("unsubscribe_signal (local)", lambda: P.unsubscribe_signal("P", "pm", short, r1))
            guarded("unsubscribe_signal (remote)", lambda: PA.unsubscribe_signal("P", "pm", short, r3))
            D.TIME_SHIM.sleep(1.0)
            P.publish_signal("pm", long_, 2)
            P.publish_signal("pm", long_, 3)
            D.TIME_SHIM.sleep(1.0)
            return {"local": [x[3] for x in got(r2) if x[2] == long_], "remote": [x[3] for x in got(r4) if x[2] == long_]}, notes
        # objects
        Pub = type("Pub", (QMI_RpcObject,), {"sa": QMI_Signal([int])})
        P = w.context("P", server=True)
        PA = w.context("PA", server=True)
        w.connect(PA, P)
        try:
            ps = P.make_rpc_object(short, Pub)
            P.make_rpc_object(long_, Pub)
        except (QMI_UsageException, ValueError):
            return None
        r1, r2, r3, r4 = rcv(), rcv(), rcv(), rcv()
        try:
            P.subscribe_signal("P", short, "sa", r1)
            P.subscribe_signal("P", long_, "sa", r2)
            PA.subscribe_signal("P", short, "sa", r3)
            PA.subscribe_signal("P", long_, "sa", r4)
        except (QMI_UsageException, ValueError):
            return None
        P.publish_signal(long_, "sa", 1)
        D.TIME_SHIM.sleep(1.0)
        guarded(f"remove_rpc_object({short!r})", lambda: P.remove_rpc_object(ps))
        D.TIME_SHIM.sleep(1.0)
        P.publish_signal(long_, "sa", 2)
        P.publish_signal(long_, "sa", 3)
        D.TIME_SHIM.sleep(1.0)
        return {"local": [x[3] for x in got(r2) if x[1] == long_], "remote": [x[3] for x in got(r4) if x[1] == long_]}, notes

    out = run_scenario(seed, body, policy="weighted", max_steps=400000)
    if out.deadlock:
        return out, [(clause, f"{where} names {short!r} and {long_!r}: deadlock: {out.deadlock[:200]}")]
    if out.error is not None:
        return out, [(clause, f"{where} names {short!r} and {long_!r}: scenario error {out.error!r}"[:300])]
    if out.value is None:
        return out, None
    (seen, notes) = out.value
    action = {"object": f"remove_rpc_object({short!r})", "signal": f"unsubscribe_signal(.., {short!r}, ..)",
              "context": f"disconnect_from_peer({short!r})"}[where]
    bad = []
    for (side, vals) in seen.items():
        if sides is not None and side not in sides:
            continue
        if vals != [1, 2, 3]:
            bad.append((clause,
                        f"{where} names {short!r} and {long_!r} (U+{ord(ch):04X} accepted by is_valid_object_name): a {side} receiver "
                        f"subscribed to {long_!r} throughout got publications {vals} of [1, 2, 3]; between 1 and 2: {action}"
                        + (f"; {'; '.join(notes)}" if notes else "")))
    if not bad and notes:
        bad.append((clause, f"{where} names {short!r} and {long_!r}: {'; '.join(notes)}"))
    return out, bad


def search_siblings(ctx, chars: list, res, prop: str = "C07", limit: int = 8, sides=None,
                    clause: str = "not-delivered:name-metachar") -> None:
    for ch in chars[:limit]:
        for where in ("object", "context", "signal"):
            seed = ctx.rng.randrange(1 << 30)
            out, bad = run_siblings(seed, ch, where, sides=sides, clause=clause)
            res.note_case(("siblings", ord(ch), where))
            if bad:
                (clause, detail) = bad[0]
                res.failures.append(Failure(f"{prop}:{clause}", f"seed={seed}: {detail}",
                                            {"kind": "siblings", "seed": seed, "ch": ord(ch), "where": where, "clause": clause,
                                             "sides": sides}))
                return


# ---------------------------------------------------------------------------

def oracle(spec: dict, out, tr) -> list:
    """Returns a list of (clause, detail).  Statement of C07, evaluated on what the implementation did."""
    bad = []
    if out.deadlock:
        return [("deadlock", out.deadlock[:200])]
    if out.budget:
        return [("step-budget", "")]
    if out.error is not None:
        return [("scenario-error:" + type(out.error).__name__, repr(out.error)[:300])]
    val = out.value
    for e in val["errors"]:
        bad.append((f"{e[0]}-raised:{e[-1]}", repr(e)))
    for (name, e) in out.thread_errors:
        bad.append((f"thread-died:{type(e).__name__}", f"{name}: {e!r}"[:300]))
    for e in out.net.loop_exceptions:
        bad.append((f"socket-thread-exception:{type(e).__name__}", repr(e)[:300]))
    ev = tr.events
    pubs = {}          # uid -> dict(begin, end, ctx, pub, sig, t)
    subs = {}          # (r, pc, pn, sg) -> list of (kind, begin_idx, end_idx, exc)
    open_ops = {}
    dls = []           # (c, uid, src, begin, end)
    open_dl = {}
    for n, e in enumerate(ev):
        k = e[1]
        if k == "pub-begin":
            (_, _, c, t, uid, cname, pn, sg) = e
            pubs[uid] = {"begin": n, "end": None, "ctx": cname, "pub": pn, "sig": sg, "t": (c, t)}
        elif k in ("sub-begin", "unsub-begin"):
            (_, _, c, t, r, pc, pn, sg) = e
            open_ops[(c, t)] = (k[:-6], (r, pc, pn, sg), n)
        elif k == "end":
            (_, _, c, t, desc, exc) = e
            if desc[0] == "pub":
                pubs[desc[1]]["end"] = n
                if exc is not None:
                    bad.append((f"publish-raised:{exc}", f"publication {desc[1]}"))
            elif desc[0] in ("sub", "unsub"):
                (kind, key, b) = open_ops.pop((c, t))
                subs.setdefault(key, []).append((kind, b, n, exc))
        elif k == "dl-begin":
            open_dl[(e[2], e[3])] = n
        elif k == "dl-end":
            b = open_dl.pop((e[2], e[3]), None)
            if b is not None:
                dls.append((e[2], e[3], e[4], b, n))
    END = len(ev) + 1
    removed_at = {}    # (ctx name, publisher) -> event indices of the begins of remove_rpc_object
    dropped_at = {}    # (client ctx name, server ctx name) -> event index of the begin of disconnect_from_peer
    cname_of = {v: k for k, v in tr.ctx_ids.items()}
    for n, e in enumerate(ev):
        if e[1] == "rm-begin":
            removed_at.setdefault((cname_of[e[2]], e[4]), []).append(n)
        elif e[1] == "disc-begin":
            dropped_at[(cname_of[e[2]], e[4])] = n

    def definitely_subscribed(key, lo, hi) -> bool:
        """some successful subscribe returned before lo and no unsubscribe was in progress or began in (that return, hi]"""
        ops = subs.get(key, [])
        if dropped_at.get((spec["rcvs"][key[0]], key[1]), END + 1) <= hi:
            return False          # the receiver's context closes ITS connection to the publisher's context (this direction only)
        for (kind, b, e_, exc) in ops:
            if kind == "sub" and exc is None and e_ < lo:
                # a removal of the publisher that begins after this subscribe began ends it; a removal that began
                # earlier concerns an older object of that name (a subscribe can not succeed on an object being removed)
                if any(b < n <= hi for n in removed_at.get((key[1], key[2]), [])):
                    continue
                if not any(k2 == "unsub" and e2 > b and b2 <= hi for (k2, b2, e2, x2) in ops):
                    return True
        return False

    def stale_tag(key, lo) -> str:
        """':joined-stale-set-before-removal-notice' iff the subscribe that should have made the receiver a subscriber
        began while a removal notice for exactly that (publisher, signal) was already on its way to the subscriber
        (decided before the subscribe began, arrived after it): the call joined the local subscriber set of the OLD
        publisher object, which the late notice then emptied."""
        if key[1] == spec["rcvs"][key[0]]:
            return ""
        begins = [ev[b][0] for (kind, b, e_, exc) in subs.get(key, []) if kind == "sub" and exc is None and e_ < lo]
        if not begins:
            return ""
        lb = max(begins)
        pat = f" rem {tr.oid(key[2])} {tr.sid(key[3])}"
        # "on its way": the lock section of handle_object_removed (which decides to send the notice) ran before the
        # subscribe began; the notice arrived after it
        sent = False
        ob = tr.oid(key[2])
        for i, l in enumerate(tr.lines[:lb]):
            t = l.split(" ")
            if len(t) == 5 and t[0] == "begin" and t[1] == str(tr.cid(key[1])) and t[3] == "rm" and t[4] == str(ob):
                who = f"m u {t[1]} {t[2]} L"
                if any(x == who for x in tr.lines[i + 1:lb]):
                    sent = True
        # the notice takes effect in the lock section of _handle_remote_signal_removed (socket thread of the subscriber)
        arrived = False
        wipe = f"m s {tr.cid(spec['rcvs'][key[0]])} L"
        for j, l in enumerate(tr.lines):
            if l.startswith("arrive ") and l.endswith(pat):
                jj = next((x for x in range(j + 1, len(tr.lines)) if tr.lines[x] == wipe), len(tr.lines))
                if jj > lb:
                    arrived = True
        return ":joined-stale-set-before-removal-notice" if (sent and arrived) else ""

    def possibly_subscribed(key, pub_begin, at) -> bool:
        """some subscribe began before the delivery `at`, and no unsubscribe returned before the publication began
        without a subscribe being active between the begin of that unsubscribe and the delivery"""
        ops = [o for o in subs.get(key, []) if not (o[0] == "sub" and o[3] == "QMI_SignalSubscriptionException")]   # refused = no subscribe
        if not any(kind == "sub" and b < at for (kind, b, e_, exc) in ops):
            return False
        for (kind, b, e_, exc) in ops:
            if kind == "unsub" and e_ < pub_begin:
                if not any(k2 == "sub" and e2 > b and b2 < at for (k2, b2, e2, x2) in ops):
                    return False
        return True

    dlv_idx = {}
    for n, e in enumerate(ev):
        if e[1] == "dlv":
            dlv_idx.setdefault((e[3], e[4]), []).append(n)
    rctx = spec["rcvs"]
    for r, q in enumerate(val["queues"]):
        seen = {}
        last_seq = {}
        for pos, (pctx, pname, sname, args, _seqnr) in enumerate(q):
            uid = args[0] if args else None
            p = pubs.get(uid)
            if p is None or len(args) != 1:
                bad.append(("payload-altered", f"receiver {r} holds {q[pos]!r}"))
                continue
            if (pctx, pname, sname) != (p["ctx"], p["pub"], p["sig"]):
                bad.append(("misrouted", f"receiver {r} got publication {uid} of {p['ctx']}.{p['pub']}.{p['sig']} labelled {pctx}.{pname}.{sname}"))
            seen[uid] = seen.get(uid, 0) + 1
            if seen[uid] == 2:
                bad.append(("delivered-twice", f"receiver {r} ({rctx[r]}) got publication {uid} of {p['ctx']}.{p['pub']}.{p['sig']} more than once"))
            t = p["t"]
            seq = p["begin"]
            if t in last_seq and seq < last_seq[t]:
                bad.append(("out-of-order", f"receiver {r}: publication {uid} of thread {t} after a later one of the same thread"))
            last_seq[t] = max(seq, last_seq.get(t, -1))
            key = (r, p["ctx"], p["pub"], p["sig"])
            at = min(dlv_idx.get((r, uid), [END]))
            if not any(k[0] == r and k[1:] == key[1:] and any(o[0] == "sub" and o[3] != "QMI_SignalSubscriptionException" for o in v_)
                       for k, v_ in subs.items()):
                bad.append(("not-subscribed", f"receiver {r} ({rctx[r]}) got {p['ctx']}.{p['pub']}.{p['sig']} without ever subscribing to it"))
            elif not possibly_subscribed(key, p["begin"], at):
                bad.append(("delivered-after-unsubscribe", f"receiver {r} ({rctx[r]}) got publication {uid} of {p['ctx']}.{p['pub']}.{p['sig']} "
                            f"that began after its unsubscribe had returned"))
        # must-deliver: every `_deliver_local` window in r's context that lies inside a definite subscription
        c = tr.cid(rctx[r])
        for (dc, uid, src, b, e_) in dls:
            if dc != c or uid not in pubs:
                continue
            p = pubs[uid]
            key = (r, p["ctx"], p["pub"], p["sig"])
            if definitely_subscribed(key, b, e_) and seen.get(uid, 0) == 0:
                bad.append(("not-delivered" + stale_tag(key, b), f"receiver {r} ({rctx[r]}) was subscribed to {p['ctx']}.{p['pub']}.{p['sig']} while publication {uid} "
                            f"was delivered in its context, but did not get it"))
        # must-arrive: subscribed from before the publication began until the end
        for uid, p in pubs.items():
            key = (r, p["ctx"], p["pub"], p["sig"])
            if definitely_subscribed(key, p["begin"], END) and seen.get(uid, 0) == 0 and p["end"] is not None:
                where = "local" if p["ctx"] == rctx[r] else "remote"
                bad.append((f"not-delivered-{where}" + stale_tag(key, p["begin"]), f"receiver {r} ({rctx[r]}) stayed subscribed to {p['ctx']}.{p['pub']}.{p['sig']} from before publication "
                            f"{uid} began to the end, but did not get it"))
    # dedupe clauses, keep first detail
    out_l, seen_c = [], set()
    for (c_, d) in bad:
        if c_ not in seen_c:
            seen_c.add(c_)
            out_l.append((c_, d))
    return out_l


# ---------------------------------------------------------------------------

def _case_of(seed, spec, change_points=None):
    return {"seed": seed, "spec": spec, "change_points": change_points}


class C07(Prop):
    id = "C07"
    lean_modules = ["QmiModel.Props.C07"]
    driver = "drv_c07"
    modelled_not_verified = [
        "pickling of signal arguments and message framing (C06); the model carries whole messages",
        "connect_to_peer (handshake + both registrations) is one atomic model action; QMI_Context.stop is two instants "
        "(router marked inactive: sends raise at once; then `close_all` runs); the FIFO theorem (network_fifo) relies on both: a socket "
        "thread finishes tearing a connection down before it reads from a newer connection to the same server",
        "set iteration order is a choice parameter of the model (any order allowed); request ids are fresh counters; a KeyError of "
        "_handle_subscription_reply (unknown request id) is a contained no-op",
        "receiver queues: capacity never reached in the model (the queue itself is property C09)",
        "names: the model works with (context, publisher, signal) triples; that the string keys of the tables determine the triple "
        "is proved for names without '.' (key_injective, prefix_iff_same_context, validName_no_dot), and the live "
        "is_valid_object_name is compared with the model's validName on every code point below U+0300 and a sample above, in "
        "every position, and on the length limits; names are not checked anywhere else (internal names with '$' bypass the rule)",
        "the deterministic scheduler, the simulated network and the tap layer (harness/props/pubsub_common.py)",
        "a connection that is closed WHILE a publisher's worker thread is publishing (fan-out-drop family) is judged by the "
        "exactly-once / in-order oracle only; in the trace-refined scenarios a disconnect happens between bursts",
    ]

    def _run_batch(self, ctx: Ctx, cases: list, res: Result, tag: str, refine: bool = True):
        """cases: list of (seed, spec, change_points). Runs impl, oracle, then the model driver on all logs at once."""
        from harness.props import pubsub_common as PC
        drv = LeanDriver(self.driver)
        all_lines, spans = [], []
        for (seed, spec, cps) in cases:
            out, tr = run_c07(seed, spec, change_points=cps)
            case = _case_of(seed, spec, cps)
            if tr is None:
                res.broken.append(Broken("correspondence", "C07.harness", f"scenario did not start: {out.error!r}", case=case))
                continue
            if isinstance(out.error, PC.HarnessError):
                res.broken.append(Broken("correspondence", "C07.taps", repr(out.error), case=case))
                continue
            viol = oracle(spec, out, tr)
            nevents = len(tr.events)
            res.note_case(("c07", seed, json.dumps(spec, sort_keys=True), cps),
                          nontrivial=sum(1 for e in tr.events if e[1] == "dlv") > 0 and len(spec["threads"]) > 0)
            res.count("scenarios_" + tag)
            res.count("contexts_%d" % len(spec["ctxs"]))
            res.count("events", nevents)
            res.count("model_steps_replayed", len(tr.lines))
            for e in tr.events:
                if e[1] in ("dlv", "pub-begin", "sub-begin", "unsub-begin"):
                    res.count("ev_" + e[1])
            for l in tr.lines:
                if l.startswith("arrive") and " sig " in l:
                    res.count("remote_signal_arrivals")
            if len(res.samples) < 3:
                res.sample({"seed": seed, "contexts": spec["ctxs"], "publishers": spec["pubs"], "receivers": spec["rcvs"],
                            "threads": spec["threads"][:2], "log_head": tr.lines[:25]})
            for (clause, detail) in viol:
                if sum(1 for f in res.failures if f.signature == f"C07:{clause}") < 1:
                    from harness.core import known_match
                    # an input for a defect already listed as known needs no minimising (cost on the unchanged tree)
                    small = spec if known_match("C07", f"C07:{clause}") is not None else self._shrink(seed, spec, cps, clause)
                    res.failures.append(Failure(f"C07:{clause}", f"seed={seed} policy={spec['policy']}: {detail}",
                                                {"kind": "c07", **_case_of(seed, small, cps), "clause": clause}))
            if out.deadlock or out.budget or out.error is not None:
                continue
            if not refine:        # oracle only (the model's disconnect is an action of the scenario's main thread)
                continue
            spans.append((len(all_lines), tr, case))
            all_lines += ["init"] + tr.lines
        if not all_lines:
            return
        model = drv.run(all_lines)
        for (start, tr, case) in spans:
            mo = model[start + 1: start + 1 + len(tr.lines)]
            res.traces_validated += 1
            k = PC.compare(tr, mo)
            if k is not None:
                if sum(1 for b in res.broken if b.stage == "correspondence") < 3:
                    ctxt = "; ".join(f"{tr.lines[i]} => impl[{tr.impl[i]}] model[{mo[i]}]" for i in range(max(0, k - 4), k + 1))
                    res.broken.append(Broken("correspondence", "PubSub.step vs SignalManager (trace refinement)",
                                             f"log line {k}: {ctxt}", case=case))

    def _shrink(self, seed, spec, cps, clause):
        """greedy deletion of subscriber ops / publications while the same clause still fails"""
        def fails(sp):
            try:
                out, tr = run_c07(seed, sp, change_points=cps)
                return tr is not None and any(c == clause for (c, _) in oracle(sp, out, tr))
            except Exception:
                return False
        cur = json.loads(json.dumps(spec))
        budget = 60
        changed = True
        while changed and budget > 0:
            changed = False
            for ti in range(len(cur["threads"])):
                i = 0
                while i < len(cur["threads"][ti]) and budget > 0:
                    cand = json.loads(json.dumps(cur))
                    del cand["threads"][ti][i]
                    budget -= 1
                    if fails(cand):
                        cur, changed = cand, True
                    else:
                        i += 1
            for key in list(cur["bursts"]):
                while len(cur["bursts"][key]) > 1 and budget > 0:
                    cand = json.loads(json.dumps(cur))
                    cand["bursts"][key] = cand["bursts"][key][: len(cand["bursts"][key]) // 2]
                    budget -= 1
                    if fails(cand):
                        cur, changed = cand, True
                    else:
                        break
        return cur

    def correspondence(self, ctx: Ctx) -> Result:
        res = Result(rule="scenario = (contexts, publishers, receivers, pre-subscriptions, subscriber-thread op lists, publication "
                          "bursts, scheduling policy) from the seeded PRNG + a schedule derived from the scenario seed; non-trivial = at "
                          "least one delivery and one concurrent subscriber thread; distinct by (seed, scenario)")
        # the name alphabet first: the model's table keys are triples because names contain no '.'
        n_names, bad_names = compare_name_alphabet(self.driver)
        res.count("names_compared_with_validName", n_names)
        if bad_names:
            shown = ", ".join(f"{n!r}: live {lv} model {mv}" for (n, lv, mv) in bad_names[:6])
            res.broken.append(Broken("correspondence", "PubSub.validName vs qmi.core.util.is_valid_object_name",
                                     f"{len(bad_names)} of {n_names} names judged differently, e.g. {shown}",
                                     case={"kind": "name-alphabet",
                                           "accepted_chars": [ord(c) for c in newly_accepted_chars(bad_names)]}))
            return res        # the scenarios below use plain names: they would say nothing about this breakage
        n = ctx.scale(780, 8000)
        cases = []
        for i in range(n):
            seed = ctx.rng.randrange(1 << 30)
            cases.append((seed, gen_spec(ctx.rng, not ctx.quick), None))
        step = 50
        from harness.core import known_match
        for i in range(0, len(cases), step):
            self._run_batch(ctx, cases[i:i + step], res, "random")
            # a tree that already shows a failure not listed as known, or three broken trace comparisons, needs no
            # further random scenarios (cost on a defective tree); an unchanged tree always runs all of them
            if [f for f in res.failures if known_match("C07", f.signature) is None] or \
                    sum(1 for b in res.broken if b.stage == "correspondence") >= 3:
                res.extra["random_scenarios_cut_short_after"] = i + step
                break
        # directed family: a peer leaves while the publisher is publishing to several peers
        fo = [(ctx.rng.randrange(1 << 30), sp, None) for sp in fanout_drop_specs(ctx.rng, ctx.scale(120, 1200))]
        for i in range(0, len(fo), step):
            self._run_batch(ctx, fo[i:i + step], res, "fanout-drop", refine=False)
            if [f for f in res.failures if known_match("C07", f.signature) is None]:
                break
        self._limits(ctx, res, ctx.scale(6, 40))
        return res

    def _limits(self, ctx: Ctx, res: Result, n: int):
        """signals whose pickled size is at / just below / just above MAX_MESSAGE_SIZE over the remote path"""
        res.extra["live_limits"] = live_limits()
        for _ in range(n):
            seed = ctx.rng.randrange(1 << 30)
            limit = ctx.rng.randint(3000, 20000)
            out, bad = run_limits(seed, limit)
            res.note_case(("limits", seed, limit))
            res.count("limit_scenarios")
            if out.error is None and not out.deadlock:
                (sent, got, still) = out.value
                res.count("limit_signals_published", len(sent))
                res.count("limit_signals_refused_silently_by_sender", sum(1 for x in sent if not x[2] and x[3] is None))
            for (clause, detail) in bad:
                if sum(1 for f in res.failures if f.signature == f"C07:{clause}") < 1:
                    res.failures.append(Failure(f"C07:{clause}", f"seed={seed}: {detail}",
                                                {"kind": "limits", "seed": seed, "limit": limit, "clause": clause}))

    def search(self, ctx: Ctx, broken) -> Result:
        res = Result()
        # a wider name alphabet: sibling names `x` / `x<c>y` for every newly accepted character
        for b in broken:
            if b.case and b.case.get("kind") == "name-alphabet":
                search_siblings(ctx, [chr(c) for c in b.case.get("accepted_chars", [])], res)
                if res.failures:
                    return res
        # the disagreeing cases first
        for b in broken:
            if b.case and "spec" in b.case:
                out, tr = run_c07(b.case["seed"], b.case["spec"], change_points=b.case.get("change_points"))
                res.note_case(("case", b.case["seed"]))
                if tr is not None:
                    for (clause, detail) in oracle(b.case["spec"], out, tr):
                        res.failures.append(Failure(f"C07:{clause}", f"seed={b.case['seed']}: {detail}",
                                                    {"kind": "c07", **b.case, "clause": clause}))
        if res.failures:
            return res
        # systematic sweep: a dense scenario (three receivers on one key, local and remote, concurrent (un)subscribe),
        # priority scheduling with the demotion point swept over every yield index
        spec = {"ctxs": ["P", "PA"], "pubs": [["P", "pm1"], ["P", "pm10"]], "rcvs": ["P", "P", "PA", "PA"],
                "threads": [[["unsub", 0, "P", "pm1", "sa"], ["sub", 0, "P", "pm1", "sa"], ["unsub", 1, "P", "pm1", "sa"]],
                            [["unsub", 2, "P", "pm1", "sa"], ["sub", 2, "P", "pm1", "sa2"], ["unsub", 3, "P", "pm1", "sa"], ["sub", 3, "P", "pm1", "sa"]]],
                "presub": [[0, "P", "pm1", "sa"], [1, "P", "pm1", "sa"], [2, "P", "pm1", "sa"], [3, "P", "pm1", "sa"], [1, "P", "pm1", "sa2"],
                           [1, "P", "pm10", "sa"], [3, "P", "pm10", "sa"], [3, "P", "pm10", "sa2"]],
                "bursts": {"P.pm1": ["sa", "sa2", "sa", "sa", "sa2", "sa"], "P.pm10": ["sa", "sa2"]}, "second": {"P.pm1": ["sa", "sa"]},
                "late": {"remove": ["P", "pm1"], "burst": {"P.pm10": ["sa", "sa2", "sa"]}}, "policy": "pct"}
        for seed in range(ctx.scale(3, 8)):
            for k in range(1, ctx.scale(500, 900), 3 if ctx.quick else 1):
                out, tr = run_c07(seed, spec, change_points=[k])
                res.note_case(("sweep", seed, k))
                if tr is None:
                    continue
                for (clause, detail) in oracle(spec, out, tr):
                    res.failures.append(Failure(f"C07:{clause}", f"sweep seed={seed} change_point={k}: {detail}",
                                                {"kind": "c07", **_case_of(seed, spec, [k]), "clause": clause}))
                if res.failures:
                    return res
        # and more random scenarios
        r2 = Result()
        cases = [(ctx.rng.randrange(1 << 30), gen_spec(ctx.rng, True), None) for _ in range(ctx.scale(150, 600))]
        self._run_batch(ctx, cases, r2, "search")
        r2.broken = []
        res.merge(r2)
        return res

    def replay(self, ctx: Ctx, rp: dict):
        if rp.get("kind") == "siblings":
            out, bad = run_siblings(rp["seed"], chr(rp["ch"]), rp["where"], sides=rp.get("sides"),
                                    clause=rp.get("clause", "not-delivered:name-metachar"))
            return Failure(f"C07:{bad[0][0]}", bad[0][1], rp) if bad else None
        if rp.get("kind") == "limits":
            out, bad = run_limits(rp["seed"], rp["limit"])
            for (clause, detail) in bad:
                if clause == rp.get("clause"):
                    return Failure(f"C07:{clause}", detail, rp)
            return Failure(f"C07:{bad[0][0]}", bad[0][1], rp) if bad else None
        out, tr = run_c07(rp["seed"], rp["spec"], change_points=rp.get("change_points"))
        if tr is None:
            return None
        v = oracle(rp["spec"], out, tr)
        for (clause, detail) in v:
            if clause == rp.get("clause"):
                return Failure(f"C07:{clause}", detail, rp)
        if v:
            return Failure(f"C07:{v[0][0]}", v[0][1], rp)
        return None


PROP = C07()
