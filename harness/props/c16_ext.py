"""C16, round 3 extensions (helper module of harness/props/c16.py):

  * raw annotations as the code meets them (multi-member Union, non-string-key Dict, builtin tuple, None, PEP 585/604
    generics, string annotations, sets …) -> `_check_config_struct_type`, `_parse_config_value`, `config_struct_from_dict`
    against the model's `checkType` / `parseRaw` / `fromDictFull`, plus an independent reading of the documentation
    (`supported_py`);
  * top-level data that is not a dict; non-string keys; fields with init=False (oracle only);
  * `context_singleton.create_config_from_file` (which file, what is loaded, which errors);
  * `dump_config_file` / `load_config_file` on real files (encoding, newline styles, BOM).
"""
from __future__ import annotations

import copy
import dataclasses
import json
import os
import sys
import tempfile
import types
import typing

from harness.core import Failure
from harness.props import c16 as M

RAW0 = {"int": "i", "float": "f", "str": "s", "bool": "b", "any": "a", "none": "N", "blist": "x", "btuple": "y",
        "bdict": "z", "builtintuple": "Y", "other": "?"}


# ---------------------------------------------------------------------------
# raw descriptors
#   ("int",) … ("none",) ("blist",) ("btuple",) ("bdict",) ("builtintuple",) ("other"[, flavour])
#   ("union", [r…]) ("listof", r) ("tvar", r) ("tfix", [r…]) ("dictof", rkey, r)
#   ("struct", name, [(fname, r, has_default, default_nv, init)…][, plain])     plain = a bare @dataclass, not @configstruct
# ---------------------------------------------------------------------------

def _enc_raw(r, out):
    k = r[0]
    if k in RAW0:
        out.append(RAW0[k])
    elif k == "union":
        out.append("u%d" % len(r[1]))
        for x in r[1]:
            _enc_raw(x, out)
    elif k == "listof":
        out.append("l")
        _enc_raw(r[1], out)
    elif k == "tvar":
        out.append("v")
        _enc_raw(r[1], out)
    elif k == "tfix":
        out.append("t%d" % len(r[1]))
        for x in r[1]:
            _enc_raw(x, out)
    elif k == "dictof":
        out.append("d")
        _enc_raw(r[1], out)
        _enc_raw(r[2], out)
    elif k == "struct":
        out.append("c%d" % len(r[2]))
        out.append(M.enc_str(r[1]))
        for fname, ft, hasd, d, init in r[2]:
            out.append(M.enc_str(fname))
            _enc_raw(ft, out)
            if hasd:
                out.append("=")
                M._enc_val(d, out)
            else:
                out.append("-")
            out.append("+" if init else "!")
    else:
        raise ValueError(k)


def enc_raw(r) -> str:
    out: list = []
    _enc_raw(r, out)
    return " ".join(out)


def _dec_raw(toks, i):
    t = toks[i]
    inv = {v: k for k, v in RAW0.items()}
    if t in inv:
        return (inv[t],), i + 1
    if t == "l" or t == "v":
        x, i = _dec_raw(toks, i + 1)
        return ("listof" if t == "l" else "tvar", x), i
    if t == "d":
        k, i = _dec_raw(toks, i + 1)
        x, i = _dec_raw(toks, i)
        return ("dictof", k, x), i
    if t[0] in "ut":
        n = int(t[1:])
        i += 1
        xs = []
        for _ in range(n):
            x, i = _dec_raw(toks, i)
            xs.append(x)
        return ("union" if t[0] == "u" else "tfix", xs), i
    if t[0] == "c":
        n = int(t[1:])
        name = M.dec_str(toks[i + 1])
        i += 2
        fs = []
        for _ in range(n):
            fname = M.dec_str(toks[i])
            ft, i = _dec_raw(toks, i + 1)
            if toks[i] == "-":
                hasd, d = False, None
                i += 1
            else:
                d, i = M._dec_val(toks, i + 1)
                hasd = True
            init = toks[i] == "+"
            i += 1
            fs.append((fname, ft, hasd, d, init))
        return ("struct", name, fs), i
    raise ValueError(f"bad raw token {t!r}")


def dec_raw(s: str):
    toks = s.split(" ")
    r, i = _dec_raw(toks, 0)
    assert i == len(toks), s
    return r


class _Plain:       # an arbitrary class that is not a dataclass
    pass


OTHER_FLAVOURS = [set, bytes, "int", typing.Sequence[int], typing.Set[int], list[int], dict[str, int], tuple[int, ...],
                  int | None, _Plain, 5, typing.Callable, typing.FrozenSet[str], complex, object, "List[int]"]


# `int | None` == typing.Optional[int] (and hashes alike): once typing.List[int | None] exists, typing's cache hands
# it out for typing.List[typing.Optional[int]] too — for the whole process. Never nest these flavours in a typing generic.
UNNESTABLE = {8, 10}
sys.modules.setdefault("c16_generated", types.ModuleType("c16_generated"))     # dataclasses looks the module up


def realise_raw(r, world, nested=False):
    """raw descriptor -> a live annotation object"""
    k = r[0]
    simple = {"int": int, "float": float, "str": str, "bool": bool, "any": typing.Any, "blist": typing.List,
              "btuple": typing.Tuple, "bdict": typing.Dict, "builtintuple": tuple}
    if k in simple:
        if k == "blist" and len(r) > 1 and r[1] == "list":
            return list
        if k == "bdict" and len(r) > 1 and r[1] == "dict":
            return dict
        return simple[k]
    if k == "none":
        return None if (len(r) > 1 and r[1] == "None") else type(None)
    if k == "other":
        i = r[1] % len(OTHER_FLAVOURS) if len(r) > 1 else 0
        return set if (nested and i in UNNESTABLE) else OTHER_FLAVOURS[i]
    if k == "union":
        return typing.Union[tuple(realise_raw(x, world, True) for x in r[1])]
    if k == "listof":
        return typing.List[realise_raw(r[1], world, True)]
    if k == "tvar":
        return typing.Tuple[realise_raw(r[1], world, True), ...]
    if k == "tfix":
        if not r[1]:
            return typing.Tuple[()]
        return typing.Tuple[tuple(realise_raw(x, world, True) for x in r[1])]
    if k == "dictof":
        return typing.Dict[realise_raw(r[1], world, True), realise_raw(r[2], world, True)]
    if k == "struct":
        key = "raw:" + repr(r)
        if key in world.by_ty:
            world.classes[r[1]] = world.by_ty[key]
            for f in r[2]:
                realise_raw(f[1], world)
            return world.by_ty[key]
        from qmi.core.config_struct import configstruct
        ns: dict = {"__annotations__": {}, "__module__": "c16_generated"}
        for fname, ft, hasd, d, init in r[2]:
            ns["__annotations__"][fname] = realise_raw(ft, world)
            if hasd:
                real = world.real(d)
                if real is None or isinstance(real, (bool, int, float, str)):
                    ns[fname] = real if init else dataclasses.field(default=real, init=False)
                else:
                    ns[fname] = dataclasses.field(default_factory=(lambda v=real: copy.deepcopy(v)), init=init)
            elif not init:
                ns[fname] = dataclasses.field(init=False)
        plain = len(r) > 3 and r[3]
        cls = type(r[1], (), ns)
        cls = dataclasses.dataclass(cls) if plain else configstruct(cls)
        world.classes[r[1]] = cls
        world.by_ty[key] = cls
        return cls
    raise ValueError(k)


def describe_raw(tp, seen=None):
    """a live annotation -> raw descriptor, by inspection (typing.get_origin / get_args; never by repr)"""
    if tp is int:
        return ("int",)
    if tp is float:
        return ("float",)
    if tp is str:
        return ("str",)
    if tp is bool:
        return ("bool",)
    if tp is typing.Any:
        return ("any",)
    if tp is None or tp is type(None):
        return ("none",)
    if tp is list or tp is typing.List:
        return ("blist",)
    if tp is dict or tp is typing.Dict:
        return ("bdict",)
    if tp is typing.Tuple:
        return ("btuple",)
    if tp is tuple:
        return ("builtintuple",)
    if isinstance(tp, (types.GenericAlias, types.UnionType, str)):
        return ("other",)                       # PEP 585 / PEP 604 generics and string annotations are not recognised
    origin = typing.get_origin(tp)
    args = typing.get_args(tp)
    if origin is typing.Union:
        return ("union", [describe_raw(a) for a in args])
    if origin is list and len(args) == 1:
        return ("listof", describe_raw(args[0]))
    if origin is dict and len(args) == 2:
        return ("dictof", describe_raw(args[0]), describe_raw(args[1]))
    if origin is tuple:
        if len(args) == 2 and args[1] is Ellipsis:
            return ("tvar", describe_raw(args[0]))
        return ("tfix", [describe_raw(a) for a in args])
    if isinstance(tp, type) and dataclasses.is_dataclass(tp):
        fs = []
        for f in dataclasses.fields(tp):
            if f.default is not dataclasses.MISSING:
                fs.append((f.name, describe_raw(f.type), True, M.nv_from_real(f.default), bool(f.init)))
            elif f.default_factory is not dataclasses.MISSING:
                fs.append((f.name, describe_raw(f.type), True, M.nv_from_real(f.default_factory()), bool(f.init)))
            else:
                fs.append((f.name, describe_raw(f.type), False, None, bool(f.init)))
        return ("struct", tp.__name__, fs)
    return ("other",)


def supported_py(r) -> bool:
    """the documentation of config_struct.py, read independently: which field types are allowed"""
    k = r[0]
    if k in ("int", "float", "str", "bool", "any", "blist", "btuple", "bdict"):
        return True
    if k in ("none", "builtintuple", "other"):
        return False
    if k == "union":
        members = [x for x in r[1] if x[0] != "none"]
        return len(members) == 1 and supported_py(members[0])
    if k in ("listof", "tvar"):
        return supported_py(r[1])
    if k == "tfix":
        return all(supported_py(x) for x in r[1])
    if k == "dictof":
        return r[1] == ("str",) and supported_py(r[2])
    if k == "struct":
        return all(supported_py(f[1]) for f in r[2] if f[4])
    raise ValueError(k)


def elab_py(r):
    """what `_parse_config_value` makes of a raw type (None = a field with init=False: not modelled)"""
    k = r[0]
    if k in ("int", "float", "str", "bool", "any"):
        return (k,)
    if k == "none":
        return ("opt", ("never",))
    if k == "blist":
        return ("lany",)
    if k in ("btuple", "builtintuple"):
        return ("tany",)
    if k == "bdict":
        return ("dany",)
    if k == "other":
        return ("never",)
    if k == "union":
        optional = any(x[0] == "none" for x in r[1])
        members = [x for x in r[1] if x[0] != "none"]
        inner = elab_py(members[-1]) if members else ("never",)      # the last member overwrites field_type
        if inner is None:
            return None
        return ("opt", inner) if optional else inner
    if k in ("listof", "tvar"):
        x = elab_py(r[1])
        return None if x is None else ("list" if k == "listof" else "tvar", x)
    if k == "tfix":
        xs = [elab_py(x) for x in r[1]]
        return None if any(x is None for x in xs) else ("tfix", xs)
    if k == "dictof":
        x = elab_py(r[2])
        return None if x is None else ("dict", x)
    if k == "struct":
        fs = []
        for fname, ft, hasd, d, init in r[2]:
            x = elab_py(ft)
            if x is None or not init:
                return None
            fs.append((fname, x, hasd, d))
        return ("struct", r[1], fs)
    raise ValueError(k)


def gen_raw(rng, depth, world, struct_only=False):
    if struct_only:
        k = "struct"
    elif depth <= 0:
        k = rng.choice(["int", "float", "str", "bool", "any", "none", "blist", "btuple", "bdict", "builtintuple", "other"])
    else:
        k = rng.choices(["int", "float", "str", "bool", "any", "none", "blist", "btuple", "bdict", "builtintuple", "other",
                         "union", "listof", "tvar", "tfix", "dictof", "struct"],
                        [2, 2, 2, 1, 1, 1, 0.7, 0.7, 0.7, 0.7, 2, 4, 2, 1.5, 2, 3, 3])[0]
    if k == "other":
        return ("other", rng.randrange(len(OTHER_FLAVOURS)))
    if k == "none":
        return ("none", rng.choice(["None", "NoneType"]))
    if k == "blist":
        return ("blist", rng.choice(["List", "list"]))
    if k == "bdict":
        return ("bdict", rng.choice(["Dict", "dict"]))
    if k in RAW0:
        return (k,)
    if k == "union":
        n = rng.choice([1, 2, 2, 2, 3])
        args = [gen_raw(rng, depth - 1, world) for _ in range(n)]
        if rng.random() < 0.75:
            args.insert(rng.randint(0, len(args)), ("none", "NoneType"))
        return ("union", args)
    if k in ("listof", "tvar"):
        return (k, gen_raw(rng, depth - 1, world))
    if k == "tfix":
        return ("tfix", [gen_raw(rng, depth - 1, world) for _ in range(rng.choice([0, 1, 2, 2, 3]))])
    if k == "dictof":
        key = ("str",) if rng.random() < 0.7 else gen_raw(rng, 0, world)
        return ("dictof", key, gen_raw(rng, depth - 1, world))
    names = rng.sample(M.FIELD_NAMES, rng.randint(0 if not struct_only else 1, 4))
    plain = rng.random() < 0.15
    fields = []
    for n in names:
        ft = gen_raw(rng, depth - 1, world)
        init = rng.random() < 0.9
        hasd = rng.random() < 0.5
        d = None
        if hasd:
            e = elab_py(ft)
            if e is None or _has_never(e):
                hasd = False          # only well-typed defaults (`wf`): an ill-typed default is never validated by
                                      # the code and only surfaces, with a misleading path, in an enclosing constructor
            else:
                off: list = []
                d = M.spec(e, M.gen_valid(e, rng, json_only=True), [], off)
                if off:
                    hasd, d = False, None
        fields.append((n, ft, hasd, d, init))
    if plain:   # a standard dataclass wants its defaulted constructor arguments last
        fields.sort(key=lambda f: (f[2] and f[4]))
    return ("struct", world.fresh_name(), fields, plain)


def _has_never(t) -> bool:
    k = t[0]
    if k == "never":
        return True
    if k in ("opt", "list", "tvar", "dict"):
        return _has_never(t[1])
    if k == "tfix":
        return any(_has_never(x) for x in t[1])
    if k == "struct":
        return any(_has_never(f[1]) for f in t[2])
    return False


CHECK_PATTERNS = [
    ("badUnion", "Unsupported Union type in configuration field "),
    ("badKey", "Unsupported non-string-key dictionary type in configuration field "),
    ("badType", "Unsupported data type in configuration field "),
]


def classify_any_cfg(msg: str):
    for kind, prefix in CHECK_PATTERNS:
        if msg.startswith(prefix):
            return kind, msg[len(prefix):]
    return M.classify_cfg_error(msg)


def render_path(items) -> str:
    parts = []
    for kind, x in items:
        if kind == "e":
            parts.append("[]")
        elif kind == "i":
            parts.append("[{}]".format(x))
        elif kind == "k":
            parts.append("[{!r}]".format(x))
        else:
            parts.append(x)
    return ".".join(parts)


def dec_path(tok: str):
    if tok == "-":
        return []
    items = []
    for part in tok.split("/"):
        c, rest = part[0], part[1:]
        if c == "e":
            items.append(("e", None))
        elif c == "i":
            items.append(("i", int(rest)))
        else:
            items.append((c, "".join(chr(int(x)) for x in rest.split(",")) if rest else ""))
    return items


def norm_model(line: str) -> str:
    if line.startswith("exc:QMI_ConfigurationException "):
        _, kind, ptok = line.split(" ")
        return f"exc:QMI_ConfigurationException {kind} {M.hexs(render_path(dec_path(ptok)))}"
    return M.norm_model_line(line)


def run_guarded(fn, unit=False):
    """canonical outcome line of a call of the real code"""
    from qmi.core.exceptions import QMI_ConfigurationException
    try:
        r = fn()
    except QMI_ConfigurationException as e:
        kind, p = classify_any_cfg(str(e))
        return f"exc:QMI_ConfigurationException {kind} {M.hexs(p)}"
    except RecursionError:
        raise
    except Exception as e:  # noqa: BLE001
        return f"exc:{type(e).__name__}"
    if unit:
        return "ok"
    try:
        return "ok " + M.enc_val(M.nv_from_real(r))
    except TypeError as e:
        return f"ok-unencodable:{e}"


NONDICT_TOP = [None, 5, 1.5, True, "", "x", "ab", "host", [], ["a"], ["host", "b"], ("a",), (), [1, "x_1"]]


def fixed_raw_corpus(world):
    """runs first on every seed: every rejected class, alone and nested; Optional in every spelling"""
    i, s, n = ("int",), ("str",), ("none", "NoneType")
    out = [("union", [i, n]), ("union", [n, i]), ("union", [i, s]), ("union", [i, s, n]), ("union", [n, i, s]),
           ("union", [("listof", i), n]), ("union", [("other", 0), n]), ("union", [("any",), n]),
           ("dictof", i, i), ("dictof", s, i), ("dictof", ("any",), i), ("dictof", s, ("dictof", i, s)),
           ("builtintuple",), ("union", [("builtintuple",), n]), ("none", "None"), ("none", "NoneType"),
           ("listof", ("union", [i, s])), ("tfix", [i, ("other", 0)]), ("tfix", []), ("tvar", ("none", "NoneType")),
           ("blist", "list"), ("blist", "List"), ("bdict", "dict"), ("bdict", "Dict"), ("btuple",),
           ("listof", ("blist", "list")), ("dictof", s, ("bdict", "Dict"))]
    out += [("other", k) for k in range(len(OTHER_FLAVOURS))]
    out += [("listof", ("other", k)) for k in (2, 5, 8)]
    return out


def raw_stream(prop, ctx, res, world, n_types: int):
    """`_check_config_struct_type` / `_parse_config_value` / `config_struct_from_dict` on arbitrary annotations"""
    from qmi.core import config_struct as cs
    rng = ctx.rng
    lines, impl, cases = [], [], []

    def fail(sig, summary, replay):
        if not any(f.signature == sig for f in res.failures):
            res.failures.append(Failure(sig, summary, replay))

    def one(raw0, n_data):
        try:
            T = realise_raw(raw0, world)
        except TypeError:
            return                                 # `typing` itself refuses this combination (e.g. List[5])
        raw = describe_raw(T)                      # what the annotation object really is (typing normalises Unions)
        # keep names / plain flag of structs for the registry
        if raw0[0] == "struct":
            raw = raw + ((raw0[3],) if len(raw0) > 3 else ())
        enc = enc_raw(raw)
        case = {"kind": "raw", "raw": enc_raw(raw0), "flav": repr(raw0)[:200]}
        lines.append("rty " + enc)
        impl.append("ok")
        cases.append(case)
        # --- the acceptance test
        # a structure that would load from `{}` if its field type were not looked at (the default is never validated)
        field_holder = cs.configstruct(type("H" + world.fresh_name(), (), {"__annotations__": {"f": T}, "f": None}))
        out = run_guarded(lambda: cs._check_config_struct_type(T, []), unit=True)
        lines.append("rcheck")
        impl.append(out)
        cases.append(case)
        res.count("rawcheck_" + ("ok" if out == "ok" else out.split(" ")[1] if out.startswith("exc:QMI") else out))
        res.note_case(("rcheck", enc))
        res.traces_validated += 1
        sup = supported_py(raw)
        if out == "ok" and not sup:
            fail("check:accepted-unsupported", f"_check_config_struct_type accepts `{enc}`", case)
        elif out.startswith("exc:QMI") and sup:
            fail("check:rejected-supported", f"_check_config_struct_type rejects `{enc}`: {out}", case)
        elif not out.startswith("exc:QMI") and out != "ok":
            fail("check:other-exception:" + out, f"_check_config_struct_type on `{enc}`: {out}", case)
        # as a field of a structure: the public entry point must refuse an unsupported structure
        if not sup:
            o2 = run_guarded(lambda: cs.config_struct_from_dict({}, field_holder))
            if not o2.startswith("exc:QMI_ConfigurationException bad"):
                fail("struct:unsupported-type-not-rejected", f"config_struct_from_dict with field type `{enc}`: {o2}", case)
        # --- the parser on this annotation
        e = elab_py(raw)
        if e is None:
            res.count("raw_unmodelled_init_false")
            return
        for _ in range(n_data):
            v = M.gen_valid(e, rng)
            datas = [(v, "none")]
            m, name = M.mutate(e, v, rng)
            if name != "none":
                datas.append((m, name))
            if rng.random() < 0.3:
                datas.append((None, "null"))
            for d, mut in datas:
                try:
                    o = run_guarded(lambda: cs._parse_config_value(world.real(d), T, []))
                except RecursionError:
                    continue
                lines.append("rparse " + M.enc_val(d))
                impl.append(o)
                cases.append({"kind": "rawparse", "raw": enc_raw(raw0), "val": M.enc_val(d)})
                res.count("rawparse_cases")
                res.note_case(("rparse", enc, M.enc_val(d)))
                res.traces_validated += 1
                if not (o.startswith("ok") or o.startswith("exc:QMI")):
                    fail("struct:only-config-error:" + o[4:] + ":raw-annotation",
                         f"_parse_config_value({M.enc_val(d)}, `{enc}`): {o}", cases[-1])
                if sup:     # what an unsupported annotation admits is not specified; the model line still compares it
                    off: list = []
                    M.spec(e, d, [], off)
                    if o.startswith("ok") and off:
                        fail(f"struct:accepted-inadmissible:{off[0][0]}:{off[0][2]}:{off[0][3]}",
                             f"_parse_config_value({M.enc_val(d)}, `{enc}`) accepted", cases[-1])
                    if o.startswith("exc:QMI") and not off:
                        fail("struct:rejected-admissible-data", f"_parse_config_value({M.enc_val(d)}, `{enc}`): {o}", cases[-1])
        # --- config_struct_from_dict as a whole (structures only), including data that is not a dict
        if raw[0] == "struct":
            tops = [M.gen_valid(e, rng, json_only=True), {}] + [rng.choice(NONDICT_TOP) for _ in range(2)]
            for d in tops:
                o = run_guarded(lambda: cs.config_struct_from_dict(world.real(d), T))
                lines.append("rfrom " + M.enc_val(d))
                impl.append(o)
                cases.append({"kind": "rawfrom", "raw": enc_raw(raw0), "val": M.enc_val(d)})
                res.count("rawfrom_" + ("dict" if isinstance(d, dict) else "nondict"))
                res.note_case(("rfrom", enc, M.enc_val(d)))
                if not isinstance(d, dict) and o.startswith("ok"):
                    fail("struct:toplevel-nondict-accepted", f"config_struct_from_dict({M.enc_val(d)}, `{enc}`): {o}", cases[-1])
        else:
            o = run_guarded(lambda: cs.config_struct_from_dict({}, T))
            lines.append("rfrom M0")
            impl.append(o)
            cases.append({"kind": "rawfrom", "raw": enc_raw(raw0), "val": "M0"})

    for raw0 in fixed_raw_corpus(world):
        one(raw0, 1)
    # a structure to carry the non-dict top-level data deterministically
    base = ("struct", "TopFix", [("host", ("str",), True, "h", True), ("a", ("int",), False, None, True)], False)
    T = realise_raw(base, world)
    lines.append("rty " + enc_raw(describe_raw(T)))
    impl.append("ok")
    cases.append(None)
    for d in NONDICT_TOP + [{"a": 1}, {"a": 1, "host": 5}]:
        o = run_guarded(lambda: cs.config_struct_from_dict(world.real(d), T))
        lines.append("rfrom " + M.enc_val(d))
        impl.append(o)
        cases.append({"kind": "rawfrom", "raw": enc_raw(base), "val": M.enc_val(d)})
        res.note_case(("rfrom-fixed", M.enc_val(d)))
        if not isinstance(d, dict) and o.startswith("ok"):
            fail("struct:toplevel-nondict-accepted", f"config_struct_from_dict({M.enc_val(d)}): {o}", cases[-1])
    for _ in range(n_types):
        one(gen_raw(rng, rng.randint(0, 3), world, struct_only=rng.random() < 0.4), 2)
    model = [norm_model(l) for l in M.LeanDriver(prop.driver).run(lines)]
    prop._diff(res, "checkType/parseRaw/fromDictFull vs config_struct", lines, impl, cases, model)


def replay_raw(world, rp):
    from qmi.core import config_struct as cs
    raw0 = dec_raw(rp["raw"])
    T = realise_raw(raw0, world)
    raw = describe_raw(T)
    enc = enc_raw(raw)
    if rp["kind"] == "raw":
        out = run_guarded(lambda: cs._check_config_struct_type(T, []), unit=True)
        sup = supported_py(raw)
        if out == "ok" and not sup:
            return Failure("check:accepted-unsupported", f"`{enc}` accepted", rp)
        if out.startswith("exc:QMI") and sup:
            return Failure("check:rejected-supported", f"`{enc}`: {out}", rp)
        if out != "ok" and not out.startswith("exc:QMI"):
            return Failure("check:other-exception:" + out, f"`{enc}`: {out}", rp)
        if not sup:
            H = cs.configstruct(type("H" + world.fresh_name(), (), {"__annotations__": {"f": T}, "f": None}))
            o2 = run_guarded(lambda: cs.config_struct_from_dict({}, H))
            if not o2.startswith("exc:QMI_ConfigurationException bad"):
                return Failure("struct:unsupported-type-not-rejected", f"`{enc}`: {o2}", rp)
        return None
    d = M.dec_val(rp["val"])
    if rp["kind"] == "rawparse":
        e = elab_py(raw)
        o = run_guarded(lambda: cs._parse_config_value(world.real(d), T, []))
        if not (o.startswith("ok") or o.startswith("exc:QMI")):
            return Failure("struct:only-config-error:" + o[4:] + ":raw-annotation", f"`{enc}` {rp['val']}: {o}", rp)
        if e is not None and supported_py(raw):
            off: list = []
            M.spec(e, d, [], off)
            if o.startswith("ok") and off:
                return Failure(f"struct:accepted-inadmissible:{off[0][0]}:{off[0][2]}:{off[0][3]}", f"`{enc}` {rp['val']}", rp)
            if o.startswith("exc:QMI") and not off:
                return Failure("struct:rejected-admissible-data", f"`{enc}` {rp['val']}: {o}", rp)
        return None
    if rp["kind"] == "rawfrom":
        o = run_guarded(lambda: cs.config_struct_from_dict(world.real(d), T))
        if not isinstance(d, dict) and o.startswith("ok"):
            return Failure("struct:toplevel-nondict-accepted", f"`{enc}` {rp['val']}: {o}", rp)
        return None
    return None


# ---------------------------------------------------------------------------
# oracle-only corpus: non-string keys, init=False fields
# ---------------------------------------------------------------------------

def odd_corner_corpus(prop, ctx, res, world):
    from qmi.core import config_struct as cs
    from typing import Any, Dict, List, Optional

    def fail(sig, summary, replay):
        if not any(f.signature == sig for f in res.failures):
            res.failures.append(Failure(sig, summary, replay))

    for name in NONSTR_CASES:
        sig = run_nonstr_case(name)
        res.note_case(("nonstr", name))
        res.count("nonstr_key_cases")
        if sig:
            fail(sig, f"non-string key case {name}", {"kind": "nonstr", "case": name})
    for name in INIT_FALSE_CASES:
        sig = run_init_false_case(name)
        res.note_case(("initfalse", name))
        res.count("init_false_cases")
        if sig:
            fail(sig, f"init=False case {name}", {"kind": "initfalse", "case": name})


def _nonstr_classes():
    from qmi.core.config_struct import configstruct
    from typing import Any, Dict
    S = configstruct(type("NsS", (), {"__annotations__": {"x": int}, "x": 1}))
    D = configstruct(type("NsD", (), {"__annotations__": {"d": Dict[str, int]}}))
    A = configstruct(type("NsA", (), {"__annotations__": {"a": Any, "b": dict}, "a": None,
                                      "b": dataclasses.field(default_factory=dict)}))
    N = configstruct(type("NsN", (), {"__annotations__": {"s": S}}))
    return S, D, A, N


NONSTR_CASES = ["struct-int-key", "struct-none-key", "struct-tuple-key", "nested-struct-int-key", "dict-int-key",
                "any-int-key", "baredict-int-key"]


def run_nonstr_case(name):
    """data trees with a key that is not a string: a configuration error or (where the content is not typed) acceptance;
    never another exception type"""
    from qmi.core import config_struct as cs
    from qmi.core.exceptions import QMI_ConfigurationException
    S, D, A, N = _nonstr_classes()
    data, cls, must_reject = {
        "struct-int-key": ({1: 2}, S, True),
        "struct-none-key": ({None: 2, "x": 1}, S, True),
        "struct-tuple-key": ({("a",): 2}, S, True),
        "nested-struct-int-key": ({"s": {7: 1}}, N, True),
        "dict-int-key": ({"d": {1: 2}}, D, True),
        "any-int-key": ({"a": {1: 2}}, A, False),
        "baredict-int-key": ({"b": {1: 2}}, A, False),
    }[name]
    try:
        r = cs.config_struct_from_dict(data, cls)
    except QMI_ConfigurationException:
        return None if must_reject else "struct:rejected-admissible-data:nonstr-key:" + name
    except Exception as e:  # noqa: BLE001
        return f"struct:only-config-error:{type(e).__name__}:struct:nonstr-key"
    if must_reject:
        return "struct:accepted-inadmissible:nonstr-key:" + name
    # the untyped content came through untouched
    if (name == "any-int-key" and r.a != {1: 2}) or (name == "baredict-int-key" and r.b != {1: 2}):
        return "struct:value-altered:nonstr-key"
    return None


INIT_FALSE_CASES = ["derived-default-roundtrip", "derived-key-is-unknown", "derived-not-type-checked",
                    "nested-derived-explicit", "nested-derived-roundtrip", "nested-derived-unset"]


def run_init_false_case(name):
    from qmi.core import config_struct as cs
    from qmi.core.exceptions import QMI_ConfigurationException
    C = cs.configstruct(type("IfC", (), {"__annotations__": {"x": int, "y": int}, "x": 3,
                                         "y": dataclasses.field(default=7, init=False)}))
    if name == "derived-default-roundtrip":
        try:
            r = cs.config_struct_from_dict({"x": 1}, C)
            d = cs.config_struct_to_dict(r)
            r2 = cs.config_struct_from_dict(d, C)
            return None if r2 == r else "struct:roundtrip-differs:init-false-field"
        except QMI_ConfigurationException:
            return "struct:roundtrip-differs:init-false-field"
        except Exception as e:  # noqa: BLE001
            return f"struct:only-config-error:{type(e).__name__}:init-false-field"
    if name == "derived-key-is-unknown":
        try:
            cs.config_struct_from_dict({"y": 1}, C)
        except QMI_ConfigurationException as e:
            return None if "Unknown configuration item y" in str(e) else "struct:error-names-wrong-item:init-false-field"
        except Exception as e:  # noqa: BLE001
            return f"struct:only-config-error:{type(e).__name__}:init-false-field"
        return "struct:accepted-inadmissible:init-false-field"
    if name.startswith("nested-derived"):
        # a structure with a derived (init=False) field used as a field of another structure
        unset = name == "nested-derived-unset"
        In = cs.configstruct(type("IfIn", (), {"__annotations__": {"x": int, "y": int}, "x": 3,
                                               "y": dataclasses.field(init=False) if unset
                                               else dataclasses.field(default=7, init=False)}))
        Out = cs.configstruct(type("IfOut", (), {"__annotations__": {"i": In},
                                                 "i": dataclasses.field(default_factory=In)}))
        try:
            data = {"i": {"x": 1}}
            if name == "nested-derived-roundtrip":
                data = cs.config_struct_to_dict(cs.config_struct_from_dict({}, Out))
            r = cs.config_struct_from_dict(data, Out)
            return None if r.i.x == data["i"]["x"] else "struct:value-altered:init-false-nested"
        except QMI_ConfigurationException:
            return "struct:rejected-admissible-data:init-false-nested"
        except Exception as e:  # noqa: BLE001
            return f"struct:only-config-error:{type(e).__name__}:init-false-nested"
    if name == "derived-not-type-checked":
        K = cs.configstruct(type("IfK", (), {"__annotations__": {"x": int, "z": set}, "x": 3,
                                             "z": dataclasses.field(default=None, init=False)}))
        try:
            cs.config_struct_from_dict({}, K)
            return None
        except Exception as e:  # noqa: BLE001
            return f"check:rejected-supported:init-false-field:{type(e).__name__}"
    raise ValueError(name)


# ---------------------------------------------------------------------------
# create_config_from_file
# ---------------------------------------------------------------------------

def createcfg_stream(prop, ctx, res, world):
    import qmi.core.context_singleton as ctxs
    from qmi.core.config_defs import CfgQmi
    from qmi.core.exceptions import QMI_ConfigurationException
    rng = ctx.rng
    cfgqmi = next((d for d in world.shipped if d[1] == "CfgQmi"), None)
    if cfgqmi is None:
        return

    def fail(sig, summary, replay):
        if not any(f.signature == sig for f in res.failures):
            res.failures.append(Failure(sig, summary, replay))

    saved = ctxs.QMI_CONFIG
    rows = []           # (arg, env, outcome line, chosen-by-statement, file text or None)
    with tempfile.TemporaryDirectory() as td:
        docs = {
            "a.conf": '{"workgroup": "wa"}  # file a\n',
            "b.conf": '{\n  "workgroup": "wb", # c\n  "contexts": {"c1": {"host": "h", "tcp_server_port": 5}}\n}',
            "own_key.conf": '{"config_file": "/elsewhere", "workgroup": "own"}',
            "bad_json.conf": '{"workgroup": }',
            "dup.conf": '{"workgroup": "x", "workgroup": "y"}',
            "toplist.conf": '[1, 2]',
            "unknown.conf": '{"workgrup": "typo"}',
            "mismatch.conf": '{"contexts": {"c1": {"tcp_server_port": "80"}}}',
            "crlf.conf": '{\r\n"workgroup": "crlf" # x\r\n}\r\n',
            "empty.conf": '',
            "emptyobj.conf": '{}',
            "utf8.conf": '{"workgroup": "é😀", "log_dir": "# not a comment"}',
        }
        for name, text in docs.items():
            with open(os.path.join(td, name), "w", encoding="utf-8", newline="") as f:
                f.write(text)
        os.mkdir(os.path.join(td, "adir"))
        names = list(docs) + ["missing.conf", "adir", ""]
        combos = [(None, None)] + [(n, None) for n in names] + [(None, n) for n in names]
        combos += [(rng.choice(names), rng.choice(names)) for _ in range(10)]
        cwd = os.getcwd()
        try:
            os.chdir(td)
            for k, (a, e) in enumerate(combos):
                # half of the time absolute paths, else relative to the cwd (abspath must resolve them)
                def path(n):
                    if n is None or n == "":
                        return n
                    return os.path.join(td, n) if (k % 2 == 0) else n
                arg, env = path(a), path(e)
                ctxs.QMI_CONFIG = env
                try:
                    r = ctxs.create_config_from_file(arg)
                    out = "ok " + M.enc_val(M.nv_from_real(r))
                    obj = r
                except QMI_ConfigurationException as ex:
                    kind, p = M.classify_cfg_error(str(ex))
                    out, obj = f"exc:QMI_ConfigurationException {kind} {M.hexs(p)}", None
                except OSError:
                    out, obj = "exc:OSError", None
                except ValueError:
                    out, obj = "exc:ValueError", None
                except Exception as ex:  # noqa: BLE001
                    out, obj = f"exc:{type(ex).__name__}", None
                chosen = arg if arg is not None else env
                text = None
                if chosen is not None:
                    try:
                        with open(chosen, "r") as f:
                            text = f.read()
                    except OSError:
                        text = None
                rows.append((arg, env, out, chosen, text, os.path.abspath(chosen) if chosen is not None else None))
                res.count("createcfg_cases")
                res.note_case(("createcfg", a, e))
                case = {"kind": "createcfg", "arg": a, "env": e}
                # ---- statement-level oracle
                if not (out.startswith("ok") or out.startswith("exc:QMI") or out in ("exc:OSError", "exc:ValueError")):
                    fail("createcfg:other-exception:" + out, f"create_config_from_file({a!r}) env={e!r}: {out}", case)
                if chosen is None:
                    if obj is None or obj != CfgQmi():
                        fail("createcfg:no-file-not-default", f"no file: {out[:80]}", case)
                elif obj is not None:
                    if obj.config_file != os.path.abspath(chosen):
                        fail("createcfg:wrong-file", f"arg={a!r} env={e!r}: config_file={obj.config_file!r}", case)
                    exp_wg = {"a.conf": "wa", "b.conf": "wb", "own_key.conf": "own", "crlf.conf": "crlf",
                              "emptyobj.conf": "default", "utf8.conf": "é😀"}.get(os.path.basename(chosen))
                    if exp_wg is not None and obj.workgroup != exp_wg:
                        fail("createcfg:wrong-file", f"arg={a!r} env={e!r}: workgroup={obj.workgroup!r}", case)
        finally:
            os.chdir(cwd)
            ctxs.QMI_CONFIG = saved
    # ---- model pipeline: choose -> (file system, json: parameters) -> hook -> setkey -> parse CfgQmi
    drv = M.LeanDriver(prop.driver)
    enc_opt = lambda x: "-" if x is None else M.enc_str(x)  # noqa: E731
    l1 = [f"choose {enc_opt(a)} {enc_opt(e)}" for a, e, *_ in rows]
    m1 = drv.run(l1)
    i1 = [enc_opt(ch) for _, _, _, ch, _, _ in rows]
    prop._diff(res, "chooseFile vs create_config_from_file", l1, i1, [{"kind": "createcfg"}] * len(l1), m1)
    l2, post = [], []
    for arg, env, out, chosen, text, ab in rows:
        if chosen is None:
            post.append(("default", None))
        elif text is None:
            post.append(("const", "exc:OSError"))
        else:
            post.append(("text", text))
            l2.append("strip " + M.enc_str(text))
    m2 = iter(drv.run(l2)) if l2 else iter([])
    l3, post3 = [], []
    for (arg, env, out, chosen, text, ab), (kind, x) in zip(rows, post):
        if kind == "default":
            post3.append(("ctor", None))
        elif kind == "const":
            post3.append(("const", x))
        else:
            stripped = M.dec_str(next(m2))
            try:
                raw = json.loads(stripped, object_pairs_hook=M.RawObj)
            except ValueError:
                post3.append(("const", "exc:ValueError"))
                continue
            post3.append(("hook", (raw, ab)))
            l3.append("hook " + M.enc_val(raw))
    m3 = iter(drv.run(l3)) if l3 else iter([])
    l4, expect_idx, final = ["ty " + M.enc_ty(cfgqmi)], [], []
    for kind, x in post3:
        if kind == "ctor":
            l4.append("ctor M0")
            expect_idx.append(len(l4) - 1)
            final.append(None)
        elif kind == "const":
            final.append(x)
        else:
            raw, ab = x
            h = next(m3)
            if h != "ok":
                final.append(M.norm_model_line(h))
                continue
            d = dict(M.raw_to_nv(raw))
            d["config_file"] = ab                 # the model's `setKey` is checked separately below
            l4.append("parse " + M.enc_val(d))
            expect_idx.append(len(l4) - 1)
            final.append(None)
    m4 = drv.run(l4)
    it = iter(expect_idx)
    model = []
    for f in final:
        if f is not None:
            model.append(f)
        else:
            line = M.norm_model_line(m4[next(it)])
            model.append(line.split(" | ")[0] if line.startswith("ok ") else line)
    prop._diff(res, "createConfig pipeline vs create_config_from_file", [f"createcfg {a!r} {e!r}" for a, e, *_ in rows],
               [r[2] for r in rows], [{"kind": "createcfg"}] * len(rows), model)
    # setKey against OrderedDict item assignment
    l5, i5 = [], []
    for _ in range(60):
        d = M.gen_json(rng, 1, top=True)
        k = rng.choice(list(d.keys()) + ["config_file", "", "zz"])
        v = M.gen_json(rng, 0)
        l5.append(f"setkey {M.enc_str(k)} {M.enc_val(v)} {M.enc_val(d)}")
        import collections
        od = collections.OrderedDict(d)
        od[k] = v
        i5.append(M.enc_val(dict(od)))
    prop._diff(res, "setKey vs OrderedDict.__setitem__", l5, i5, [{"kind": "createcfg"}] * len(l5), drv.run(l5))


# ---------------------------------------------------------------------------
# every route into the conversion gets the same data: config_struct_from_dict, qmi.start(context_cfg=…),
# qmi.start(config_file=…) with the data as the "contexts" section
# ---------------------------------------------------------------------------

class _StubContext:
    """stands in for QMI_Context inside qmi.start(): no threads, no sockets — only what start() hands over"""
    last = None

    def __init__(self, name, config=None):
        self.name, self.config = name, config
        _StubContext.last = self

    def start(self):
        pass

    def stop(self):
        pass

    def get_config(self):
        return self.config

    def get_context_config(self):
        from qmi.core.config_defs import CfgContext
        return CfgContext()


def run_start(context_cfg, config_file=None):
    """qmi.start(...) with the context object stubbed; returns (outcome line, config structure or None)"""
    import qmi.core.context_singleton as ctxs
    from qmi.core.exceptions import QMI_ConfigurationException
    saved = (ctxs.QMI_Context, ctxs._connect_to_peers, ctxs._qmi_context, ctxs.QMI_CONFIG)
    ctxs.QMI_Context, ctxs._connect_to_peers, ctxs._qmi_context, ctxs.QMI_CONFIG = _StubContext, (lambda: None), None, None
    _StubContext.last = None
    try:
        try:
            ctxs.start("c16ctx", config_file=config_file, init_logging=False, context_cfg=context_cfg)
        except QMI_ConfigurationException as e:
            kind, p = M.classify_cfg_error(str(e))
            return f"exc:QMI_ConfigurationException {kind} {M.hexs(p)}", None, str(e)
        except RecursionError:
            raise
        except Exception as e:  # noqa: BLE001
            return f"exc:{type(e).__name__}", None, str(e)
        cfg = _StubContext.last.config
        return "ok", cfg, ""
    finally:
        ctxs.QMI_Context, ctxs._connect_to_peers, ctxs._qmi_context, ctxs.QMI_CONFIG = saved


def run_from_dict(data, cls):
    from qmi.core import config_struct as cs
    from qmi.core.exceptions import QMI_ConfigurationException
    try:
        return "ok", cs.config_struct_from_dict(data, cls), ""
    except QMI_ConfigurationException as e:
        kind, p = M.classify_cfg_error(str(e))
        return f"exc:QMI_ConfigurationException {kind} {M.hexs(p)}", None, str(e)
    except RecursionError:
        raise
    except Exception as e:  # noqa: BLE001
        return f"exc:{type(e).__name__}", None, str(e)


NONSTR_KEYS = [1, None, ("a",), 2.5, True]


def gen_context_cfg(rng, ctxdesc):
    """{context name: per-context settings}: matching, one-mutation mismatching, unknown/misspelt keys, wrong nesting,
    data that is not a dict, keys that are not strings"""
    out, classes = {}, []
    for _ in range(rng.randint(1, 3)):
        name = rng.choice(["c1", "c2", "Ctx", "c 3", "é", "", "c1.x", "#"])
        r = rng.random()
        v = M.gen_valid(ctxdesc, rng, json_only=True)
        cls = "valid"
        if r < 0.35:
            pass
        elif r < 0.7:
            v, cls = M.mutate(ctxdesc, v, rng)
        elif r < 0.8:
            v = dict(v)
            v[rng.choice(["tcp_port", "Host", "hosts", "enable", "peers", "program_arg", "tcp_server_port "])] = rng.choice([1, "x", None])
            cls = "misspelt-key"
        elif r < 0.87:
            v = rng.choice(NONDICT_TOP)
            cls = "not-a-dict"
        elif r < 0.94:
            v = dict(v)
            v[rng.choice(NONSTR_KEYS)] = 1
            cls = "non-string-key"
        else:
            v = {"host": {"host": "h"}, "connect_to_peers": {"a": 1}} if rng.random() < 0.5 else {"contexts": {"c": v}}
            cls = "wrong-nesting"
        out[name] = v
        classes.append(cls)
    return out, classes


def _all_str_keys(v) -> bool:
    if isinstance(v, dict):
        return all(isinstance(k, str) for k in v) and all(_all_str_keys(x) for x in v.values())
    if isinstance(v, (list, tuple)):
        return all(_all_str_keys(x) for x in v)
    return True


def _check_routes(cfg, world, td):
    """push one context_cfg through every route; returns (failure signature or None, detail, lines for the model)"""
    from qmi.core.config_defs import CfgContext, CfgQmi
    # reference route: config_struct_from_dict on each item, in order — the verdict of the first failing item
    ref_line, ref_objs, ref_msg = "ok", {}, ""
    for k, d in cfg.items():
        line, obj, msg = run_from_dict(copy.deepcopy(d), CfgContext)
        if line != "ok":
            ref_line, ref_msg = line, msg
            break
        ref_objs[k] = obj
    # route qmi.start(context_cfg=…)
    line, conf, msg = run_start(copy.deepcopy(cfg))
    all_dicts = all(isinstance(d, dict) for d in cfg.values())
    if all_dicts and not (line == "ok" or line.startswith("exc:QMI")):
        return f"struct:only-config-error:{line[4:]}:route-context_cfg", f"qmi.start(context_cfg={cfg!r}): {line} {msg}", line
    if line != ref_line or msg != ref_msg:
        return "route:context_cfg-disagrees-with-from_dict", \
            f"qmi.start(context_cfg={cfg!r}): {line} {msg!r}; config_struct_from_dict: {ref_line} {ref_msg!r}", line
    if line == "ok":
        got = {k: M.enc_val(M.nv_from_real(conf.contexts[k])) for k in cfg}
        exp = {k: M.enc_val(M.nv_from_real(o)) for k, o in ref_objs.items()}
        if got != exp or set(conf.contexts.keys()) != set(cfg.keys()):
            return "route:context_cfg-structure-differs", f"{cfg!r}: {got} vs {exp}", line
    # route file: the same data as the "contexts" section of a configuration file
    if all_dicts and _all_str_keys(cfg) and "U" not in {t[0] for t in M.enc_val(cfg).split(" ")}:
        from qmi.core.config import load_config_string
        try:
            text = json.dumps({"contexts": cfg})
            json.dumps(cfg).encode("utf-8")
        except (TypeError, ValueError, UnicodeEncodeError):
            return None, "", line
        if "NaN" in text or "Infinity" in text:
            return None, "", line
        path = os.path.join(td, "route.conf")
        with open(path, "w", encoding="utf-8") as f:
            f.write(text)
        fline, fconf, fmsg = run_start(None, config_file=path)
        refdata = load_config_string(text)
        refdata["config_file"] = os.path.abspath(path)
        rline, robj, rmsg = run_from_dict(refdata, CfgQmi)
        if not (fline == "ok" or fline.startswith("exc:QMI")):
            return f"struct:only-config-error:{fline[4:]}:route-config_file", f"contexts section {cfg!r}: {fline} {fmsg}", line
        if fline != rline or fmsg != rmsg:
            return "route:config_file-disagrees-with-from_dict", f"{cfg!r}: {fline} {fmsg!r} vs {rline} {rmsg!r}", line
        if fline == "ok" and M.enc_val(M.nv_from_real(fconf)) != M.enc_val(M.nv_from_real(robj)):
            return "route:config_file-structure-differs", f"{cfg!r}", line
        # the verdict of the file route and of the context_cfg route agree (accept / refuse, and which kind)
        if (fline == "ok") != (line == "ok") or (fline != "ok" and fline.split(" ")[1] != line.split(" ")[1]):
            return "route:config_file-disagrees-with-context_cfg", f"{cfg!r}: file {fline}, context_cfg {line}", line
    return None, "", line


def routes_stream(prop, ctx, res, world, n: int):
    rng = ctx.rng
    ctxdesc = next((d for d in world.shipped if d[1] == "CfgContext"), None)
    if ctxdesc is None:
        return
    from qmi.core.config_defs import CfgContext
    raw_ctx = describe_raw(CfgContext)
    lines, impl, cases = ["rty " + enc_raw(raw_ctx)], ["ok"], [None]
    fixed = [({"c1": {"tcp_port": 1}}, ["misspelt-key"]), ({"c1": {"host": "h"}, "c2": {"hosts": "h"}}, ["valid", "misspelt-key"]),
             ({"c1": {1: 2}}, ["non-string-key"]), ({"c1": {"tcp_server_port": "80"}}, ["wrong-scalar"]),
             ({"c1": {"connect_to_peers": ["a", 1]}}, ["wrong-scalar"]), ({"c1": None}, ["not-a-dict"]), ({"c1": {}}, ["valid"]),
             ({"c1": {"host": "a"}, "c1 ": {"host": "b"}}, ["valid", "valid"]), ({}, [])]
    with tempfile.TemporaryDirectory() as td:
        for i in range(len(fixed) + n):
            cfg, classes = fixed[i] if i < len(fixed) else gen_context_cfg(rng, ctxdesc)
            try:
                sig, detail, line = _check_routes(cfg, world, td)
            except RecursionError:
                continue
            for c in classes:
                res.count("route_item_" + c)
            res.count("route_cases")
            res.note_case(("route", repr(cfg)))
            res.traces_validated += 1
            strkeys = _all_str_keys(cfg)
            case = {"kind": "route", "cfg": M.enc_val(cfg) if strkeys else None, "repr": repr(cfg)[:300]}
            if sig and not any(f.signature == sig for f in res.failures):
                res.failures.append(Failure(sig, detail[:400], case))
            # the model's verdict (its keys are strings)
            if strkeys:
                lines.append(f"applyctx M0 {M.enc_val(cfg)}")
                if line == "ok":
                    run = run_start(copy.deepcopy(cfg))[1]
                    impl.append("ok " + M.enc_val({k: M.nv_from_real(v) for k, v in run.contexts.items()}))
                else:
                    impl.append(line)
                cases.append(case)
    model = [norm_model(l) for l in M.LeanDriver(prop.driver).run(lines)]
    prop._diff(res, "applyContextCfg vs qmi.start(context_cfg=…)", lines, impl, cases, model)


def replay_route(world, rp):
    if not rp.get("cfg"):
        return None
    cfg = M.dec_val(rp["cfg"])
    with tempfile.TemporaryDirectory() as td:
        sig, detail, _ = _check_routes(cfg, world, td)
    return Failure(sig, detail[:400], rp) if sig else None


# ---------------------------------------------------------------------------
# dump_config_file / load_config_file on real files
# ---------------------------------------------------------------------------

def file_stream(prop, ctx, res, n: int):
    from qmi.core.config import dump_config_file, dump_config_string, load_config_file
    rng = ctx.rng

    def fail(sig, summary, replay):
        if not any(f.signature == sig for f in res.failures):
            res.failures.append(Failure(sig, summary, replay))

    with tempfile.TemporaryDirectory() as td:
        path = os.path.join(td, "cfg.conf")
        for i in range(n):
            d = M.gen_json(rng, rng.randint(1, 3), top=True)
            case = {"kind": "filerw", "val": M.enc_val(d)}
            res.count("file_cases")
            res.note_case(("file", M.enc_val(d)))
            # dump to a file: exactly the dumped text (platform line separator), pure ASCII
            try:
                dump_config_file(copy.deepcopy(d), path)
                with open(path, "rb") as f:
                    raw = f.read()
                expect = dump_config_string(copy.deepcopy(d)).replace("\n", os.linesep).encode("ascii")
                if raw != expect:
                    fail("file:dump-file-differs-from-dump-string", f"{M.enc_val(d)[:120]}", case)
                back = load_config_file(path)
                if M.enc_val(M.nv_from_real(back)) != M.enc_val(d):
                    fail("file:dump-load-differs", f"{M.enc_val(d)[:120]}", case)
            except RecursionError:
                continue
            except Exception as e:  # noqa: BLE001
                fail("file:dump-load-raises:" + type(e).__name__, f"{M.enc_val(d)[:120]}: {e}", case)
            # a hand-written file: comments, raw non-ASCII (UTF-8), every newline style
            dd = _desurrogate(d)                    # raw text must be encodable as UTF-8
            text = M.comment_lines(json.dumps(dd, indent=rng.choice([None, 2, 4]), ensure_ascii=rng.random() < 0.3),
                                   rng, rng.choice([0.0, 0.5, 1.0]))
            nl = rng.choice(["\n", "\r\n", "\r"])
            text = text.replace("\r\n", "\n").replace("\r", "\n").replace("\n", nl)
            try:
                blob = text.encode("utf-8")
            except UnicodeEncodeError:
                continue
            with open(path, "wb") as f:
                f.write(blob)
            try:
                got = M.enc_val(M.nv_from_real(load_config_file(path)))
            except Exception as e:  # noqa: BLE001
                got = f"exc:{type(e).__name__}"
            if got != M.enc_val(dd):
                fail("file:comments-not-ignored-exactly", f"newline={nl!r} text={text[:100]!r} -> {got[:80]}",
                     {"kind": "fileload", "text": [ord(c) for c in text]})
        # fixed: a missing file and a byte-order mark are errors, not silently something else
        for name, blob, ok_exc in [("missing", None, (OSError,)), ("bom", b"\xef\xbb\xbf{}", (ValueError,)),
                                   ("latin1", '{"a": "é"}'.encode("latin-1"), (ValueError,))]:
            p2 = os.path.join(td, name)
            if blob is not None:
                with open(p2, "wb") as f:
                    f.write(blob)
            try:
                load_config_file(p2)
                fail("file:bad-file-accepted:" + name, name, {"kind": "filefixed", "name": name})
            except ok_exc:
                pass
            except Exception as e:  # noqa: BLE001
                fail(f"file:bad-file-other-exception:{name}:{type(e).__name__}", str(e), {"kind": "filefixed", "name": name})
            res.note_case(("filefixed", name))


def _desurrogate(v):
    if isinstance(v, str):
        return "".join("S" if 0xD800 <= ord(c) <= 0xDFFF else c for c in v)
    if isinstance(v, list):
        return [_desurrogate(x) for x in v]
    if isinstance(v, dict):
        return {_desurrogate(k): _desurrogate(x) for k, x in v.items()}
    return v


# ---------------------------------------------------------------------------
# histories: the same file / text / data more than once in one process
# ---------------------------------------------------------------------------

def _container_ids(v, acc=None):
    acc = set() if acc is None else acc
    if isinstance(v, dict):
        acc.add(id(v))
        for x in v.values():
            _container_ids(x, acc)
    elif isinstance(v, list):
        acc.add(id(v))
        for x in v:
            _container_ids(x, acc)
    elif dataclasses.is_dataclass(v) and not isinstance(v, type):
        acc.add(id(v))
        for f in dataclasses.fields(v):
            if hasattr(v, f.name):
                _container_ids(getattr(v, f.name), acc)
    return acc


def _poison(v, rng):
    """change a result in place, as a caller is free to do with its own data"""
    if isinstance(v, dict):
        v["poison"] = [1]
        for x in list(v.values()):
            if isinstance(x, (dict, list)) and rng.random() < 0.7:
                _poison(x, rng)
    elif isinstance(v, list):
        v.append("poison")
        for x in v:
            if isinstance(x, (dict, list)) and rng.random() < 0.7:
                _poison(x, rng)
    elif dataclasses.is_dataclass(v) and not isinstance(v, type):
        for f in dataclasses.fields(v):
            x = getattr(v, f.name, None)
            if isinstance(x, (dict, list)) or dataclasses.is_dataclass(x):
                _poison(x, rng)


def gen_history(rng, length: int):
    """ops on two files: ('write', f, doc, how) ('load', f, spelling) ('poison', i) ('create', f, spelling) ('swap',)
    docs are CfgQmi-loadable; 'how' = dump | text | same-size-same-mtime"""
    def doc():
        wg = "w" + "".join(rng.choice("abcXYZ") for _ in range(4))                    # always the same rendered length
        d = {"workgroup": wg, "contexts": {"c" + rng.choice("12"): {"host": rng.choice(["hA", "hB"]), "connect_to_peers": []}}}
        if rng.random() < 0.3:
            d["config_file"] = "/in/doc"
        return d
    ops = [("write", 0, doc(), "dump"), ("write", 1, doc(), "text")]
    for _ in range(length):
        r = rng.random()
        f = rng.randint(0, 1)
        if r < 0.4:
            ops.append(("load", f, rng.choice(["abs", "rel", "dotrel"])))
        elif r < 0.5:
            ops.append(("poison",))
        elif r < 0.65:
            ops.append(("create", f, rng.choice(["abs", "rel"])))
        elif r < 0.9:
            ops.append(("write", f, doc(), rng.choice(["dump", "text", "stale", "stale"])))
        else:
            ops.append(("swap",))
    ops += [("load", 0, "abs"), ("load", 1, "rel"), ("load", 0, "abs")]
    return ops


def run_history(ops, rng):
    """returns a failure signature + detail, or None"""
    import qmi.core.context_singleton as ctxs
    from qmi.core.config import dump_config_file, load_config_file
    from qmi.core.config_defs import CfgQmi
    from qmi.core.config_struct import config_struct_from_dict
    cwd = os.getcwd()
    saved_env = ctxs.QMI_CONFIG
    with tempfile.TemporaryDirectory() as td:
        names = ["h0.conf", "h1.conf"]
        content = [None, None]               # what is in each file now
        results = []                          # every object handed out so far (kept alive)
        seen_ids: set = set()
        try:
            os.chdir(td)
            ctxs.QMI_CONFIG = None

            def spell(f, how):
                return {"abs": os.path.join(td, names[f]), "rel": names[f], "dotrel": os.path.join(".", names[f])}[how]

            def write(f, d, how):
                path = os.path.join(td, names[f])
                if how == "dump":
                    dump_config_file(copy.deepcopy(d), path)
                else:
                    st = os.stat(path) if (how == "stale" and os.path.exists(path)) else None
                    text = json.dumps(d, indent=4)
                    if how == "text":
                        text = text.replace("\n", "  # c\n", 1)
                    with open(path, "w") as fh:
                        fh.write(text)
                    if st is not None:
                        os.utime(path, ns=(st.st_atime_ns, st.st_mtime_ns))      # the clock did not tick
                content[f] = copy.deepcopy(d)

            for k, op in enumerate(ops):
                if op[0] == "write":
                    write(op[1], op[2], op[3])
                elif op[0] == "swap":
                    a, b = content[0], content[1]
                    write(0, b, "stale")
                    write(1, a, "stale")
                elif op[0] == "poison":
                    if results:
                        _poison(rng.choice(results), rng)
                elif op[0] == "load":
                    r = load_config_file(spell(op[1], op[2]))
                    if M.enc_val(M.nv_from_real(r)) != M.enc_val(content[op[1]]):
                        return "file:history-load-differs-from-content", \
                            f"step {k} {op}: loaded {dict(r)!r}, the file holds {content[op[1]]!r}; history {ops[:k + 1]!r}"
                    ids = _container_ids(r)
                    if ids & seen_ids:
                        return "file:history-results-share-objects", f"step {k} {op}: result shares mutable objects with an earlier result; history {ops[:k + 1]!r}"
                    seen_ids |= ids
                    results.append(r)
                elif op[0] == "create":
                    path = spell(op[1], op[2])
                    c = ctxs.create_config_from_file(path)
                    exp = dict(content[op[1]])
                    exp["config_file"] = os.path.abspath(path)
                    ref = config_struct_from_dict(copy.deepcopy(exp), CfgQmi)
                    if M.enc_val(M.nv_from_real(c)) != M.enc_val(M.nv_from_real(ref)):
                        return "file:history-create-differs-from-content", f"step {k} {op}: {c!r} vs {ref!r}; history {ops[:k + 1]!r}"
                    ids = _container_ids(c)
                    if ids & seen_ids:
                        return "file:history-results-share-objects", f"step {k} {op}: structure shares mutable objects with an earlier result"
                    seen_ids |= ids
                    results.append(c)
        finally:
            os.chdir(cwd)
            ctxs.QMI_CONFIG = saved_env
    return None


def aliasing_checks(world, rng):
    """string route and struct route: two calls on the same input are equal, independent of each other and of the input"""
    from qmi.core import config_struct as cs
    from qmi.core.config import dump_config_string, load_config_string
    from qmi.core.config_defs import CfgQmi
    d = {"workgroup": "w", "contexts": {"c1": {"host": "h", "connect_to_peers": ["p"], "program_args": []}},
         "logging": {"loglevels": {"a": "INFO"}}}
    text = json.dumps(d) + " # c"
    a, b = load_config_string(text), load_config_string(text)
    if _container_ids(a) & _container_ids(b):
        return "string:results-share-objects", "two load_config_string calls on one text share objects"
    _poison(a, rng)
    c = load_config_string(text)
    if M.enc_val(M.nv_from_real(c)) != M.enc_val(d) or M.enc_val(M.nv_from_real(b)) != M.enc_val(d):
        return "string:results-share-objects", "changing one result of load_config_string changed another"
    data = copy.deepcopy(d)
    s1, s2 = cs.config_struct_from_dict(data, CfgQmi), cs.config_struct_from_dict(data, CfgQmi)
    if M.enc_val(data) != M.enc_val(d):
        return "struct:input-mutated-or-stateful", "config_struct_from_dict changed its input"
    if _container_ids(s1) & _container_ids(s2):
        return "struct:results-share-objects", "two structures from one input share mutable objects"
    ref = M.enc_val(M.nv_from_real(s2))
    _poison(s1, rng)
    if M.enc_val(M.nv_from_real(s2)) != ref or M.enc_val(M.nv_from_real(cs.config_struct_from_dict(copy.deepcopy(d), CfgQmi))) != ref:
        return "struct:results-share-objects", "changing one structure changed another"
    # the input is not aliased by the structure either (typed containers are rebuilt)
    s3 = cs.config_struct_from_dict(data, CfgQmi)
    data["contexts"]["c1"]["connect_to_peers"].append("later")
    if M.enc_val(M.nv_from_real(s3)) != ref:
        return "struct:result-aliases-input", "changing the input after the conversion changed the structure"
    t1, t2 = cs.config_struct_to_dict(s2), cs.config_struct_to_dict(s2)
    if _container_ids(t1) & (_container_ids(t2) | _container_ids(s2)):
        return "struct:results-share-objects", "config_struct_to_dict output shares objects with the structure or an earlier output"
    u1, u2 = dump_config_string(d), dump_config_string(d)
    if u1 != u2:
        return "string:dump-not-deterministic", "two dumps of one dict differ"
    return None


def history_stream(prop, ctx, res, world, n: int):
    rng = ctx.rng

    def fail(sig, detail, replay):
        if not any(f.signature == sig for f in res.failures):
            res.failures.append(Failure(sig, detail[:600], replay))

    fixed = [
        [("write", 0, {"workgroup": "wAAAA"}, "dump"), ("load", 0, "abs"), ("load", 0, "abs"), ("load", 0, "rel")],
        [("write", 0, {"workgroup": "wAAAA"}, "dump"), ("load", 0, "abs"), ("poison",), ("load", 0, "abs")],
        [("write", 0, {"workgroup": "wAAAA"}, "text"), ("load", 0, "abs"), ("create", 0, "abs"), ("load", 0, "abs"), ("create", 0, "rel"), ("load", 0, "rel")],
        [("write", 0, {"workgroup": "wAAAA"}, "dump"), ("load", 0, "abs"), ("write", 0, {"workgroup": "wBBBB"}, "stale"), ("load", 0, "abs")],
        [("write", 0, {"workgroup": "wAAAA"}, "dump"), ("write", 1, {"workgroup": "wBBBB"}, "dump"), ("load", 0, "abs"), ("load", 1, "abs"),
         ("swap",), ("load", 0, "abs"), ("load", 1, "abs")],
        [("write", 0, {"workgroup": "wAAAA"}, "dump"), ("create", 0, "abs"), ("create", 0, "abs"), ("poison",), ("create", 0, "abs")],
    ]
    for i in range(len(fixed) + n):
        ops = fixed[i] if i < len(fixed) else gen_history(rng, rng.randint(4, 14))
        sub = random_state = rng.random()
        import random as _r
        r2 = _r.Random(sub)
        try:
            out = run_history(ops, r2)
        except RecursionError:
            continue
        except Exception as e:  # noqa: BLE001
            out = (f"file:history-raises:{type(e).__name__}", f"{e}; history {ops!r}")
        res.count("history_cases")
        res.count("history_ops", len(ops))
        res.note_case(("history", repr(ops)))
        res.traces_validated += 1
        if out:
            fail(out[0], out[1], {"kind": "history", "ops": M.jsonable_ops(ops), "sub": sub})
    for _ in range(3):       # 1st, 2nd and 3rd time in this process
        out = aliasing_checks(world, rng)
        res.note_case(("aliasing",))
        if out:
            fail(out[0], out[1], {"kind": "aliasing"})


def replay_history(rp):
    import random as _r
    if rp["kind"] == "aliasing":
        out = aliasing_checks(None, _r.Random(0))
    else:
        ops = [tuple(o) for o in rp["ops"]]
        out = run_history(ops, _r.Random(rp.get("sub", 0)))
    return Failure(out[0], out[1][:600], rp) if out else None


def replay_fileload(rp):
    from qmi.core.config import load_config_file
    text = "".join(chr(c) for c in rp["text"])
    exp_lines = [M.ref_strip_line(ln) for ln in text.replace("\r\n", "\n").replace("\r", "\n").split("\n")]
    if None in exp_lines:
        return None
    try:
        exp = json.loads("\n".join(exp_lines))
    except ValueError:
        return None
    with tempfile.TemporaryDirectory() as td:
        p = os.path.join(td, "c.conf")
        with open(p, "wb") as f:
            f.write(text.encode("utf-8"))
        try:
            got = M.enc_val(M.nv_from_real(load_config_file(p)))
        except Exception as e:  # noqa: BLE001
            got = f"exc:{type(e).__name__}"
    if got != M.enc_val(exp):
        return Failure("file:comments-not-ignored-exactly", f"{text[:100]!r} -> {got[:80]}", rp)
    return None
